"""Scratch copies of /repo with harness overlays (engine E1, DESIGN §2.1).

A *group* is one build configuration: package, features, the set of harness
modules appended to real source files, optional literal rewrites (scaled
capacities, DESIGN §2.5a).  Each group owns a scratch copy of /repo's working
tree plus a cargo target dir under CACHE/<group>/.  The copy is re-synchronised
from /repo on every run (content/mtime compare, so cargo rebuilds exactly what
changed in /repo or in the harness files); nothing is ever written to /repo.
"""
import fcntl
import json
import os
import shutil
import stat
import sys

VERIF = os.path.dirname(os.path.dirname(os.path.dirname(os.path.abspath(__file__))))
REPO = os.environ.get("VERIF_REPO", "/repo")
CACHE = os.environ.get("VERIF_CACHE", os.path.join(VERIF, ".cache"))

EXCLUDE_DIRS = {"target", ".git", ".github", "images"}


class Broken(Exception):
    """The machinery could not produce a verdict (exit 2)."""


def load_groups():
    """groups.json: build configurations; overlays/*.json: harness modules appended per group.

    VERIF_OVERLAY_FILTER=<regex on the harness path> restricts the overlays (used while developing
    one harness file so that somebody else's half-written harness cannot break the build).
    """
    import glob
    import re

    with open(os.path.join(VERIF, "checks", "groups.json")) as f:
        groups = json.load(f)
    for p in sorted(glob.glob(os.path.join(VERIF, "checks", "groups.d", "*.json"))):
        with open(p) as f:
            groups.update(json.load(f))
    flt = os.environ.get("VERIF_OVERLAY_FILTER")
    for g in groups.values():
        g.setdefault("overlays", [])
    for p in sorted(glob.glob(os.path.join(VERIF, "checks", "overlays", "*.json"))):
        with open(p) as f:
            for ov in json.load(f):
                if flt and not re.search(flt, ov["harness"]):
                    continue
                for gname in ov["groups"]:
                    if gname not in groups:
                        raise Broken(f"{p}: unknown group {gname}")
                    groups[gname]["overlays"].append(ov)
    return groups


def _read(p):
    with open(p, "rb") as f:
        return f.read()


def _write_if_changed(path, data):
    try:
        if _read(path) == data:
            return False
    except FileNotFoundError:
        pass
    os.makedirs(os.path.dirname(path), exist_ok=True)
    tmp = path + ".verif-tmp"
    with open(tmp, "wb") as f:
        f.write(data)
    os.replace(tmp, path)
    return True


def apply_rewrites(rel, data, rewrites, log):
    for rw in rewrites:
        if rw["file"] != rel:
            continue
        old = rw["old"].encode()
        new = rw["new"].encode()
        n = data.count(old)
        if n != rw.get("count", 1):
            raise Broken(
                f"rewrite of {rel}: pattern {rw['old']!r} matched {n} times, expected {rw.get('count', 1)} "
                "(the source changed under a scaled-capacity rewrite; refusing to guess)"
            )
        data = data.replace(old, new)
        log.append(f"rewrite {rel}: {rw['old']!r} -> {rw['new']!r}")
    return data


class Scratch:
    def __init__(self, group_name, group=None):
        self.name = group_name
        self.group = group or load_groups()[group_name]
        self.root = os.path.join(CACHE, group_name)
        self.src = os.path.join(self.root, "src")
        self.target = os.path.join(self.root, "target")
        self.hdir = os.path.join(self.src, "__verif")
        self.lockf = None
        self.notes = []

    # -- locking: concurrent checks of the same group serialise ------------
    def lock(self):
        os.makedirs(self.root, exist_ok=True)
        self.lockf = open(os.path.join(self.root, ".lock"), "w")
        fcntl.flock(self.lockf, fcntl.LOCK_EX)

    def unlock(self):
        if self.lockf:
            fcntl.flock(self.lockf, fcntl.LOCK_UN)
            self.lockf.close()
            self.lockf = None

    def sync(self):
        """Bring the scratch copy in line with /repo's working tree + overlays."""
        g = self.group
        overlays = {}
        for ov in g.get("overlays", []):
            overlays.setdefault(ov["file"], []).append(ov)
        rewrites = g.get("rewrites", [])
        rw_files = {rw["file"] for rw in rewrites}
        for f in list(overlays) + list(rw_files):
            if not os.path.isfile(os.path.join(REPO, f)):
                raise Broken(f"anchor file {f} not found in {REPO}")
        wanted = set()
        changed = 0
        for dirpath, dirnames, filenames in os.walk(REPO):
            rel_dir = os.path.relpath(dirpath, REPO)
            if rel_dir == ".":
                rel_dir = ""
                dirnames[:] = [d for d in dirnames if d not in EXCLUDE_DIRS]
            else:
                dirnames[:] = [d for d in dirnames if d not in ("target", ".git")]
            for fn in filenames:
                rel = os.path.join(rel_dir, fn) if rel_dir else fn
                sp = os.path.join(dirpath, fn)
                dp = os.path.join(self.src, rel)
                wanted.add(rel)
                try:
                    st = os.lstat(sp)
                except FileNotFoundError:
                    continue
                if stat.S_ISLNK(st.st_mode):
                    tgt = os.readlink(sp)
                    if not (os.path.islink(dp) and os.readlink(dp) == tgt):
                        os.makedirs(os.path.dirname(dp), exist_ok=True)
                        if os.path.lexists(dp):
                            os.remove(dp)
                        os.symlink(tgt, dp)
                    continue
                if not stat.S_ISREG(st.st_mode):
                    continue
                if rel in overlays or rel in rw_files:
                    data = _read(sp)
                    data = apply_rewrites(rel, data, rewrites, self.notes)
                    if rel in overlays:
                        if not data.endswith(b"\n"):
                            data += b"\n"
                        for ov in overlays[rel]:
                            hp = os.path.join(self.hdir, ov["harness"])
                            data += (
                                f'#[cfg(kani)] #[path = "{hp}"] mod {ov["mod"]};\n'
                            ).encode()
                    if _write_if_changed(dp, data):
                        changed += 1
                    continue
                try:
                    dt = os.lstat(dp)
                    same = (
                        stat.S_ISREG(dt.st_mode)
                        and dt.st_size == st.st_size
                        and dt.st_mtime_ns == st.st_mtime_ns
                    )
                except FileNotFoundError:
                    same = False
                if not same:
                    os.makedirs(os.path.dirname(dp), exist_ok=True)
                    if os.path.lexists(dp):
                        os.remove(dp)
                    shutil.copy2(sp, dp)
                    changed += 1
        # harness files (and anything they include) are copied under src/__verif
        hsrc = os.path.join(VERIF, "harness")
        hwanted = set()
        for dirpath, dirnames, filenames in os.walk(hsrc):
            for fn in filenames:
                sp = os.path.join(dirpath, fn)
                rel = os.path.relpath(sp, VERIF)
                hwanted.add(rel)
                if _write_if_changed(os.path.join(self.hdir, rel), _read(sp)):
                    changed += 1
        # delete files that disappeared from /repo or /verif/harness
        for dirpath, dirnames, filenames in os.walk(self.src):
            rel_dir = os.path.relpath(dirpath, self.src)
            if rel_dir == "target" or rel_dir.startswith("target" + os.sep):
                dirnames[:] = []
                continue
            for fn in filenames:
                rel = os.path.normpath(os.path.join(rel_dir, fn))
                if rel.startswith("__verif" + os.sep):
                    if os.path.relpath(os.path.join(dirpath, fn), self.hdir) not in hwanted:
                        os.remove(os.path.join(dirpath, fn))
                elif rel not in wanted:
                    os.remove(os.path.join(dirpath, fn))
        return changed

    def repo_head(self):
        import subprocess

        try:
            h = subprocess.run(
                ["git", "-C", REPO, "rev-parse", "HEAD"], capture_output=True, text=True
            ).stdout.strip()
            d = subprocess.run(
                ["git", "-C", REPO, "status", "--porcelain", "--untracked-files=no"],
                capture_output=True,
                text=True,
            ).stdout.strip()
            return h + ("+dirty" if d else "")
        except Exception:
            return "unknown"


if __name__ == "__main__":
    s = Scratch(sys.argv[1])
    s.lock()
    print("changed files:", s.sync())
    print(s.src)
