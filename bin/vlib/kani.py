"""Run cargo-kani on a scratch group and parse its (regular-format) output."""
import json
import os
import re
import signal
import subprocess
import time

from .scratch import Broken, VERIF as VERIF_DIR

RE_CHECKING = re.compile(r"^(?:Thread (\d+): )?Checking harness (\S+?)\.\.\.\s*$")
RE_THREAD = re.compile(r"^Thread (\d+):\s*$")
RE_FAILED_TERSE = re.compile(r"^Failed Checks: (.*)$")
RE_CHECK_HDR = re.compile(r"^Check (\d+): (\S+)\s*$")
RE_SUMMARY = re.compile(r"^\s*\*\* (\d+) of (\d+) failed(?: \((.*)\))?")
RE_COVER = re.compile(r"^\s*\*\* (\d+) of (\d+) cover properties satisfied(?: \((.*)\))?")
RE_VERDICT = re.compile(r"^VERIFICATION:- (SUCCESSFUL|FAILED)(.*)$")
RE_TIME = re.compile(r"^Verification Time: ([0-9.]+)s")
RE_VARS = re.compile(r"^(\d+) variables, (\d+) clauses")
RE_SYMEX = re.compile(r"^Runtime Symex: ([0-9.]+)s")
RE_DEC = re.compile(r"^Runtime decision procedure: ([0-9.]+)s")
RE_VCC = re.compile(r"^Generated (\d+) VCC\(s\), (\d+) remaining after simplification")
RE_STUB = re.compile(r"^\s*- Stub: (.*)$")


def parse_log(text):
    """Return {short_harness_name: result dict} from a cargo-kani log."""
    results = {}
    cur = None
    by_thread = {}
    lines = text.splitlines()
    i = 0
    while i < len(lines):
        ln = lines[i]
        m = RE_CHECKING.match(ln)
        if m:
            full = m.group(2)
            cur = {
                "harness": full,
                "short": full.split("::")[-1],
                "verdict": None,
                "failed_checks": [],
                "unsat_covers": [],
                "sat_covers": [],
                "checks_total": None,
                "checks_failed": None,
                "unreachable": None,
                "covers_total": 0,
                "covers_sat": 0,
                "vars": 0,
                "clauses": 0,
                "symex_s": 0.0,
                "solver_s": 0.0,
                "vccs": None,
                "time_s": None,
                "stubs": [],
                "unwind_failed": False,
                "note": "",
            }
            results[cur["short"]] = cur
            if m.group(1) is not None:
                by_thread[m.group(1)] = cur
                cur = None
            i += 1
            continue
        m = RE_THREAD.match(ln)
        if m:
            cur = by_thread.get(m.group(1))
            i += 1
            continue
        if ln.startswith("Manual Harness Summary") or ln.startswith("Complete - "):
            cur = None
            i += 1
            continue
        if cur is None:
            i += 1
            continue
        m = RE_CHECK_HDR.match(ln)
        if m and i + 2 < len(lines):
            name = m.group(2)
            st = lines[i + 1].strip()
            desc = lines[i + 2].strip()
            loc = lines[i + 3].strip() if i + 3 < len(lines) else ""
            status = st.split("Status:")[-1].strip() if "Status:" in st else "?"
            d = desc.split("Description:", 1)[-1].strip().strip('"')
            lo = loc.split("Location:", 1)[-1].strip() if "Location:" in loc else ""
            if status == "FAILURE":
                cur["failed_checks"].append({"check": name, "desc": d, "loc": lo})
                if ".unwind." in name or "unwinding assertion" in d:
                    cur["unwind_failed"] = True
            elif status in ("UNSATISFIABLE", "UNREACHABLE") and ".cover." in name:
                cur["unsat_covers"].append({"check": name, "desc": d, "loc": lo, "status": status})
            elif status == "SATISFIED":
                cur["sat_covers"].append(d)
                cur.setdefault("_sat_keys", set()).add((d, lo))
            elif status == "UNDETERMINED":
                cur.setdefault("undetermined", 0)
                cur["undetermined"] += 1
            i += 3
            continue
        m = RE_FAILED_TERSE.match(ln)
        if m:
            loc = lines[i + 1].strip() if i + 1 < len(lines) and lines[i + 1].strip().startswith("File:") else ""
            d = m.group(1).strip()
            cur["failed_checks"].append({"check": "(terse)", "desc": d, "loc": loc})
            if "unwinding assertion" in d:
                cur["unwind_failed"] = True
        m = RE_SUMMARY.match(ln)
        if m:
            cur["checks_failed"] = int(m.group(1))
            cur["checks_total"] = int(m.group(2))
            cur["unreachable"] = m.group(3) or ""
        m = RE_COVER.match(ln)
        if m:
            cur["covers_sat"] = int(m.group(1))
            cur["covers_total"] = int(m.group(2))
        m = RE_VERDICT.match(ln)
        if m:
            cur["verdict"] = m.group(1)
            cur["note"] = m.group(2).strip()
        m = RE_TIME.match(ln)
        if m:
            cur["time_s"] = float(m.group(1))
        m = RE_VARS.match(ln)
        if m:
            cur["vars"] = max(cur["vars"], int(m.group(1)))
            cur["clauses"] = max(cur["clauses"], int(m.group(2)))
        m = RE_SYMEX.match(ln)
        if m:
            cur["symex_s"] += float(m.group(1))
        m = RE_DEC.match(ln)
        if m:
            cur["solver_s"] += float(m.group(1))
        m = RE_VCC.match(ln)
        if m:
            cur["vccs"] = [int(m.group(1)), int(m.group(2))]
        m = RE_STUB.match(ln)
        if m:
            cur["stubs"].append(m.group(1).strip())
        if "CBMC failed" in ln or "CBMC timed out" in ln or "Status: ERROR" in ln or "out of memory" in ln.lower():
            cur["note"] += " " + ln.strip()
        i += 1
    for r in results.values():
        # `cover!(a && b)` compiles to two cover checks at one location; the witness is reachable
        # when any of them is SATISFIED.
        keys = r.pop("_sat_keys", set())
        if r["unsat_covers"]:
            r["unsat_covers"] = [c for c in r["unsat_covers"] if (c["desc"], c["loc"]) not in keys]
            if not r["unsat_covers"] and r["covers_total"]:
                r["covers_total"] = r["covers_sat"]
    return results


def _kill_fat_cbmc(pgid, cap_kb, lf):
    try:
        out = subprocess.run(["ps", "-eo", "pid,pgid,rss,comm"], capture_output=True, text=True).stdout
    except Exception:  # noqa: BLE001
        return
    avail_kb = 1 << 40
    try:
        for ln in open("/proc/meminfo"):
            if ln.startswith("MemAvailable:"):
                avail_kb = int(ln.split()[1])
    except OSError:
        pass
    mine = []
    for ln in out.splitlines()[1:]:
        f = ln.split()
        if len(f) < 4:
            continue
        pid, pg, rss, comm = int(f[0]), int(f[1]), int(f[2]), f[3]
        if pg == pgid and comm.startswith("cbmc"):
            mine.append((rss, pid))
    fat = max(mine) if mine else None
    for rss, pid in mine:
        low_mem = avail_kb < 3 * 1024 * 1024 and fat and pid == fat[1] and rss > 4 * 1024 * 1024
        if rss > cap_kb or low_mem:
            try:
                os.kill(pid, signal.SIGKILL)
                lf.write(f"\n[vcheck watchdog] killed cbmc pid {pid}: RSS {rss // 1024} MB (cap {cap_kb // 1024} MB, "
                         f"system available {avail_kb // 1024} MB); out of memory\n")
                lf.flush()
            except ProcessLookupError:
                pass


def qualify(scratch, name):
    """crate-relative module path of a harness fn: <anchor module>::<overlay mod>::<fn>."""
    import re as _re
    for ov in scratch.group.get("overlays", []):
        hp = os.path.join(VERIF_DIR, ov["harness"])
        try:
            src = open(hp).read()
        except OSError:
            continue
        if not _re.search(r"fn\s+" + _re.escape(name) + r"\s*\(", src):
            continue
        f = ov["file"]
        m = _re.search(r"/src/(.*)\.rs$", f)
        if not m:
            return None
        parts = m.group(1).split("/")
        if parts[-1] in ("mod", "lib", "main"):
            parts = parts[:-1]
        return "::".join(parts + [ov["mod"], name])
    return None


def resolve_loop_bounds(scratch, harnesses, loop_specs, log_path):
    """Per-loop unwind bounds for named functions.  CBMC identifies a loop by the *mangled* name of
    its function (which embeds a crate hash that depends on the build path), so the name is looked
    up at run time: `cargo kani --only-codegen` for the same harness selection (the build is reused
    by the real run), then the harness' pretty_name_map.json gives the mangled symbols.  A spec is
    {"fn_contains": [substr, ...], "loop": k, "unwind": n}; it must match exactly one function.
    Returns the value for `--unwindset` ("name.k:n,...")."""
    import glob
    g = scratch.group
    cmd = ["cargo", "kani", "-p", g["package"]]
    if g.get("no_default_features"):
        cmd.append("--no-default-features")
    if g.get("features"):
        cmd += ["--features", ",".join(g["features"])]
    quals = [qualify(scratch, h) for h in harnesses]
    if not all(quals):
        raise Broken("loop bounds need qualified harness names")
    for q in quals:
        cmd += ["--harness", q]
    cmd += ["--exact", "--only-codegen", "-Z", "unstable-options"]
    for z in g.get("zflags", []):
        cmd += ["-Z", z]
    t0 = time.time()
    with open(log_path, "w") as lf:
        lf.write("$ " + " ".join(cmd) + "\n")
        lf.flush()
        rc = subprocess.call(cmd, cwd=scratch.src, env=kani_env(scratch), stdout=lf, stderr=subprocess.STDOUT)
    if rc != 0:
        return None, " ".join(cmd)
    out = []
    for h in harnesses:
        maps = [m for m in glob.glob(os.path.join(scratch.target, "kani", "*", "debug", "build", "*", "*", "out",
                                                  "*" + h + ".pretty_name_map.json"))
                if os.path.getmtime(m) >= t0 - 1]
        if not maps:
            maps = sorted(glob.glob(os.path.join(scratch.target, "kani", "*", "debug", "build", "*", "*", "out",
                                                 "*" + h + ".pretty_name_map.json")), key=os.path.getmtime)[-1:]
        if not maps:
            raise Broken(f"no pretty_name_map for {h}")
        names = json.load(open(maps[0]))
        for ls in loop_specs:
            cands = sorted({k for k in names if "::" not in k and all(sub in k for sub in ls["fn_contains"])})
            if len(cands) != 1:
                raise Broken(f"loop bound {ls}: {len(cands)} functions match in {h}")
            item = f"{cands[0]}.{ls['loop']}:{ls['unwind']}"
            if item not in out:
                out.append(item)
    return ",".join(out), " ".join(cmd)


def kani_env(scratch):
    env = dict(os.environ)
    env["CARGO_NET_OFFLINE"] = "true"
    env["CARGO_TARGET_DIR"] = scratch.target
    env.pop("RUSTUP_TOOLCHAIN", None)
    env.pop("RUSTFLAGS", None)
    return env


def run_kani(scratch, harnesses, log_path, *, jobs=1, timeout_s=3600, harness_timeout_s=None,
             extra_args=(), mem_kb=None, playback=False):
    """Run `cargo kani` for the given harness names inside scratch.src. Returns (results, raw_rc, wall)."""
    g = scratch.group
    cmd = ["cargo", "kani", "-p", g["package"]]
    if g.get("no_default_features"):
        cmd.append("--no-default-features")
    if g.get("features"):
        cmd += ["--features", ",".join(g["features"])]
    zflags = set(g.get("zflags", []))
    # `--harness X` is a substring match; always pass fully qualified names with --exact.
    quals = [qualify(scratch, h) for h in harnesses]
    if all(quals):
        for q in quals:
            cmd += ["--harness", q]
        cmd.append("--exact")
    else:
        for h in harnesses:
            cmd += ["--harness", h]
    if jobs and jobs > 1 and len(harnesses) > 1:
        cmd += ["-j", str(min(jobs, len(harnesses))), "--output-format", "terse"]
    if harness_timeout_s:
        zflags.add("unstable-options")
        cmd += ["--harness-timeout", f"{int(harness_timeout_s)}s"]
    if playback:
        zflags.add("concrete-playback")
        cmd += ["--concrete-playback=print"]
    cmd += list(g.get("kani_args", []))
    cmd += list(extra_args)
    for a in list(g.get("kani_args", [])) + list(extra_args):
        if a == "--cbmc-args" or a.startswith("--cbmc-args") or a.startswith("--no-"):
            zflags.add("unstable-options")
    for z in sorted(zflags):
        cmd += ["-Z", z]
    cmd = [c for c in cmd if c]
    # --cbmc-args must come last; move it
    if "--cbmc-args" in cmd:
        k = cmd.index("--cbmc-args")
        tail = []
        j = k + 1
        while j < len(cmd) and not (cmd[j] == "-Z"):
            tail.append(cmd[j])
            j += 1
        rest = cmd[:k] + cmd[j:]
        cmd = rest + ["--cbmc-args"] + tail
    env = kani_env(scratch)
    t0 = time.time()
    pre = None
    if mem_kb:
        def pre():
            import resource
            resource.setrlimit(resource.RLIMIT_AS, (mem_kb * 1024, mem_kb * 1024))
    with open(log_path, "w") as lf:
        lf.write("$ " + " ".join(cmd) + "\n")
        lf.flush()
        p = subprocess.Popen(cmd, cwd=scratch.src, env=env, stdout=lf, stderr=subprocess.STDOUT,
                             start_new_session=True)
        # watchdog: no swap on this box, a runaway cbmc takes the machine down.  Any cbmc in our
        # process group above the RSS cap is killed; Kani then reports "CBMC failed" (-> exit 2).
        cap_kb = int(os.environ.get("VERIF_CBMC_RSS_GB", "14")) * 1024 * 1024
        deadline = time.time() + timeout_s
        rc = None
        while True:
            try:
                rc = p.wait(timeout=3)
                break
            except subprocess.TimeoutExpired:
                pass
            _kill_fat_cbmc(p.pid, cap_kb, lf)
            if time.time() > deadline:
                try:
                    os.killpg(p.pid, signal.SIGKILL)
                except ProcessLookupError:
                    pass
                p.wait()
                rc = -9
                break
    wall = time.time() - t0
    with open(log_path, errors="replace") as f:
        text = f.read()
    res = parse_log(text)
    compile_error = ("error: could not compile" in text) or ("error[E" in text)
    return res, rc, wall, " ".join(cmd), compile_error, text
