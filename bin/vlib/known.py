"""Known findings (/verif/known_findings.txt, committed, never written at run time).

known: property=<id> harness=<regex> match=<regex> :: <what fails>
    suppresses a failing CBMC check of <id> whose harness name matches and whose
    "check | description | location" string matches <regex>; it is keyed by the
    failing call site, so any other failure of the same property still reports.
fixed: property=<id> <commit> <what failed>
    documentation only; suppresses nothing.
"""
import os
import re

from .scratch import VERIF

_cache = None


def entries():
    global _cache
    if _cache is not None:
        return _cache
    out = []
    p = os.path.join(VERIF, "known_findings.txt")
    if os.path.exists(p):
        for ln in open(p):
            ln = ln.strip()
            if not ln.startswith("known:"):
                continue
            m = re.match(r"known:\s+property=(\S+)\s+harness=(\S+)\s+match=(.*?)\s+::\s+(.*)$", ln)
            if m:
                out.append({"pid": m.group(1), "harness": m.group(2), "match": m.group(3), "what": m.group(4)})
    _cache = out
    return out


def match(pid, harness, failed):
    s = f"{failed.get('check','')} | {failed.get('desc','')} | {failed.get('loc','')}"
    for e in entries():
        if e["pid"] != pid:
            continue
        if not re.search(e["harness"], harness):
            continue
        if re.search(e["match"], s):
            return e["what"]
    return None
