// Fixed-capacity stand-in for the `Vec<Location>` inside `TraversalQueue` (group `runtime_vq` only).
//
// WHY: every `Vec::push` whose length CBMC cannot fold adds a reallocation candidate to the
// pointer value set of the queue's buffer; the graph searches built on the queue (get_location,
// is_ancestor, PeerCache::add_command) then run out of memory (measured: 6-14 GB on 3-4 segment
// graphs).  The queue's own logic is decided separately on the REAL Vec (C21); here the queue is
// infrastructure for the searches, so the container is replaced by an array + length with the
// same positional semantics.  Exceeding the capacity panics (a failed check, never silent).
#![allow(dead_code)]
use core::ops::{Deref, DerefMut};

pub const FCAP: usize = 8;

#[derive(Debug)]
pub struct FVec<T: Copy> {
    buf: [Option<T>; FCAP],
    len: usize,
}

impl<T: Copy> Default for FVec<T> {
    fn default() -> Self {
        Self::new()
    }
}

pub struct FSlice<T: Copy>([T; FCAP]);

impl<T: Copy> FVec<T> {
    pub const fn new() -> Self {
        Self { buf: [None; FCAP], len: 0 }
    }
    pub fn clear(&mut self) {
        self.len = 0;
    }
    pub fn len(&self) -> usize {
        self.len
    }
    pub fn is_empty(&self) -> bool {
        self.len == 0
    }
    pub fn push(&mut self, v: T) {
        if self.len >= FCAP {
            panic!("harness FVec capacity exceeded (outside the stated bound)");
        }
        self.buf[self.len] = Some(v);
        self.len += 1;
    }
    pub fn swap(&mut self, a: usize, b: usize) {
        assert!(a < self.len && b < self.len);
        self.buf.swap(a, b);
    }
    pub fn swap_remove(&mut self, i: usize) -> T {
        assert!(i < self.len);
        let last = self.len - 1;
        let v = self.get_copy(i);
        self.buf[i] = self.buf[last];
        self.len = last;
        v
    }
    fn get_copy(&self, i: usize) -> T {
        match self.buf[i] {
            Some(v) => v,
            None => panic!("FVec slot below len is empty"),
        }
    }
    pub fn iter(&self) -> FIter<'_, T> {
        FIter { v: self, pos: 0 }
    }
}

impl<T: Copy> core::ops::Index<usize> for FVec<T> {
    type Output = T;
    fn index(&self, i: usize) -> &T {
        assert!(i < self.len);
        match &self.buf[i] {
            Some(v) => v,
            None => panic!("FVec slot below len is empty"),
        }
    }
}
impl<T: Copy> core::ops::IndexMut<usize> for FVec<T> {
    fn index_mut(&mut self, i: usize) -> &mut T {
        assert!(i < self.len);
        match &mut self.buf[i] {
            Some(v) => v,
            None => panic!("FVec slot below len is empty"),
        }
    }
}

pub struct FIter<'a, T: Copy> {
    v: &'a FVec<T>,
    pos: usize,
}
impl<'a, T: Copy> Iterator for FIter<'a, T> {
    type Item = &'a T;
    fn next(&mut self) -> Option<&'a T> {
        if self.pos >= self.v.len {
            return None;
        }
        let r = &self.v[self.pos];
        self.pos += 1;
        Some(r)
    }
}
