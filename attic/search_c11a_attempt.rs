// C11(a) — Storage::{is_ancestor, get_location, get_location_from} (default methods) +
// search_queued + Segment::{get_by_address, previous} over the harness storage VStore, on a
// concrete 5-segment graph with a merge (LCA skip entry) and an unmerged side branch; the QUERY is
// symbolic and the answer is compared with reachability in the reference DAG.
// Child module of aranya_runtime::storage.  Group runtime_vq (TraversalQueue's Vec replaced by a
// fixed-capacity array: the queue itself is decided on the real Vec under C21).
use super::*;
use crate::{LocatedAddress, Prior};

#[path = "vstore.rs"]
mod vstore;
use vstore::*;

const N: usize = 8;

/// commands c0..c7 ; ids 20+k
///  seg0: c0(mc0) c1(mc1)            prior None
///  seg1: c2(mc2) c3(mc3)            prior Single(seg0@1)
///  seg2: c4(mc2)                    prior Single(seg0@1)
///  seg3: c5(mc4, merge c3,c4) c6(mc5)  prior Merge(seg1@3, seg2@2), skip [seg0@1]
///  seg4: c7(mc3)                    prior Single(seg2@2)
fn graph(extra_skip: bool) -> (VStore, RefDag) {
    let mut st = VStore::new();
    let mut dag = RefDag::new();
    let s0 = st.add_seg(Prior::None, 0, 2) as usize;
    let s1 = st.add_seg(Prior::Single(loc(0, 1)), 2, 2) as usize;
    let s2 = st.add_seg(Prior::Single(loc(0, 1)), 2, 1) as usize;
    let s3 = st.add_seg(Prior::Merge(loc(1, 3), loc(2, 2)), 4, 2) as usize;
    let s4 = st.add_seg(Prior::Single(loc(2, 2)), 3, 1) as usize;
    st.segs[s0].ids = [20, 21, 0];
    st.segs[s1].ids = [22, 23, 0];
    st.segs[s2].ids = [24, 0, 0];
    st.segs[s3].ids = [25, 26, 0];
    st.segs[s3].prios[0] = VPrio::MERGE;
    st.segs[s3].skip[0] = loc(0, 1);
    st.segs[s3].nskip = 1;
    st.segs[s4].ids = [27, 0, 0];
    if extra_skip {
        // a valid extra skip entry on a linear segment: seg1 may jump to seg0@0 (an ancestor)
        st.segs[s1].skip[0] = loc(0, 0);
        st.segs[s1].nskip = 1;
    }
    dag.add(NONE, NONE, loc(0, 0)); // c0
    dag.add(0, NONE, loc(0, 1)); // c1
    dag.add(1, NONE, loc(1, 2)); // c2
    dag.add(2, NONE, loc(1, 3)); // c3
    dag.add(1, NONE, loc(2, 2)); // c4
    dag.add(3, 4, loc(3, 4)); // c5 merge
    dag.add(5, NONE, loc(3, 5)); // c6
    dag.add(4, NONE, loc(4, 3)); // c7
    let mut h = HeadSet::default();
    h.push(LocatedAddress { id: cmd_id(26), segment: SegmentIndex::new(3), max_cut: MaxCut::new(5) });
    h.push(LocatedAddress { id: cmd_id(27), segment: SegmentIndex::new(4), max_cut: MaxCut::new(3) });
    st.heads = h;
    (st, dag)
}

fn any_cmd() -> usize {
    let k: usize = kani::any();
    kani::assume(k < N);
    k
}

#[kani::proof]
#[kani::unwind(10)]
fn c11a_is_ancestor_exact() {
    let extra: bool = kani::any();
    let (st, dag) = graph(extra);
    let anc = dag.ancestors();
    let a = any_cmd();
    let b = any_cmd();
    let mut tb = TraversalBuffer::new();
    let r = match st.is_ancestor(dag.loc[a], dag.loc[b], &mut tb) {
        Ok(r) => r,
        Err(_) => panic!("is_ancestor failed"),
    };
    // true exactly for proper ancestors
    assert!(r == anc[b][a]);
    kani::cover!((a == 4) & (b == 6), "ancestor through the right parent of a merge");
    kani::cover!((a == 3) & (b == 7), "not an ancestor across branches");
    kani::cover!((a == 0) & (b == 6) & extra, "ancestor below the LCA skip");
}

#[kani::proof]
#[kani::unwind(10)]
fn c11a_get_location_exact() {
    let extra: bool = kani::any();
    let (st, dag) = graph(extra);
    let k = any_cmd();
    let known: bool = kani::any();
    let right_cut: bool = kani::any();
    let id = if known { 20 + k as u8 } else { 99 };
    let mc = if right_cut { dag.loc[k].max_cut.get() } else { dag.loc[k].max_cut.get() + 1 };
    let address = crate::Address { id: cmd_id(id), max_cut: MaxCut::new(mc) };
    let mut tb = TraversalBuffer::new();
    let r = match st.get_location(address, &mut tb) {
        Ok(r) => r,
        Err(_) => panic!("get_location failed"),
    };
    // every command of this graph is reachable from the heads {c6, c7}
    if known & right_cut {
        assert!(r == Some(dag.loc[k]));
    } else {
        assert!(r.is_none());
    }
    kani::cover!(known & right_cut & (k == 2), "found inside a segment below a merge");
    kani::cover!(known & !right_cut, "right id, wrong max cut: not found");
}

#[kani::proof]
#[kani::unwind(10)]
fn c11a_get_location_from_exact() {
    let extra: bool = kani::any();
    let (st, dag) = graph(extra);
    let anc = dag.ancestors();
    let k = any_cmd();
    let from = any_cmd();
    let address = crate::Address { id: cmd_id(20 + k as u8), max_cut: dag.loc[k].max_cut };
    let mut tb = TraversalBuffer::new();
    let r = match st.get_location_from(dag.loc[from], address, &mut tb) {
        Ok(r) => r,
        Err(_) => panic!("get_location_from failed"),
    };
    // found exactly when the command is the start or one of its ancestors
    let reachable = (k == from) | anc[from][k];
    if reachable {
        assert!(r == Some(dag.loc[k]));
    } else {
        assert!(r.is_none());
    }
    kani::cover!(reachable & (from == 6) & (k == 4), "found through a merge's right parent");
    kani::cover!(!reachable & (from == 7) & (k == 2), "other branch: not found");
}
