// C02 / C03 / C05 — braid level.  Child module of aranya_runtime::client::braiding.
//
// The real `last_common_ancestor`, `braid`, `ConvergenceMap`, `StrandHeap`, `BraidResult`,
// `BraidIter`, `TraversalQueue` run over the harness storage `VStore` on a CONCRETE graph
// skeleton; command ids, priorities and finalize flags are symbolic.  Oracles are computed on
// the reference DAG (`RefDag`), never from the storage layout.
use super::*;
use crate::{BraidBuffer, MaxCut, Prior};

#[path = "vstore.rs"]
mod vstore;
use vstore::*;

pub struct Sk {
    pub st: VStore,
    pub dag: RefDag,
    pub ids: [u8; NCMD],
    pub prio: [VPrio; NCMD],
    pub seg_of: [usize; NCMD],
}

/// Skeleton entry: (parent1, parent2 or NONE, start_new_segment).
pub type Desc = (usize, usize, bool);

fn make_spill() -> Result<VSpill, StorageError> {
    Ok(VSpill::new())
}

/// Build store + reference DAG for a concrete skeleton with symbolic ids / priorities.
pub fn build(desc: &[Desc]) -> Sk {
    let mut sk = Sk {
        st: VStore::new(),
        dag: RefDag::new(),
        ids: [0; NCMD],
        prio: [VPrio::basic(0); NCMD],
        seg_of: [0; NCMD],
    };
    let mut mc = [0u64; NCMD];
    let n = desc.len();
    let mut i = 0;
    while i < n {
        let (p1, p2, newseg) = desc[i];
        // symbolic identity and priority
        let id: u8 = kani::any();
        let mut j = 0;
        while j < i {
            kani::assume(sk.ids[j] != id);
            j += 1;
        }
        sk.ids[i] = id;
        sk.prio[i] = if p1 == NONE {
            VPrio::INIT
        } else if p2 != NONE {
            VPrio::MERGE
        } else {
            let fin: bool = kani::any();
            if fin {
                VPrio::FINALIZE
            } else {
                let n: u8 = kani::any();
                kani::assume(n < 3);
                VPrio::basic(n)
            }
        };
        mc[i] = if p1 == NONE {
            0
        } else if p2 == NONE {
            mc[p1] + 1
        } else {
            (if mc[p1] > mc[p2] { mc[p1] } else { mc[p2] }) + 1
        };
        if p1 == NONE || newseg || p2 != NONE {
            let prior = if p1 == NONE {
                Prior::None
            } else if p2 == NONE {
                Prior::Single(sk.dag.loc[p1])
            } else {
                Prior::Merge(sk.dag.loc[p1], sk.dag.loc[p2])
            };
            let lca = if p2 != NONE {
                // the real code records the LCA computed by `last_common_ancestor` in the merge
                // segment's skip list (new_merge_perspective); do the same here.
                match last_common_ancestor(&mut sk.st, &[sk.dag.loc[p1], sk.dag.loc[p2]]) {
                    Ok(l) => Some(l),
                    Err(_) => panic!("lca failed while building skeleton"),
                }
            } else {
                None
            };
            let s = sk.st.add_seg(prior, mc[i], 1) as usize;
            sk.st.segs[s].ids[0] = id;
            sk.st.segs[s].prios[0] = sk.prio[i];
            if let Some(l) = lca {
                sk.st.segs[s].skip[0] = l;
                sk.st.segs[s].nskip = 1;
            }
            sk.seg_of[i] = s;
        } else {
            let s = sk.seg_of[p1];
            let k = sk.st.segs[s].len as usize;
            // p1 must be the current tail of its segment
            assert!(sk.st.segs[s].first_mc as u64 + k as u64 == mc[i]);
            sk.st.segs[s].ids[k] = id;
            sk.st.segs[s].prios[k] = sk.prio[i];
            sk.st.segs[s].len = k as u8 + 1;
            sk.seg_of[i] = s;
        }
        let l = loc(sk.seg_of[i] as u64, mc[i]);
        sk.dag.add(p1, p2, l);
        i += 1;
    }
    sk
}

fn key_lt(sk: &Sk, a: usize, b: usize) -> bool {
    let ka = sk.prio[a].key();
    let kb = sk.prio[b].key();
    if ka != kb {
        ka < kb
    } else {
        sk.ids[a] < sk.ids[b]
    }
}

/// Storage-free reference braid (from the property statement): inside D = anc*(heads), keep the
/// set of tips (all children in D already taken); repeatedly take the tip with the SMALLEST
/// (priority, id) — it goes LAST in application order — until one tip remains: that is the base.
/// Returns (order of taking, count, base).  Merge commands are taken but not recorded.
fn reference(sk: &Sk, heads: &[usize], anc: &[[bool; NCMD]; NCMD]) -> ([usize; NCMD], usize, usize) {
    let n = sk.dag.n;
    let mut in_d = [false; NCMD];
    let mut h = 0;
    while h < heads.len() {
        in_d[heads[h]] = true;
        let mut j = 0;
        while j < n {
            if anc[heads[h]][j] {
                in_d[j] = true;
            }
            j += 1;
        }
        h += 1;
    }
    let mut taken = [false; NCMD];
    let mut out = [NONE; NCMD];
    let mut cnt = 0;
    let mut round = 0;
    while round < n {
        // tips: in D, not taken, every child in D taken
        let mut best = NONE;
        let mut ntips = 0;
        let mut c = 0;
        while c < n {
            if in_d[c] && !taken[c] {
                let mut is_tip = true;
                let mut ch = 0;
                while ch < n {
                    if in_d[ch] && !taken[ch] && (sk.dag.p1[ch] == c || sk.dag.p2[ch] == c) {
                        is_tip = false;
                    }
                    ch += 1;
                }
                if is_tip {
                    ntips += 1;
                    if best == NONE || key_lt(sk, c, best) {
                        best = c;
                    }
                }
            }
            c += 1;
        }
        if ntips == 1 {
            return (out, cnt, best);
        }
        taken[best] = true;
        if !sk.dag.is_merge[best] {
            out[cnt] = best;
            cnt += 1;
        }
        round += 1;
    }
    (out, cnt, NONE)
}

/// Two finalize commands in D, neither an ancestor of the other.
fn parallel_finalize(sk: &Sk, heads: &[usize], anc: &[[bool; NCMD]; NCMD]) -> bool {
    let n = sk.dag.n;
    let mut a = 0;
    let mut found = false;
    while a < n {
        let mut b = a + 1;
        while b < n {
            if sk.prio[a].kind == 2 && sk.prio[b].kind == 2 && !anc[a][b] && !anc[b][a] {
                // both in D?
                let mut ia = false;
                let mut ib = false;
                let mut h = 0;
                while h < heads.len() {
                    if heads[h] == a || anc[heads[h]][a] {
                        ia = true;
                    }
                    if heads[h] == b || anc[heads[h]][b] {
                        ib = true;
                    }
                    h += 1;
                }
                if ia && ib {
                    found = true;
                }
            }
            b += 1;
        }
        a += 1;
    }
    found
}

/// The stored graph is valid: no merge command already has two incomparable finalize ancestors
/// (such a merge could never have been written: C05 itself).
fn assume_stored_graph_valid(sk: &Sk, anc: &[[bool; NCMD]; NCMD]) {
    let n = sk.dag.n;
    let mut m = 0;
    while m < n {
        if sk.dag.is_merge[m] {
            let mut a = 0;
            while a < n {
                let mut b = a + 1;
                while b < n {
                    if anc[m][a] && anc[m][b] && sk.prio[a].kind == 2 && sk.prio[b].kind == 2 {
                        kani::assume(anc[a][b] || anc[b][a]);
                    }
                    b += 1;
                }
                a += 1;
            }
        }
        m += 1;
    }
}

pub struct Outcome {
    pub err_parallel: bool,
    pub yielded: [usize; NCMD], // command numbers in APPLICATION order, [0] = base
    pub n: usize,
    pub spilled_braid: bool,
    pub spilled_conv: bool,
}

/// Reserve capacity in the reusable buffers BEFORE the symbolic part, through the public API
/// (push concrete dummies, then the real code's own `get()` clears them and keeps the capacity).
/// Without this every `Vec`/`BinaryHeap` growth happens under symbolic control flow and CBMC's
/// pointer value sets explode (measured: >12 min symex for a 3-command fork).
pub fn warm_up(st: &mut VStore, traversal: &mut TraversalBuffer, bb: &mut BraidBuffer<VSeg>) {
    {
        let q = traversal.get();
        // unrolled by hand: independent of the harness unwind bound
        let _ = q.push(loc(100, 0));
        let _ = q.push(loc(101, 1));
        let _ = q.push(loc(102, 2));
        let _ = q.push(loc(103, 3));
        let _ = q.push(loc(104, 4));
        let _ = q.push(loc(105, 5));
        let _ = q.push(loc(106, 6));
        let _ = q.push(loc(107, 7));
        let _ = q.push(loc(108, 8));
    }
    let _ = traversal.get();
    // (the strand heap is the fixed-capacity stand-in of group runtime-braid: nothing to reserve)
    let _ = (st, bb);
}

fn warm_strand(st: &mut VStore, bb: &mut BraidBuffer<VSeg>) {
    match strand_heap::Strand::new(st, loc(0, 0), None) {
        Ok(s) => {
            let _ = bb.strands.push(s);
        }
        Err(_) => panic!("warm-up strand"),
    }
}

/// Run the real lca + braid + iterator.
fn run_braid(sk: &mut Sk, heads: &[usize]) -> Outcome {
    let mut hl = [loc(0, 0); 4];
    let mut i = 0;
    while i < heads.len() {
        hl[i] = sk.dag.loc[heads[i]];
        i += 1;
    }
    let hs = &hl[..heads.len()];
    let lca = match last_common_ancestor(&mut sk.st, hs) {
        Ok(l) => l,
        Err(_) => panic!("last_common_ancestor failed"),
    };
    let mut traversal = TraversalBuffer::new();
    let mut bb: BraidBuffer<VSeg> = BraidBuffer::new();
    warm_up(&mut sk.st, &mut traversal, &mut bb);
    let r = braid::<VStore, VSpill, _>(&mut sk.st, hs, lca, &mut traversal, &mut bb, &make_spill);
    let mut out = Outcome {
        err_parallel: false,
        yielded: [NONE; NCMD],
        n: 0,
        spilled_braid: false,
        spilled_conv: false,
    };
    match r {
        Err(ClientError::ParallelFinalize) => {
            out.err_parallel = true;
        }
        Err(_) => panic!("braid failed with an error other than ParallelFinalize"),
        Ok(mut res) => {
            out.spilled_braid = res.spill_len > 0;
            let mut it = match res.iter() {
                Ok(it) => it,
                Err(_) => panic!("iter failed"),
            };
            let mut k = 0;
            while k < NCMD + 1 {
                match it.next() {
                    None => break,
                    Some(Ok(l)) => {
                        let c = sk.dag.find(l);
                        assert!(c != NONE, "braid yielded a location that holds no command");
                        assert!(out.n < NCMD);
                        out.yielded[out.n] = c;
                        out.n += 1;
                    }
                    Some(Err(_)) => panic!("braid iterator failed"),
                }
                k += 1;
            }
            core::mem::forget(it);
            core::mem::forget(res);
        }
    }
    core::mem::forget(bb);
    core::mem::forget(traversal);
    out
}

/// All oracles for one skeleton + head set.
pub fn check(desc: &[Desc], heads: &[usize]) {
    let mut sk = build(desc);
    let anc = sk.dag.ancestors();
    assume_stored_graph_valid(&sk, &anc);
    let expect_err = parallel_finalize(&sk, heads, &anc);
    let (ref_order, ref_cnt, ref_base) = reference(&sk, heads, &anc);
    let o = run_braid(&mut sk, heads);

    // C05: error iff two incomparable finalize commands are being merged
    assert!(o.err_parallel == expect_err);
    kani::cover!(o.err_parallel, "parallel finalize detected");
    if o.err_parallel {
        return;
    }
    let n = sk.dag.n;
    assert!(o.n >= 1);
    let base = o.yielded[0];

    // C02: exactly once, ancestors first, never a merge
    let mut c = 0;
    while c < n {
        let mut times = 0;
        let mut k = 1;
        while k < o.n {
            if o.yielded[k] == c {
                times += 1;
            }
            k += 1;
        }
        let mut in_d = false;
        let mut h = 0;
        while h < heads.len() {
            if heads[h] == c || anc[heads[h]][c] {
                in_d = true;
            }
            h += 1;
        }
        let below_base = c == base || anc[base][c];
        let expected = if in_d && !below_base && !sk.dag.is_merge[c] { 1 } else { 0 };
        assert!(times == expected);
        c += 1;
    }
    let mut a = 1;
    while a < o.n {
        let mut b = a + 1;
        while b < o.n {
            // a is applied before b: b must not be an ancestor of a
            assert!(!anc[o.yielded[a]][o.yielded[b]]);
            b += 1;
        }
        a += 1;
    }
    // every yielded command descends from nothing outside the base's history or the yielded set
    // (ancestors applied first): each ancestor of a yielded command is below the base or yielded earlier
    // -- implied by the two assertions above together.

    // C03: equals the storage-free reference braid
    assert!(ref_base != NONE);
    assert!(base == ref_base);
    assert!(o.n == ref_cnt + 1);
    let mut k = 0;
    while k < ref_cnt {
        // reference order is order of taking; application order is its reverse
        assert!(o.yielded[1 + k] == ref_order[ref_cnt - 1 - k]);
        k += 1;
    }
    kani::cover!(o.n >= 3, "at least two commands replayed on the base");
    kani::cover!(o.spilled_braid, "braid result spilled");
}

// ---- skeletons --------------------------------------------------------------------------------

const I: Desc = (NONE, NONE, true);

/// init; a<-init; b<-init; heads {a,b}
#[kani::proof]
#[kani::unwind(5)]
fn braid_fork_2() {
    check(&[I, (0, NONE, true), (0, NONE, true)], &[1, 2]);
}

/// init,x in one segment; a1,a2 chain; b off x; heads {a2,b}
#[kani::proof]
#[kani::unwind(7)]
fn braid_fork_chain() {
    check(
        &[I, (0, NONE, false), (1, NONE, true), (2, NONE, false), (1, NONE, true)],
        &[3, 4],
    );
}

// ---- cost bisection probes (not registered in any spec) ----
#[kani::proof]
#[kani::unwind(5)]
fn probe_build_only() {
    let sk = build(&[I, (0, NONE, true), (0, NONE, true)]);
    assert!(sk.dag.n == 3);
}

#[kani::proof]
#[kani::unwind(5)]
fn probe_build_braid() {
    let mut sk = build(&[I, (0, NONE, true), (0, NONE, true)]);
    let o = run_braid(&mut sk, &[1, 2]);
    assert!(o.err_parallel || o.n == 2);
}

#[kani::proof]
#[kani::unwind(5)]
fn probe_build_reference() {
    let sk = build(&[I, (0, NONE, true), (0, NONE, true)]);
    let anc = sk.dag.ancestors();
    let (_o, cnt, base) = reference(&sk, &[1, 2], &anc);
    assert!(cnt == 1 && base != NONE);
}
