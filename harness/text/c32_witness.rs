// C32 — concrete non-ASCII witnesses through every identifier path.
//
// Child module of aranya_policy_text::repr. The symbolic harnesses cover all Unicode
// input, but a validator that consults core's Unicode tables makes them time out instead
// of failing. This harness feeds a handful of CONCRETE non-ASCII strings (letters and
// numerals outside ASCII), selected by one symbolic index, through every way an
// identifier can be produced and requires all of them to be rejected; the same strings
// must be accepted as Text (they contain no NUL). With concrete characters every table
// lookup constant-folds, so a Unicode-aware validator fails here quickly with an
// assertion (the unwind bound is generous for the table searches).
extern crate alloc;

use alloc::string::String;
use core::{fmt, str::FromStr};

use rkyv::{
    bytecheck::Verify,
    rancor::{Failure, Strategy},
};
use serde::{
    Deserialize,
    de::{self, Visitor},
    forward_to_deserialize_any,
};

use crate::{Identifier, Text, ident::ArchivedIdentifier, text::ArchivedText};

#[derive(Clone, Copy, PartialEq, Eq)]
struct WErr;
impl fmt::Debug for WErr {
    fn fmt(&self, _: &mut fmt::Formatter<'_>) -> fmt::Result {
        Ok(())
    }
}
impl fmt::Display for WErr {
    fn fmt(&self, _: &mut fmt::Formatter<'_>) -> fmt::Result {
        Ok(())
    }
}
impl core::error::Error for WErr {}
impl de::Error for WErr {
    fn custom<T: fmt::Display>(_: T) -> Self {
        WErr
    }
    fn invalid_value(_: de::Unexpected<'_>, _: &dyn de::Expected) -> Self {
        WErr
    }
    fn invalid_type(_: de::Unexpected<'_>, _: &dyn de::Expected) -> Self {
        WErr
    }
}

/// Pass-through format: hands the visitor the string as `visit_str` or `visit_string`.
struct WDe<'de> {
    owned: bool,
    text: &'de str,
}
impl<'de> de::Deserializer<'de> for WDe<'de> {
    type Error = WErr;
    fn deserialize_any<V: Visitor<'de>>(self, v: V) -> Result<V::Value, WErr> {
        if self.owned {
            let mut s = String::with_capacity(8);
            s.push_str(self.text);
            v.visit_string(s)
        } else {
            v.visit_str(self.text)
        }
    }
    forward_to_deserialize_any! {
        bool i8 i16 i32 i64 i128 u8 u16 u32 u64 u128 f32 f64 char str string
        bytes byte_buf option unit unit_struct newtype_struct seq tuple
        tuple_struct map struct enum identifier ignored_any
    }
}

#[repr(C, align(16))]
struct Aligned8([u8; 8]);

/// rkyv's inline archived string for a text of <= 8 bytes: the bytes, then 0xff padding.
fn inline_archive(s: &str) -> Aligned8 {
    let b = s.as_bytes();
    assert!(b.len() <= 8);
    let mut a = Aligned8([0xff; 8]);
    let mut i = 0;
    while i < b.len() {
        a.0[i] = b[i];
        i += 1;
    }
    a
}

/// Every identifier path must reject `s`; every text path must accept it.
fn witness(s: &str) {
    // --- Identifier: all constructors / decoders reject ---
    assert!(
        Identifier::from_str(s).is_err(),
        "FromStr accepted a non-ASCII identifier"
    );
    let mut owned = String::with_capacity(8);
    owned.push_str(s);
    assert!(
        Identifier::try_from(owned).is_err(),
        "TryFrom<String> accepted a non-ASCII identifier"
    );
    let as_text = match Text::from_str(s) {
        Ok(t) => t,
        Err(_) => panic!("valid text rejected"),
    };
    assert!(as_text.as_str().len() == s.len());
    assert!(
        Identifier::try_from(as_text).is_err(),
        "TryFrom<Text> accepted a non-ASCII identifier"
    );
    assert!(
        Identifier::deserialize(WDe {
            owned: false,
            text: s
        })
        .is_err(),
        "serde visit_str accepted a non-ASCII identifier"
    );
    assert!(
        Identifier::deserialize(WDe { owned: true, text: s }).is_err(),
        "serde visit_string accepted a non-ASCII identifier"
    );
    let a = inline_archive(s);
    let mut unit = ();
    {
        // SAFETY: `a` is a well-formed inline ArchivedString over valid UTF-8 (a &str).
        let ar: &ArchivedIdentifier = unsafe { rkyv::access_unchecked::<ArchivedIdentifier>(&a.0) };
        assert!(ar.as_str().len() == s.len());
        let ctx: &mut Strategy<(), Failure> = Strategy::wrap(&mut unit);
        assert!(
            Verify::verify(ar, ctx).is_err(),
            "rkyv Verify accepted a non-ASCII identifier"
        );
    }

    // --- Text: the same strings are fine (no NUL) ---
    assert!(
        Text::deserialize(WDe {
            owned: false,
            text: s
        })
        .is_ok()
    );
    assert!(Text::deserialize(WDe { owned: true, text: s }).is_ok());
    {
        // SAFETY: as above.
        let ar: &ArchivedText = unsafe { rkyv::access_unchecked::<ArchivedText>(&a.0) };
        let ctx: &mut Strategy<(), Failure> = Strategy::wrap(&mut unit);
        assert!(Verify::verify(ar, ctx).is_ok());
    }
}

#[kani::proof]
#[kani::unwind(1200)]
fn c32_ident_non_ascii_witnesses() {
    let idx: u8 = kani::any();
    kani::assume(idx < 5);
    match idx {
        0 => witness("é"),
        1 => witness("名"),
        2 => witness("x²"),
        3 => witness("a٣"),
        _ => witness("α_1"),
    }
    kani::cover!(idx == 0, "Latin-1 letter");
    kani::cover!(idx == 1, "CJK letter");
    kani::cover!(idx == 2, "superscript digit in tail");
    kani::cover!(idx == 3, "Arabic-Indic digit in tail");
    kani::cover!(idx == 4, "Greek letter first");
}
