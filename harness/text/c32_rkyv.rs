// C32 — archive access / deserialization of Text and Identifier (rkyv + bytecheck).
//
// Child module of aranya_policy_text::repr. The real validated entry point
// `rkyv::api::low::access` (the crate is built without rkyv's `alloc` feature, so the
// "low" API is the one available; it runs the same derived `CheckBytes` + the crate's
// `bytecheck::Verify` impls as the "high" API) is run on a symbolic, suitably aligned
// buffer. Whatever it accepts must satisfy the invariants, both as the archived view
// and after `deserialize`.
use rkyv::{api::low, rancor::Failure};

use crate::{Identifier, Text, ident::ArchivedIdentifier, text::ArchivedText};

#[repr(C, align(16))]
struct Aligned<const K: usize>([u8; K]);

fn no_nul(b: &[u8]) -> bool {
    let mut i = 0;
    while i < b.len() {
        if b[i] == 0 {
            return false;
        }
        i += 1;
    }
    true
}
fn alpha(b: u8) -> bool {
    ((b >= 0x41) & (b <= 0x5a)) | ((b >= 0x61) & (b <= 0x7a))
}
fn tail(b: u8) -> bool {
    alpha(b) | ((b >= 0x30) & (b <= 0x39)) | (b == 0x5f)
}
fn ident(b: &[u8]) -> bool {
    if b.len() == 0 {
        return false;
    }
    if !alpha(b[0]) {
        return false;
    }
    let mut i = 1;
    while i < b.len() {
        if !tail(b[i]) {
            return false;
        }
        i += 1;
    }
    true
}
fn same(a: &[u8], b: &[u8]) -> bool {
    if a.len() != b.len() {
        return false;
    }
    let mut i = 0;
    while i < a.len() {
        if a[i] != b[i] {
            return false;
        }
        i += 1;
    }
    true
}

/// rkyv's inline string form: 8 bytes, the text ends at the first 0xff (or fills all 8).
fn inline_len(b: &[u8; 8]) -> usize {
    let mut i = 0;
    while i < 8 {
        if b[i] == 0xff {
            return i;
        }
        i += 1;
    }
    8
}
fn all_ascii(b: &[u8]) -> bool {
    let mut i = 0;
    while i < b.len() {
        if b[i] >= 0x80 {
            return false;
        }
        i += 1;
    }
    true
}

/// An 8-byte archive (= one inline ArchivedString) with every byte symbolic; the text
/// part is limited to `maxtxt` bytes (bytes from maxtxt on are 0xff) to bound the cost
/// of the UTF-8 validation that is part of the real path (2 in the quick tier, 3 and 4 in
/// the thorough tier).
fn any_inline_archive(maxtxt: usize) -> Aligned<8> {
    let mut a = Aligned::<8>([0xff; 8]);
    let mut i = 0;
    while i < maxtxt {
        a.0[i] = kani::any();
        i += 1;
    }
    a
}

fn text_inline_case(maxtxt: usize) {
    let a = any_inline_archive(maxtxt);
    let n = inline_len(&a.0);
    let inline = (a.0[0] & 0xc0) != 0x80;
    match low::access::<ArchivedText, Failure>(&a.0) {
        Ok(ar) => {
            let s = ar.as_str().as_bytes();
            assert!(no_nul(s));
            assert!(inline);
            assert!(same(s, &a.0[..n]));
            match low::deserialize::<Text, Failure>(ar) {
                Ok(t) => {
                    assert!(same(t.as_str().as_bytes(), s));
                    assert!(no_nul(t.as_str().as_bytes()));
                }
                Err(_) => panic!("deserialize of a validated archive failed"),
            }
            kani::cover!(n == maxtxt, "longest text accepted");
            kani::cover!(n == 0, "empty text accepted");
            kani::cover!((n == 2) & (a.0[0] >= 0xc2), "2-byte char accepted");
        }
        Err(_) => {
            // ASCII without NUL is never rejected.
            assert!(!(all_ascii(&a.0[..n]) & no_nul(&a.0[..n])));
            kani::cover!(all_ascii(&a.0[..n]) & (n == 2), "ASCII with NUL rejected");
            kani::cover!(!inline, "out-of-line marker with short length rejected");
        }
    }
}

#[kani::proof]
#[kani::unwind(10)]
fn c32_rkyv_text_inline2() {
    text_inline_case(2);
}

#[kani::proof]
#[kani::unwind(10)]
fn c32_rkyv_text_inline3() {
    text_inline_case(3);
}

#[kani::proof]
#[kani::unwind(10)]
fn c32_rkyv_text_inline4() {
    text_inline_case(4);
}

fn ident_inline_case(maxtxt: usize) {
    let a = any_inline_archive(maxtxt);
    let n = inline_len(&a.0);
    match low::access::<ArchivedIdentifier, Failure>(&a.0) {
        Ok(ar) => {
            let s = ar.as_str().as_bytes();
            assert!(ident(s));
            assert!(same(s, &a.0[..n]));
            let id: Identifier = ar.deserialize();
            assert!(same(id.as_str().as_bytes(), s));
            match low::deserialize::<Identifier, Failure>(ar) {
                Ok(id2) => {
                    assert!(id2 == id);
                }
                Err(_) => panic!("deserialize of a validated archive failed"),
            }
            kani::cover!(n == maxtxt, "longest identifier accepted");
        }
        Err(_) => {
            assert!(!ident(&a.0[..n]));
            kani::cover!(n == 0, "empty rejected");
            kani::cover!((n == 2) & (a.0[0] == b'a') & (a.0[1] == 0), "NUL rejected");
            kani::cover!((n == 1) & (a.0[0] == b'_'), "leading underscore rejected");
            kani::cover!(
                (n == 2) & (a.0[0] >= 0xc2) & (a.0[0] < 0xe0) & ((a.0[1] & 0xc0) == 0x80),
                "non-ASCII char rejected"
            );
        }
    }
}

#[kani::proof]
#[kani::unwind(10)]
fn c32_rkyv_ident_inline2() {
    ident_inline_case(2);
}

#[kani::proof]
#[kani::unwind(10)]
fn c32_rkyv_ident_inline3() {
    ident_inline_case(3);
}

#[kani::proof]
#[kani::unwind(10)]
fn c32_rkyv_ident_inline4() {
    ident_inline_case(4);
}

/// Out-of-line form: 16 bytes of string area followed by the 8-byte root
/// `{ len: u32 (with the 0b10 marker in bits 6..8 of the first byte), offset: i32 }`.
/// The root is well formed and points at the start of the area (length 9 through the
/// full `access` path; 9 and 16 for the direct `Verify` harnesses at the end); the string
/// area is 'k' except 3 symbolic bytes (positions 0, 1, 2), which take all 256 values.
/// (A fully symbolic root exercises rkyv's pointer validation rather than this crate's
/// `Verify` impls and did not finish in 7 minutes; `access` on 16 bytes spent > 8 minutes
/// in symbolic execution of core's SIMD `is_ascii`.)
fn any_out_of_line_archive(len: usize) -> (Aligned<24>, [u8; 3], usize) {
    let mut a = Aligned::<24>([b'k'; 24]);
    let x: [u8; 3] = kani::any();
    a.0[0] = x[0];
    a.0[1] = x[1];
    a.0[2] = x[2];
    // len with the out-of-line marker: (l & 0x3f) | 0x80 | ((l & !0x3f) << 2)
    a.0[16] = (len as u8 & 0x3f) | 0x80;
    a.0[17] = 0;
    a.0[18] = 0;
    a.0[19] = 0;
    // offset = -16 (root at byte 16, text at byte 0), little endian i32
    a.0[20] = 0xf0;
    a.0[21] = 0xff;
    a.0[22] = 0xff;
    a.0[23] = 0xff;
    (a, x, len)
}

fn text_out_of_line_case(len: usize) {
    let (a, x, len) = any_out_of_line_archive(len);
    match low::access::<ArchivedText, Failure>(&a.0) {
        Ok(ar) => {
            let s = ar.as_str().as_bytes();
            assert!(no_nul(s));
            assert!(same(s, &a.0[..len]));
            match low::deserialize::<Text, Failure>(ar) {
                Ok(t) => {
                    assert!(same(t.as_str().as_bytes(), s));
                }
                Err(_) => panic!("deserialize of a validated archive failed"),
            }
            kani::cover!(x[0] >= 0xc2, "out-of-line text with a multi-byte char accepted");
            kani::cover!(all_ascii(&x), "ASCII out-of-line text accepted");
        }
        Err(_) => {
            // ASCII text without NUL is never rejected
            assert!(!(all_ascii(&x) & no_nul(&x)));
            kani::cover!((x[1] == 0) & all_ascii(&x), "NUL in out-of-line text rejected");
            kani::cover!(x[2] == 0x80, "ill-formed UTF-8 rejected");
        }
    }
}

#[kani::proof]
#[kani::unwind(19)]
fn c32_rkyv_text_out_of_line9() {
    text_out_of_line_case(9);
}

fn ident_out_of_line_case(len: usize) {
    let (a, x, len) = any_out_of_line_archive(len);
    let want = alpha(x[0]) & tail(x[1]) & tail(x[2]);
    match low::access::<ArchivedIdentifier, Failure>(&a.0) {
        Ok(ar) => {
            let s = ar.as_str().as_bytes();
            assert!(want);
            assert!(ident(s));
            assert!(same(s, &a.0[..len]));
            let id: Identifier = ar.deserialize();
            assert!(same(id.as_str().as_bytes(), s));
            kani::cover!(x[2] == b'_', "out-of-line identifier accepted");
        }
        Err(_) => {
            assert!(!want);
            kani::cover!(x[0] == b'1', "leading digit rejected");
            kani::cover!(x[2] == 0, "NUL rejected");
            kani::cover!(x[1] == b'-', "bad tail rejected");
        }
    }
}

#[kani::proof]
#[kani::unwind(19)]
fn c32_rkyv_ident_out_of_line9() {
    ident_out_of_line_case(9);
}

// ---------------------------------------------------------------------------
// The crate's own `bytecheck::Verify` impls on out-of-line (heap-sized) strings
// ---------------------------------------------------------------------------
//
// `access` on an out-of-line string spends its time in bytecheck's / core's
// word-at-a-time `is_ascii` + UTF-8 validation (external code; symbolic execution alone
// took > 8 minutes for 16 bytes). The derived `CheckBytes` runs those field checks
// first and then calls this crate's `Verify::verify`; the harnesses below call exactly
// that second step on a well-formed out-of-line archive whose text is ASCII (so the
// skipped field check would have passed), for every value of 3 symbolic text bytes.
// The wiring "field checks, then verify" is exercised end to end by the inline and
// out_of_line9 harnesses above.
use rkyv::{bytecheck::Verify, rancor::Strategy};

fn any_ascii_out_of_line(len: usize) -> (Aligned<24>, [u8; 3]) {
    let (a, x, _) = any_out_of_line_archive(len);
    kani::assume(all_ascii(&x));
    (a, x)
}

fn verify_text_case(len: usize) {
    let (a, x) = any_ascii_out_of_line(len);
    // SAFETY: the buffer holds a well-formed ArchivedString root (see
    // any_out_of_line_archive) over ASCII text, i.e. what `access` would have validated.
    let ar: &ArchivedText = unsafe { rkyv::access_unchecked::<ArchivedText>(&a.0) };
    assert!(same(ar.as_str().as_bytes(), &a.0[..len]));
    let mut unit = ();
    let ctx: &mut Strategy<(), Failure> = Strategy::wrap(&mut unit);
    match Verify::verify(ar, ctx) {
        Ok(()) => {
            assert!(no_nul(&x));
            assert!(no_nul(ar.as_str().as_bytes()));
            kani::cover!(x[1] == b' ', "text accepted");
        }
        Err(_) => {
            assert!(!no_nul(&x));
            kani::cover!((x[2] == 0) & (x[0] != 0), "NUL rejected");
        }
    }
}

fn verify_ident_case(len: usize) {
    let (a, x) = any_ascii_out_of_line(len);
    // SAFETY: as in verify_text_case.
    let ar: &ArchivedIdentifier = unsafe { rkyv::access_unchecked::<ArchivedIdentifier>(&a.0) };
    assert!(same(ar.as_str().as_bytes(), &a.0[..len]));
    let want = alpha(x[0]) & tail(x[1]) & tail(x[2]);
    let mut unit = ();
    let ctx: &mut Strategy<(), Failure> = Strategy::wrap(&mut unit);
    match Verify::verify(ar, ctx) {
        Ok(()) => {
            assert!(want);
            assert!(ident(ar.as_str().as_bytes()));
            let id: Identifier = ar.deserialize();
            assert!(same(id.as_str().as_bytes(), &a.0[..len]));
            kani::cover!(x[2] == b'_', "identifier accepted");
        }
        Err(_) => {
            assert!(!want);
            kani::cover!(x[0] == b'1', "leading digit rejected");
            kani::cover!(x[2] == 0, "NUL rejected");
            kani::cover!(x[1] == b'-', "bad tail rejected");
        }
    }
}

/// `<ArchivedText as Verify>::verify` on out-of-line strings of 9 and 16 bytes.
#[kani::proof]
#[kani::unwind(19)]
fn c32_rkyv_verify_text_heap_sized() {
    verify_text_case(9);
    verify_text_case(16);
}

/// `<ArchivedIdentifier as Verify>::verify` on out-of-line strings of 9 and 16 bytes.
#[kani::proof]
#[kani::unwind(19)]
fn c32_rkyv_verify_ident_heap_sized() {
    verify_ident_case(9);
    verify_ident_case(16);
}
