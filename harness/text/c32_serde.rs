// C32 — serde `Deserialize` of Text / Identifier, format-independent part.
//
// Child module of aranya_policy_text::repr. A minimal Deserializer hands the value's
// visitor a string in each of the ways a real format may (borrowed str, transient str,
// owned String), or something that is not a string at all. Whatever
// `Text::deserialize` / `Identifier::deserialize` accept must satisfy the invariants.
// (The same impls driven by the real postcard format: c32_postcard.rs.)
extern crate alloc;

use alloc::string::String;
use core::fmt;

use serde::{
    Deserialize,
    de::{self, Visitor},
    forward_to_deserialize_any,
};

use crate::{Identifier, Text};

#[derive(Clone, Copy, PartialEq, Eq)]
enum HErr {
    Custom,
    InvalidValue,
    InvalidType,
}
impl fmt::Debug for HErr {
    fn fmt(&self, _: &mut fmt::Formatter<'_>) -> fmt::Result {
        Ok(())
    }
}
impl fmt::Display for HErr {
    fn fmt(&self, _: &mut fmt::Formatter<'_>) -> fmt::Result {
        Ok(())
    }
}
impl core::error::Error for HErr {}
impl de::Error for HErr {
    fn custom<T: fmt::Display>(_: T) -> Self {
        HErr::Custom
    }
    fn invalid_value(_: de::Unexpected<'_>, _: &dyn de::Expected) -> Self {
        HErr::InvalidValue
    }
    fn invalid_type(_: de::Unexpected<'_>, _: &dyn de::Expected) -> Self {
        HErr::InvalidType
    }
}

#[derive(Clone, Copy, PartialEq, Eq, kani::Arbitrary)]
enum Mode {
    Borrowed,
    Transient,
    Owned,
    NotAString,
}

struct De<'de> {
    mode: Mode,
    text: &'de str,
}

impl<'de> de::Deserializer<'de> for De<'de> {
    type Error = HErr;
    fn deserialize_any<V: Visitor<'de>>(self, v: V) -> Result<V::Value, HErr> {
        match self.mode {
            Mode::Borrowed => v.visit_borrowed_str(self.text),
            Mode::Transient => v.visit_str(self.text),
            Mode::Owned => {
                let mut s = String::with_capacity(4);
                s.push_str(self.text);
                v.visit_string(s)
            }
            Mode::NotAString => v.visit_u8(65),
        }
    }
    forward_to_deserialize_any! {
        bool i8 i16 i32 i64 i128 u8 u16 u32 u64 u128 f32 f64 char str string
        bytes byte_buf option unit unit_struct newtype_struct seq tuple
        tuple_struct map struct enum identifier ignored_any
    }
}

fn no_nul(b: &[u8]) -> bool {
    let mut i = 0;
    while i < b.len() {
        if b[i] == 0 {
            return false;
        }
        i += 1;
    }
    true
}
fn alpha(b: u8) -> bool {
    ((b >= 0x41) & (b <= 0x5a)) | ((b >= 0x61) & (b <= 0x7a))
}
fn tail(b: u8) -> bool {
    alpha(b) | ((b >= 0x30) & (b <= 0x39)) | (b == 0x5f)
}
fn ident(b: &[u8]) -> bool {
    if b.len() == 0 {
        return false;
    }
    if !alpha(b[0]) {
        return false;
    }
    let mut i = 1;
    while i < b.len() {
        if !tail(b[i]) {
            return false;
        }
        i += 1;
    }
    true
}
fn same(a: &[u8], b: &[u8]) -> bool {
    if a.len() != b.len() {
        return false;
    }
    let mut i = 0;
    while i < a.len() {
        if a[i] != b[i] {
            return false;
        }
        i += 1;
    }
    true
}

const MAXLEN: usize = 3;

fn any_ascii3() -> [u8; MAXLEN] {
    let mut raw = [0u8; MAXLEN];
    let mut i = 0;
    while i < MAXLEN {
        let b: u8 = kani::any();
        kani::assume(b < 0x80);
        raw[i] = b;
        i += 1;
    }
    raw
}

/// The visitor entry points are split over two harnesses to keep each one small.
fn any_mode(owned: bool) -> Mode {
    let mode: Mode = kani::any();
    kani::assume((mode == Mode::Owned) == owned);
    mode
}

fn text_case(len: usize, ob: bool) {
    let raw = any_ascii3();
    let body = &raw[..len];
    // SAFETY: ASCII assumed in any_ascii3.
    let text = unsafe { core::str::from_utf8_unchecked(body) };
    let mode = any_mode(ob);
    match Text::deserialize(De { mode, text }) {
        Ok(t) => {
            assert!(mode != Mode::NotAString);
            assert!(no_nul(body));
            assert!(same(t.as_str().as_bytes(), body));
            kani::cover!(
                ((mode == Mode::Borrowed) | (mode == Mode::Owned)) & (len >= 2),
                "borrowed / owned accepted"
            );
            kani::cover!(
                ((mode == Mode::Transient) | (mode == Mode::Owned)) & (len >= 1),
                "transient / owned accepted"
            );
        }
        Err(e) => {
            if mode == Mode::NotAString {
                assert!(e == HErr::InvalidType);
            } else {
                assert!(!no_nul(body));
                assert!(e == HErr::InvalidValue);
            }
            kani::cover!(
                ((mode == Mode::Transient) | (mode == Mode::Owned)) & (len >= 2),
                "transient / owned with NUL rejected"
            );
            kani::cover!(
                (mode == Mode::NotAString) | (mode == Mode::Owned),
                "non-string / owned rejected"
            );
        }
    }
}

/// serde -> Text for ASCII strings of 0..=2 bytes (3 in the _len3 variants); visitor entry points
/// visit_borrowed_str / visit_str / a non-string value.
#[kani::proof]
#[kani::unwind(6)]
fn c32_serde_text_str_paths() {
    let mut len = 0;
    while len <= 2 {
        text_case(len, false);
        len += 1;
    }
}

/// Same, strings of exactly 3 bytes.
#[kani::proof]
#[kani::unwind(6)]
fn c32_serde_text_str_paths_len3() {
    text_case(3, false);
}

/// serde -> Text for ASCII strings of 0..=2 bytes (3 in the _len3 variants); visitor entry points
/// visit_string (owned String).
#[kani::proof]
#[kani::unwind(6)]
fn c32_serde_text_owned_path() {
    let mut len = 0;
    while len <= 2 {
        text_case(len, true);
        len += 1;
    }
}

/// Same, strings of exactly 3 bytes.
#[kani::proof]
#[kani::unwind(6)]
fn c32_serde_text_owned_path_len3() {
    text_case(3, true);
}

fn ident_case(len: usize, ob: bool) {
    let raw = any_ascii3();
    let body = &raw[..len];
    // SAFETY: ASCII assumed in any_ascii3.
    let text = unsafe { core::str::from_utf8_unchecked(body) };
    let mode = any_mode(ob);
    match Identifier::deserialize(De { mode, text }) {
        Ok(id) => {
            assert!(mode != Mode::NotAString);
            assert!(ident(body));
            assert!(same(id.as_str().as_bytes(), body));
            kani::cover!(
                ((mode == Mode::Transient) | (mode == Mode::Owned)) & (len >= 2),
                "transient / owned accepted"
            );
            kani::cover!(
                ((mode == Mode::Borrowed) | (mode == Mode::Owned)) & (len >= 2),
                "borrowed / owned accepted"
            );
        }
        Err(e) => {
            if mode == Mode::NotAString {
                assert!(e == HErr::InvalidType);
            } else {
                assert!(!ident(body));
                assert!(e == HErr::InvalidValue);
            }
            kani::cover!(
                ((mode == Mode::Owned) | (mode == Mode::Transient)) & (len <= 3),
                "rejected"
            );
            kani::cover!(
                ((mode == Mode::Borrowed) | (mode == Mode::Owned)) & (len >= 2) & (raw[0] == b'9'),
                "leading digit rejected"
            );
        }
    }
}

/// serde -> Identifier, entry points visit_borrowed_str / visit_str / a non-string value.
#[kani::proof]
#[kani::unwind(6)]
fn c32_serde_ident_str_paths() {
    let mut len = 0;
    while len <= 2 {
        ident_case(len, false);
        len += 1;
    }
}

/// Same, strings of exactly 3 bytes.
#[kani::proof]
#[kani::unwind(6)]
fn c32_serde_ident_str_paths_len3() {
    ident_case(3, false);
}

/// serde -> Identifier, entry points visit_string (owned String).
#[kani::proof]
#[kani::unwind(6)]
fn c32_serde_ident_owned_path() {
    let mut len = 0;
    while len <= 2 {
        ident_case(len, true);
        len += 1;
    }
}

/// Same, strings of exactly 3 bytes.
#[kani::proof]
#[kani::unwind(6)]
fn c32_serde_ident_owned_path_len3() {
    ident_case(3, true);
}
