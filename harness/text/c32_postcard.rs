// C32 — serde decoders of Text / Identifier, driven by the real postcard format.
//
// Appended to aranya-runtime's lib.rs only because aranya-runtime is the nearest crate
// that depends on postcard (a dev-dependency elsewhere); only the public API of
// aranya-policy-text (re-exported through aranya-policy-vm) is used.
//
// Wire form of a postcard string: varint length, then the bytes. The length byte is
// concrete per case (a symbolic length would make the `String` allocation symbolic),
// the content bytes are fully symbolic (all 256 values: UTF-8 validation is part of
// the real decoding path here).
use core::str::FromStr;

use aranya_policy_vm::{Identifier, Text};

fn no_nul(b: &[u8]) -> bool {
    let mut i = 0;
    while i < b.len() {
        if b[i] == 0 {
            return false;
        }
        i += 1;
    }
    true
}
fn ascii(b: &[u8]) -> bool {
    let mut i = 0;
    while i < b.len() {
        if b[i] >= 0x80 {
            return false;
        }
        i += 1;
    }
    true
}
fn alpha(b: u8) -> bool {
    ((b >= 0x41) & (b <= 0x5a)) | ((b >= 0x61) & (b <= 0x7a))
}
fn tail(b: u8) -> bool {
    alpha(b) | ((b >= 0x30) & (b <= 0x39)) | (b == 0x5f)
}
fn ident(b: &[u8]) -> bool {
    if b.len() == 0 {
        return false;
    }
    if !alpha(b[0]) {
        return false;
    }
    let mut i = 1;
    while i < b.len() {
        if !tail(b[i]) {
            return false;
        }
        i += 1;
    }
    true
}
fn same(a: &[u8], b: &[u8]) -> bool {
    if a.len() != b.len() {
        return false;
    }
    let mut i = 0;
    while i < a.len() {
        if a[i] != b[i] {
            return false;
        }
        i += 1;
    }
    true
}

const MAXLEN: usize = 3;

fn wire(len: usize) -> [u8; MAXLEN + 1] {
    let mut buf = [0u8; MAXLEN + 1];
    buf[0] = len as u8;
    let mut i = 1;
    while i <= MAXLEN {
        buf[i] = kani::any();
        i += 1;
    }
    buf
}

fn text_case(len: usize) {
    let buf = wire(len);
    let body = &buf[1..1 + len];
    let r: Result<Text, postcard::Error> = postcard::from_bytes(&buf[..1 + len]);
    match r {
        Ok(t) => {
            assert!(same(t.as_str().as_bytes(), body));
            assert!(no_nul(t.as_str().as_bytes()));
            kani::cover!(len >= 2, "decoded 2+ bytes");
            kani::cover!((len >= 2) & (buf[1] >= 0xc2), "decoded a multi-byte char");
        }
        Err(_) => {
            // rejected: a NUL, or not ASCII (possibly ill-formed UTF-8)
            assert!(!no_nul(body) | !ascii(body));
            kani::cover!((len >= 2) & ascii(body), "ASCII with NUL rejected");
            kani::cover!((len >= 1) & (buf[1] == 0x80), "ill-formed UTF-8 rejected");
        }
    }
}

/// postcard -> Text for every wire string of exactly 2 arbitrary bytes.
#[kani::proof]
#[kani::unwind(6)]
fn c32_postcard_text_decode_len2() {
    text_case(2);
}

/// postcard -> Text for every wire string of 0, 1 and 3 arbitrary bytes.
#[kani::proof]
#[kani::unwind(6)]
fn c32_postcard_text_decode_len013() {
    text_case(0);
    text_case(1);
    text_case(3);
}

fn ident_case(len: usize) {
    let buf = wire(len);
    let body = &buf[1..1 + len];
    let r: Result<Identifier, postcard::Error> = postcard::from_bytes(&buf[..1 + len]);
    match r {
        Ok(id) => {
            assert!(ident(body));
            assert!(same(id.as_str().as_bytes(), body));
            assert!(ident(id.as_str().as_bytes()));
            kani::cover!(len >= 2, "decoded 2+ bytes");
        }
        Err(_) => {
            assert!(!ident(body));
            kani::cover!((len >= 2) & (buf[1] == b'a') & (buf[2] == 0), "NUL tail rejected");
            kani::cover!(
                (len >= 2) & (buf[1] >= 0xc2) & (buf[2] >= 0x80) & (buf[2] < 0xc0),
                "non-ASCII rejected"
            );
            kani::cover!((len >= 1) & (buf[1] == b'_'), "leading underscore rejected");
        }
    }
}

/// postcard -> Identifier for every wire string of exactly 2 arbitrary bytes:
/// accepted exactly when the bytes match [a-zA-Z][a-zA-Z0-9_]*.
#[kani::proof]
#[kani::unwind(6)]
fn c32_postcard_ident_decode_len2() {
    ident_case(2);
}

/// postcard -> Identifier for every wire string of 0, 1 and 3 arbitrary bytes.
#[kani::proof]
#[kani::unwind(6)]
fn c32_postcard_ident_decode_len013() {
    ident_case(0);
    ident_case(1);
    ident_case(3);
}

/// What `Serialize` writes for a valid Text / Identifier is accepted by `Deserialize`
/// and gives an equal value (ASCII content of 2 bytes).
fn roundtrip_case(len: usize) {
    let mut raw = [0u8; MAXLEN];
    let mut i = 0;
    while i < MAXLEN {
        let b: u8 = kani::any();
        kani::assume(b < 0x80);
        raw[i] = b;
        i += 1;
    }
    // SAFETY: ASCII assumed above.
    let s = unsafe { core::str::from_utf8_unchecked(&raw[..len]) };
    if let Ok(t) = Text::from_str(s) {
        let mut out = [0u8; MAXLEN + 2];
        let n = match postcard::to_slice(&t, &mut out) {
            Ok(used) => used.len(),
            Err(_) => panic!("serialize failed"),
        };
        assert!(n == len + 1);
        assert!(out[0] as usize == len);
        let back: Result<Text, postcard::Error> = postcard::from_bytes(&out[..n]);
        match back {
            Ok(b) => {
                assert!(b == t);
            }
            Err(_) => panic!("Text did not survive postcard"),
        }
        kani::cover!(len == 2, "text round trip");
    }
    if let Ok(id) = Identifier::from_str(s) {
        let mut out = [0u8; MAXLEN + 2];
        let n = match postcard::to_slice(&id, &mut out) {
            Ok(used) => used.len(),
            Err(_) => panic!("serialize failed"),
        };
        let back: Result<Identifier, postcard::Error> = postcard::from_bytes(&out[..n]);
        match back {
            Ok(b) => {
                assert!(b == id);
            }
            Err(_) => panic!("Identifier did not survive postcard"),
        }
        kani::cover!(len == 2, "identifier round trip");
    }
}

#[kani::proof]
#[kani::unwind(6)]
fn c32_postcard_roundtrip() {
    roundtrip_case(2);
}
