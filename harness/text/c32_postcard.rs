// C32 — serde decoders of Text / Identifier, driven by the real postcard format.
//
// Appended to aranya-runtime's lib.rs only because aranya-runtime is the nearest crate
// that depends on postcard (a dev-dependency elsewhere); only the public API of
// aranya-policy-text (re-exported through aranya-policy-vm) is used.
//
// Wire form of a postcard string: varint length, then the bytes. The length byte is
// concrete per case (a symbolic length would make the `String` allocation symbolic),
// the content bytes are fully symbolic (all 256 values: UTF-8 validation is part of
// the real decoding path here).
use core::str::FromStr;

use aranya_policy_vm::{Identifier, Text};

fn no_nul(b: &[u8]) -> bool {
    let mut i = 0;
    while i < b.len() {
        if b[i] == 0 {
            return false;
        }
        i += 1;
    }
    true
}
fn ascii(b: &[u8]) -> bool {
    let mut i = 0;
    while i < b.len() {
        if b[i] >= 0x80 {
            return false;
        }
        i += 1;
    }
    true
}
fn alpha(b: u8) -> bool {
    ((b >= 0x41) & (b <= 0x5a)) | ((b >= 0x61) & (b <= 0x7a))
}
fn tail(b: u8) -> bool {
    alpha(b) | ((b >= 0x30) & (b <= 0x39)) | (b == 0x5f)
}
fn ident(b: &[u8]) -> bool {
    if b.len() == 0 {
        return false;
    }
    if !alpha(b[0]) {
        return false;
    }
    let mut i = 1;
    while i < b.len() {
        if !tail(b[i]) {
            return false;
        }
        i += 1;
    }
    true
}
fn same(a: &[u8], b: &[u8]) -> bool {
    if a.len() != b.len() {
        return false;
    }
    let mut i = 0;
    while i < a.len() {
        if a[i] != b[i] {
            return false;
        }
        i += 1;
    }
    true
}

const MAXLEN: usize = 3;

fn wire(len: usize) -> [u8; MAXLEN + 1] {
    let mut buf = [0u8; MAXLEN + 1];
    buf[0] = len as u8;
    let mut i = 1;
    while i <= MAXLEN {
        buf[i] = kani::any();
        i += 1;
    }
    buf
}

/// One decode of a wire string of `len` arbitrary bytes; returns (accepted, wire bytes).
fn text_case(len: usize) -> (bool, [u8; MAXLEN + 1]) {
    let buf = wire(len);
    let body = &buf[1..1 + len];
    let r: Result<Text, postcard::Error> = postcard::from_bytes(&buf[..1 + len]);
    match r {
        Ok(t) => {
            assert!(same(t.as_str().as_bytes(), body));
            assert!(no_nul(t.as_str().as_bytes()));
            (true, buf)
        }
        Err(_) => {
            // rejected: a NUL, or not ASCII (possibly ill-formed UTF-8)
            assert!(!no_nul(body) | !ascii(body));
            (false, buf)
        }
    }
}

/// postcard -> Text for every wire string of exactly 2 arbitrary bytes.
#[kani::proof]
#[kani::unwind(6)]
fn c32_postcard_text_decode_len2() {
    let (ok, b) = text_case(2);
    kani::cover!(ok & (b[1] >= 0xc2), "2-byte char decoded");
    kani::cover!(ok & (b[1] == b'h') & (b[2] == b'i'), "ASCII decoded");
    kani::cover!(!ok & (b[1] == b'h') & (b[2] == 0), "ASCII with NUL rejected");
    kani::cover!(!ok & (b[1] == 0x80), "ill-formed UTF-8 rejected");
}

/// postcard -> Text for every wire string of 0 and 1 arbitrary bytes.
#[kani::proof]
#[kani::unwind(6)]
fn c32_postcard_text_decode_len01() {
    let (ok0, _) = text_case(0);
    assert!(ok0);
    let (ok, b) = text_case(1);
    kani::cover!(ok & (b[1] == b'x'), "1 byte decoded");
    kani::cover!(!ok & (b[1] == 0), "single NUL rejected");
    kani::cover!(!ok & (b[1] == 0xff), "ill-formed UTF-8 rejected");
}

/// postcard -> Text for every wire string of exactly 3 arbitrary bytes.
#[kani::proof]
#[kani::unwind(6)]
fn c32_postcard_text_decode_len3() {
    let (ok, b) = text_case(3);
    kani::cover!(ok & (b[1] >= 0xe0), "3-byte char decoded");
    kani::cover!(
        !ok & (b[1] == b'a') & (b[2] == b'b') & (b[3] == 0),
        "NUL last rejected"
    );
}

fn ident_case(len: usize) -> (bool, [u8; MAXLEN + 1]) {
    let buf = wire(len);
    let body = &buf[1..1 + len];
    let r: Result<Identifier, postcard::Error> = postcard::from_bytes(&buf[..1 + len]);
    match r {
        Ok(id) => {
            assert!(ident(body));
            assert!(same(id.as_str().as_bytes(), body));
            assert!(ident(id.as_str().as_bytes()));
            (true, buf)
        }
        Err(_) => {
            assert!(!ident(body));
            (false, buf)
        }
    }
}

/// postcard -> Identifier for every wire string of exactly 2 arbitrary bytes:
/// accepted exactly when the bytes match [a-zA-Z][a-zA-Z0-9_]*.
#[kani::proof]
#[kani::unwind(6)]
fn c32_postcard_ident_decode_len2() {
    let (ok, b) = ident_case(2);
    kani::cover!(ok & (b[2] == b'_'), "identifier decoded");
    kani::cover!(!ok & (b[1] == b'a') & (b[2] == 0), "NUL tail rejected");
    kani::cover!(
        !ok & (b[1] >= 0xc2) & (b[2] >= 0x80) & (b[2] < 0xc0),
        "non-ASCII rejected"
    );
    kani::cover!(!ok & (b[1] == b'_'), "leading underscore rejected");
}

/// postcard -> Identifier for every wire string of 0 and 1 arbitrary bytes.
#[kani::proof]
#[kani::unwind(6)]
fn c32_postcard_ident_decode_len01() {
    let (ok0, _) = ident_case(0);
    assert!(!ok0);
    let (ok, b) = ident_case(1);
    kani::cover!(ok & (b[1] == b'Q'), "1-byte identifier decoded");
    kani::cover!(!ok & (b[1] == b'5'), "digit rejected");
}

/// postcard -> Identifier for every wire string of exactly 3 arbitrary bytes.
#[kani::proof]
#[kani::unwind(6)]
fn c32_postcard_ident_decode_len3() {
    let (ok, b) = ident_case(3);
    kani::cover!(ok & (b[2] == b'9') & (b[3] == b'_'), "identifier decoded");
    kani::cover!(!ok & (b[1] == b'a') & (b[3] == b'-'), "bad tail rejected");
}

/// What `Serialize` writes for a valid Text / Identifier is accepted by `Deserialize`
/// and gives an equal value (ASCII content of 2 bytes).
fn ascii2() -> [u8; 2] {
    let mut raw = [0u8; 2];
    let mut i = 0;
    while i < 2 {
        let b: u8 = kani::any();
        kani::assume(b < 0x80);
        raw[i] = b;
        i += 1;
    }
    raw
}

#[kani::proof]
#[kani::unwind(6)]
fn c32_postcard_text_roundtrip() {
    let raw = ascii2();
    // SAFETY: ASCII assumed above.
    let s = unsafe { core::str::from_utf8_unchecked(&raw[..]) };
    if let Ok(t) = Text::from_str(s) {
        let mut out = [0u8; 4];
        let n = match postcard::to_slice(&t, &mut out) {
            Ok(used) => used.len(),
            Err(_) => panic!("serialize failed"),
        };
        assert!(n == 3);
        assert!((out[0] == 2) & (out[1] == raw[0]) & (out[2] == raw[1]));
        let back: Result<Text, postcard::Error> = postcard::from_bytes(&out[..n]);
        match back {
            Ok(b) => {
                assert!(b == t);
            }
            Err(_) => panic!("Text did not survive postcard"),
        }
        kani::cover!(raw[1] == b' ', "text round trip");
    }
}

#[kani::proof]
#[kani::unwind(6)]
fn c32_postcard_ident_roundtrip() {
    let raw = ascii2();
    // SAFETY: ASCII assumed above.
    let s = unsafe { core::str::from_utf8_unchecked(&raw[..]) };
    if let Ok(id) = Identifier::from_str(s) {
        let mut out = [0u8; 4];
        let n = match postcard::to_slice(&id, &mut out) {
            Ok(used) => used.len(),
            Err(_) => panic!("serialize failed"),
        };
        assert!(n == 3);
        assert!((out[0] == 2) & (out[1] == raw[0]) & (out[2] == raw[1]));
        let back: Result<Identifier, postcard::Error> = postcard::from_bytes(&out[..n]);
        match back {
            Ok(b) => {
                assert!(b == id);
            }
            Err(_) => panic!("Identifier did not survive postcard"),
        }
        kani::cover!(raw[1] == b'_', "identifier round trip");
    }
}
