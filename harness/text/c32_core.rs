// C32 — Text and identifier values always satisfy their invariants.
//
// Child module of aranya_policy_text::repr (appended by the overlay), so it sees
// `Repr`, the private `arc::ArcStr`, and (crate-visible) `Text(pub(crate) Repr)`.
//
// Spec (written here from the doc comments, independent of the code under test):
//   Text:        utf-8 without NUL bytes.
//   Identifier:  non-empty, matches [a-zA-Z][a-zA-Z0-9_]*.
//   Eq/Ord/Hash: functions of the string content only.
extern crate alloc;

use alloc::string::String;
use core::{
    cmp::Ordering,
    ffi::CStr,
    hash::{Hash, Hasher},
    str::FromStr,
};

use super::{MAX_INLINE, Repr, arc::ArcStr};
use crate::{Identifier, Text};

// ---------------------------------------------------------------------------
// spec helpers
// ---------------------------------------------------------------------------

fn spec_no_nul(b: &[u8]) -> bool {
    let mut i = 0;
    while i < b.len() {
        if b[i] == 0 {
            return false;
        }
        i += 1;
    }
    true
}

fn spec_alpha(b: u8) -> bool {
    ((b >= 0x41) & (b <= 0x5a)) | ((b >= 0x61) & (b <= 0x7a))
}

fn spec_tail(b: u8) -> bool {
    spec_alpha(b) | ((b >= 0x30) & (b <= 0x39)) | (b == 0x5f)
}

fn spec_ident(b: &[u8]) -> bool {
    if b.len() == 0 {
        return false;
    }
    if !spec_alpha(b[0]) {
        return false;
    }
    let mut i = 1;
    while i < b.len() {
        if !spec_tail(b[i]) {
            return false;
        }
        i += 1;
    }
    true
}

fn same_bytes(a: &[u8], b: &[u8]) -> bool {
    if a.len() != b.len() {
        return false;
    }
    let mut i = 0;
    while i < a.len() {
        if a[i] != b[i] {
            return false;
        }
        i += 1;
    }
    true
}

/// Byte-lexicographic order (the order of `str`).
fn spec_cmp(a: &[u8], b: &[u8]) -> Ordering {
    let mut i = 0;
    while (i < a.len()) & (i < b.len()) {
        if a[i] < b[i] {
            return Ordering::Less;
        }
        if a[i] > b[i] {
            return Ordering::Greater;
        }
        i += 1;
    }
    if a.len() < b.len() {
        Ordering::Less
    } else if a.len() > b.len() {
        Ordering::Greater
    } else {
        Ordering::Equal
    }
}

// ---------------------------------------------------------------------------
// symbolic inputs
// ---------------------------------------------------------------------------

const N: usize = 5;

/// Symbolic ASCII bytes (0x00..=0x7f, NUL included). ASCII is assumed so that
/// `from_utf8_unchecked` is sound without running the UTF-8 validator.
fn any_ascii<const K: usize>() -> [u8; K] {
    let mut buf = [0u8; K];
    let mut i = 0;
    while i < K {
        let b: u8 = kani::any();
        kani::assume(b < 0x80);
        buf[i] = b;
        i += 1;
    }
    buf
}

fn as_str_unchecked(b: &[u8]) -> &str {
    // SAFETY: callers pass ASCII bytes or the output of `char::encode_utf8`.
    unsafe { core::str::from_utf8_unchecked(b) }
}

/// Up to two arbitrary Unicode scalar values (every `char`, NUL and non-ASCII
/// included) encoded by `char::encode_utf8`: valid UTF-8 by construction.
fn any_two_chars(buf: &mut [u8; 8]) -> usize {
    let n: u8 = kani::any();
    kani::assume(n <= 2);
    let mut len = 0;
    if n >= 1 {
        let c: char = kani::any();
        len += c.encode_utf8(&mut buf[len..]).len();
    }
    if n >= 2 {
        let c: char = kani::any();
        len += c.encode_utf8(&mut buf[len..]).len();
    }
    len
}

/// The three storage representations.
#[derive(Clone, Copy, PartialEq, Eq, kani::Arbitrary)]
enum Kind {
    Static,
    Inline,
    Heap,
}

/// Builds a `Repr` of the requested representation holding `s`.
/// `Static` needs a `&'static str`: the harness extends the lifetime of the
/// local buffer (the value is `mem::forget`-free and never outlives the frame).
fn make_repr(kind: Kind, s: &str) -> Repr {
    match kind {
        Kind::Static => {
            // SAFETY: harness-only lifetime extension; the Repr is dropped
            // before the buffer goes out of scope in every harness below.
            let st: &'static str = unsafe { core::mem::transmute::<&str, &'static str>(s) };
            Repr::from_static(st)
        }
        Kind::Inline => {
            let r = Repr::from_str(s);
            assert!(matches!(r, Repr::Inline { .. }));
            r
        }
        Kind::Heap => Repr::Heap(ArcStr::new(s)),
    }
}

/// A hasher that records what is fed to it, robustly: every `Hasher` method ends in
/// `write` (the integer / length-prefix / str helpers are the trait's default methods,
/// which call `write` with the value's bytes), and `write` is loop-free, so ANY sequence of
/// calls a `Hash` impl may make is recorded without depending on the harness unwind bound.
/// Per call: the length and the first `REC_BYTES` bytes (exact for the writes a
/// content-based impl makes on contents within the harness bounds); up to `REC_EVENTS`
/// calls, more set `overflow`.
const REC_EVENTS: usize = 4;
const REC_BYTES: usize = 4;

#[derive(Clone, Copy)]
struct Ev {
    len: usize,
    bytes: [u8; REC_BYTES],
}
impl Ev {
    fn is(&self, o: &Ev) -> bool {
        (self.len == o.len)
            & (self.bytes[0] == o.bytes[0])
            & (self.bytes[1] == o.bytes[1])
            & (self.bytes[2] == o.bytes[2])
            & (self.bytes[3] == o.bytes[3])
    }
}

struct Rec {
    ev: [Ev; REC_EVENTS],
    n: usize,
    overflow: bool,
}
impl Rec {
    fn new() -> Self {
        Self {
            ev: [Ev {
                len: 0,
                bytes: [0; REC_BYTES],
            }; REC_EVENTS],
            n: 0,
            overflow: false,
        }
    }
    /// Same sequence of calls with the same data.
    fn same(&self, o: &Self) -> bool {
        if self.overflow | o.overflow | (self.n != o.n) {
            return false;
        }
        let mut i = 0;
        while i < REC_EVENTS {
            if (i < self.n) & !self.ev[i].is(&o.ev[i]) {
                return false;
            }
            i += 1;
        }
        true
    }
    /// Exactly the stream of `str`: one write of the content, then the 0xff terminator.
    fn is_str_stream(&self, content: &[u8]) -> bool {
        if self.overflow | (self.n != 2) | (content.len() > REC_BYTES) {
            return false;
        }
        let mut want = [0u8; REC_BYTES];
        let mut i = 0;
        while i < REC_BYTES {
            if i < content.len() {
                want[i] = content[i];
            }
            i += 1;
        }
        (self.ev[0].len == content.len())
            & self.ev[0].is(&Ev {
                len: content.len(),
                bytes: want,
            })
            & (self.ev[1].len == 1)
            & (self.ev[1].bytes[0] == 0xff)
    }
}
impl Hasher for Rec {
    fn finish(&self) -> u64 {
        0
    }
    fn write(&mut self, bytes: &[u8]) {
        let mut b = [0u8; REC_BYTES];
        if bytes.len() > 0 {
            b[0] = bytes[0];
        }
        if bytes.len() > 1 {
            b[1] = bytes[1];
        }
        if bytes.len() > 2 {
            b[2] = bytes[2];
        }
        if bytes.len() > 3 {
            b[3] = bytes[3];
        }
        if self.n < REC_EVENTS {
            self.ev[self.n] = Ev {
                len: bytes.len(),
                bytes: b,
            };
            self.n += 1;
        } else {
            self.overflow = true;
        }
    }
}

fn rec_of<T: Hash>(v: &T) -> Rec {
    let mut h = Rec::new();
    v.hash(&mut h);
    h
}

// ---------------------------------------------------------------------------
// Text constructors
// ---------------------------------------------------------------------------

/// `Text::from_str` on every ASCII string of <= 5 bytes (NUL included).
#[kani::proof]
#[kani::unwind(7)]
fn c32_text_parse_ascii() {
    let buf = any_ascii::<N>();
    let len: usize = kani::any();
    kani::assume(len <= N);
    let s = as_str_unchecked(&buf[..len]);
    match Text::from_str(s) {
        Ok(t) => {
            assert!(spec_no_nul(&buf[..len]));
            assert!(same_bytes(t.as_str().as_bytes(), &buf[..len]));
            assert!(spec_no_nul(t.as_str().as_bytes()));
            kani::cover!(len == N, "accepted full length");
            kani::cover!(len == 0, "accepted empty");
        }
        Err(_) => {
            assert!(!spec_no_nul(&buf[..len]));
            kani::cover!(
                (len == N) & (buf[N - 1] == 0) & (buf[0] != 0),
                "rejected: NUL last"
            );
            kani::cover!((len == 1), "rejected: single NUL");
        }
    }
}

/// `Text::from_str` on every string of <= 2 Unicode scalar values.
#[kani::proof]
#[kani::unwind(10)]
fn c32_text_parse_unicode() {
    let mut buf = [0u8; 8];
    let len = any_two_chars(&mut buf);
    let s = as_str_unchecked(&buf[..len]);
    match Text::from_str(s) {
        Ok(t) => {
            assert!(spec_no_nul(&buf[..len]));
            assert!(same_bytes(t.as_str().as_bytes(), &buf[..len]));
            kani::cover!(len == 8, "two 4-byte chars accepted");
            kani::cover!(len == 3, "3 bytes accepted");
        }
        Err(_) => {
            assert!(!spec_no_nul(&buf[..len]));
            kani::cover!(len == 5, "4-byte char + NUL rejected");
        }
    }
}

fn text_from_string_case(len: usize) {
    let buf = any_ascii::<3>();
    let mut st = String::with_capacity(4);
    st.push_str(as_str_unchecked(&buf[..len]));
    match Text::try_from(st) {
        Ok(t) => {
            assert!(spec_no_nul(&buf[..len]));
            assert!(same_bytes(t.as_str().as_bytes(), &buf[..len]));
            kani::cover!(len == 3, "String accepted");
        }
        Err(_) => {
            assert!(!spec_no_nul(&buf[..len]));
            kani::cover!(len == 3, "String rejected");
        }
    }
}

/// `Text: TryFrom<String>` for ASCII strings of 0..=3 bytes (concrete lengths).
#[kani::proof]
#[kani::unwind(6)]
fn c32_text_from_string() {
    let mut len = 0;
    while len <= 3 {
        text_from_string_case(len);
        len += 1;
    }
}

/// `Text: TryFrom<&CStr>`: arbitrary bytes (not only ASCII) of length 0..=3
/// followed by the terminator. UTF-8 validation is part of the real path.
#[kani::proof]
#[kani::unwind(6)]
fn c32_text_from_cstr() {
    let mut buf = [0u8; 4];
    let len: usize = kani::any();
    kani::assume(len <= 3);
    let mut i = 0;
    while i < 3 {
        let b: u8 = kani::any();
        buf[i] = b;
        i += 1;
    }
    // CStr precondition (documented): no interior NUL, NUL terminated.
    kani::assume(spec_no_nul(&buf[..len]));
    buf[len] = 0;
    // SAFETY: the precondition of `from_bytes_with_nul_unchecked` was assumed above.
    let c: &CStr = unsafe { CStr::from_bytes_with_nul_unchecked(&buf[..len + 1]) };
    let mut ascii = true;
    let mut i = 0;
    while i < len {
        if buf[i] >= 0x80 {
            ascii = false;
        }
        i += 1;
    }
    match Text::try_from(c) {
        Ok(t) => {
            assert!(same_bytes(t.as_str().as_bytes(), &buf[..len]));
            assert!(spec_no_nul(t.as_str().as_bytes()));
            kani::cover!((len == 3) & ascii, "ascii accepted");
            kani::cover!((len == 3) & (buf[0] >= 0xe0), "3-byte sequence accepted");
        }
        Err(_) => {
            // Only ill-formed UTF-8 may be rejected; ASCII never is.
            assert!(!ascii);
            kani::cover!(len == 1, "lone continuation/lead byte rejected");
        }
    }
}

fn concat_case(la: usize, lb: usize, ka: Kind, kb: Kind) {
    let a = any_ascii::<2>();
    let b = any_ascii::<2>();
    kani::assume(spec_no_nul(&a[..la]) & spec_no_nul(&b[..lb]));
    let ta = Text(make_repr(ka, as_str_unchecked(&a[..la])));
    let tb = Text(make_repr(kb, as_str_unchecked(&b[..lb])));
    let out = &ta + &tb;
    let o = out.as_str().as_bytes();
    assert!(o.len() == la + lb);
    assert!(spec_no_nul(o));
    assert!(same_bytes(&o[..la], &a[..la]));
    assert!(same_bytes(&o[la..], &b[..lb]));
    assert!(matches!(out.0, Repr::Inline { .. }));
}

/// `&Text + &Text` for every pair of valid texts of 2 + 1 ASCII bytes in every
/// combination of representations (symbolic), plus the empty-operand cases.
#[kani::proof]
#[kani::unwind(6)]
fn c32_text_add_small() {
    let ka: Kind = kani::any();
    let kb: Kind = kani::any();
    concat_case(2, 1, ka, kb);
    kani::cover!((ka == Kind::Heap) & (kb == Kind::Static), "heap + static");
    kani::cover!((ka == Kind::Inline) & (kb == Kind::Heap), "inline + heap");
    kani::cover!((ka == Kind::Static) & (kb == Kind::Inline), "static + inline");
}

/// Empty operands (the default `Text::new()` is the static empty string).
#[kani::proof]
#[kani::unwind(6)]
fn c32_text_add_empty() {
    concat_case(0, 0, Kind::Static, Kind::Inline);
    concat_case(0, 2, Kind::Static, Kind::Heap);
    concat_case(2, 0, Kind::Inline, Kind::Static);
    let e = Text::new();
    let out = &e + &e;
    assert!(out.as_str().len() == 0);
    assert!(out == e);
    kani::cover!(out.as_str().is_empty(), "empty + empty");
}

/// Concatenation across the inline -> heap boundary: 20..=22 bytes + 1..=3 bytes.
#[kani::proof]
#[kani::unwind(28)]
fn c32_text_add_to_heap() {
    let mut a = [b'a'; 22];
    let x: u8 = kani::any();
    kani::assume((x != 0) & (x < 0x80));
    a[0] = x;
    let la: usize = 21;
    let b = any_ascii::<3>();
    let lb: usize = 2;
    kani::assume(spec_no_nul(&b[..lb]));
    let ta = Text::from_str(as_str_unchecked(&a[..la]));
    let tb = Text::from_str(as_str_unchecked(&b[..lb]));
    let (ta, tb) = match (ta, tb) {
        (Ok(x), Ok(y)) => (x, y),
        _ => panic!("valid text rejected"),
    };
    assert!(matches!(ta.0, Repr::Inline { .. }));
    let out = &ta + &tb;
    assert!(matches!(out.0, Repr::Heap(_)));
    let o = out.as_str().as_bytes();
    assert!(o.len() == la + lb);
    assert!(spec_no_nul(o));
    assert!(o[0] == x);
    assert!(o[la] == b[0]);
    assert!(o[la + 1] == b[1]);
    kani::cover!(o.len() == MAX_INLINE + 1, "first heap length");
}

// ---------------------------------------------------------------------------
// Identifier constructors
// ---------------------------------------------------------------------------

/// `Identifier::from_str` on every ASCII string of <= 5 bytes.
#[kani::proof]
#[kani::unwind(7)]
fn c32_ident_parse_ascii() {
    let buf = any_ascii::<N>();
    let len: usize = kani::any();
    kani::assume(len <= N);
    let s = as_str_unchecked(&buf[..len]);
    match Identifier::from_str(s) {
        Ok(id) => {
            assert!(spec_ident(&buf[..len]));
            assert!(same_bytes(id.as_str().as_bytes(), &buf[..len]));
            assert!(spec_ident(id.as_str().as_bytes()));
            assert!(spec_no_nul(id.as_str().as_bytes()));
            kani::cover!(
                (len == N) & (buf[N - 1] == b'_') & (buf[1] == b'9'),
                "accepted a9.._"
            );
            kani::cover!((len == 1) & (buf[0] == b'Z'), "accepted Z");
        }
        Err(_) => {
            assert!(!spec_ident(&buf[..len]));
            kani::cover!(len == 0, "rejected empty");
            kani::cover!((len > 0) & (buf[0] == b'_'), "rejected leading underscore");
            kani::cover!((len > 0) & (buf[0] == b'7'), "rejected leading digit");
            kani::cover!(
                (len == N) & spec_ident(&buf[..N - 1]) & (buf[N - 1] == b'-'),
                "rejected bad tail"
            );
            kani::cover!(
                (len == 2) & (buf[0] == b'a') & (buf[1] == 0),
                "rejected NUL in tail"
            );
        }
    }
}

/// `Identifier::from_str` on every string of <= 2 Unicode scalar values.
#[kani::proof]
#[kani::unwind(10)]
fn c32_ident_parse_unicode() {
    let mut buf = [0u8; 8];
    let len = any_two_chars(&mut buf);
    let s = as_str_unchecked(&buf[..len]);
    match Identifier::from_str(s) {
        Ok(id) => {
            assert!(spec_ident(&buf[..len]));
            assert!(len <= 2);
            assert!(same_bytes(id.as_str().as_bytes(), &buf[..len]));
            kani::cover!(len == 2, "two ASCII chars accepted");
        }
        Err(_) => {
            assert!(!spec_ident(&buf[..len]));
            kani::cover!((len == 3) & (buf[0] == b'a'), "ASCII + 2-byte char rejected");
            kani::cover!((len == 2) & (buf[0] >= 0xc0), "2-byte first char rejected");
        }
    }
}

fn ident_from_string_case(len: usize) {
    let buf = any_ascii::<3>();
    let mut st = String::with_capacity(4);
    st.push_str(as_str_unchecked(&buf[..len]));
    match Identifier::try_from(st) {
        Ok(id) => {
            assert!(spec_ident(&buf[..len]));
            assert!(same_bytes(id.as_str().as_bytes(), &buf[..len]));
            kani::cover!(len == 3, "String accepted");
        }
        Err(_) => {
            assert!(!spec_ident(&buf[..len]));
            kani::cover!(len == 3, "String rejected");
            kani::cover!(len == 0, "empty String rejected");
        }
    }
}

/// `Identifier: TryFrom<String>` for ASCII strings of 0..=3 bytes.
#[kani::proof]
#[kani::unwind(6)]
fn c32_ident_from_string() {
    let mut len = 0;
    while len <= 3 {
        ident_from_string_case(len);
        len += 1;
    }
}

/// `Identifier: TryFrom<Text>` from any valid Text (every representation),
/// and back (`Text: From<Identifier>`).
#[kani::proof]
#[kani::unwind(7)]
fn c32_ident_from_text() {
    let buf = any_ascii::<3>();
    let len: usize = kani::any();
    kani::assume(len <= 3);
    kani::assume(spec_no_nul(&buf[..len]));
    let k: Kind = kani::any();
    let t = Text(make_repr(k, as_str_unchecked(&buf[..len])));
    match Identifier::try_from(t) {
        Ok(id) => {
            assert!(spec_ident(&buf[..len]));
            assert!(same_bytes(id.as_str().as_bytes(), &buf[..len]));
            kani::cover!(k == Kind::Heap, "heap text accepted");
            kani::cover!(k == Kind::Static, "static text accepted");
            let back: Text = id.into();
            assert!(same_bytes(back.as_str().as_bytes(), &buf[..len]));
        }
        Err(_) => {
            assert!(!spec_ident(&buf[..len]));
            kani::cover!((k == Kind::Inline) & (len == 3), "inline text rejected");
        }
    }
}

// ---------------------------------------------------------------------------
// heap representation through the public constructors
// ---------------------------------------------------------------------------

/// Strings of 23 and 24 bytes (3 symbolic, rest fixed) take the heap path.
fn heap_parse_case(len: usize) {
    let mut buf = [b'q'; 24];
    let x = any_ascii::<3>();
    buf[0] = x[0];
    buf[11] = x[1];
    buf[len - 1] = x[2];
    let s = as_str_unchecked(&buf[..len]);
    let ok_text = (x[0] != 0) & (x[1] != 0) & (x[2] != 0);
    let ok_ident = spec_alpha(x[0]) & spec_tail(x[1]) & spec_tail(x[2]);
    match Text::from_str(s) {
        Ok(t) => {
            assert!(ok_text);
            assert!(matches!(t.0, Repr::Heap(_)));
            let o = t.as_str().as_bytes();
            assert!(o.len() == len);
            assert!((o[0] == x[0]) & (o[11] == x[1]) & (o[len - 1] == x[2]) & (o[5] == b'q'));
            let t2 = t.clone();
            assert!(t2 == t);
            kani::cover!(x[2] == b'z', "heap text accepted");
        }
        Err(_) => {
            assert!(!ok_text);
            kani::cover!(x[1] == 0, "heap-sized text with NUL rejected");
        }
    }
    match Identifier::from_str(s) {
        Ok(id) => {
            assert!(ok_ident);
            let o = id.as_str().as_bytes();
            assert!(o.len() == len);
            assert!((o[0] == x[0]) & (o[11] == x[1]) & (o[len - 1] == x[2]));
            kani::cover!(x[2] == b'_', "heap identifier accepted");
        }
        Err(_) => {
            assert!(!ok_ident);
            kani::cover!(ok_text, "valid text, invalid identifier");
        }
    }
}

/// 23 bytes: the shortest string that takes the heap path.
#[kani::proof]
#[kani::unwind(27)]
fn c32_heap_parse23() {
    heap_parse_case(23);
}

#[kani::proof]
#[kani::unwind(27)]
fn c32_heap_parse24() {
    heap_parse_case(24);
}

// ---------------------------------------------------------------------------
// Eq / Ord / Hash depend on content only
// ---------------------------------------------------------------------------

/// Two texts of arbitrary representation (symbolic) and arbitrary ASCII content of
/// 0..=max bytes each, with the content-level expectations.
struct Pair {
    ta: Text,
    tb: Text,
    a: [u8; 3],
    b: [u8; 3],
    la: usize,
    lb: usize,
    ka: Kind,
    kb: Kind,
}

fn any_pair(max: usize, a: &[u8; 3], b: &[u8; 3]) -> Pair {
    let la: usize = kani::any();
    let lb: usize = kani::any();
    kani::assume((la <= max) & (lb <= max));
    let ka: Kind = kani::any();
    let kb: Kind = kani::any();
    let ta = Text(make_repr(ka, as_str_unchecked(&a[..la])));
    let tb = Text(make_repr(kb, as_str_unchecked(&b[..lb])));
    Pair {
        ta,
        tb,
        a: *a,
        b: *b,
        la,
        lb,
        ka,
        kb,
    }
}

/// `==`, `!=` are equality of the contents, whatever the
/// representations (Text level; the derived impl forwards to `Repr`'s).
fn eq_content_case(max: usize) {
    let a = any_ascii::<3>();
    let b = any_ascii::<3>();
    let p = any_pair(max, &a, &b);
    let want_eq = same_bytes(&p.a[..p.la], &p.b[..p.lb]);
    assert!((p.ta == p.tb) == want_eq);
    assert!((p.ta != p.tb) == !want_eq);
    kani::cover!(
        want_eq & (p.ka == Kind::Static) & (p.kb == Kind::Heap) & (p.la == max),
        "equal: static vs heap"
    );
    kani::cover!(
        want_eq & (p.ka == Kind::Inline) & (p.kb == Kind::Heap) & (p.la == 1),
        "equal: inline vs heap"
    );
    kani::cover!(
        want_eq & (p.ka == Kind::Inline) & (p.kb == Kind::Static) & (p.la == 0),
        "equal: empty inline vs static"
    );
    kani::cover!(
        !want_eq & (p.ka == p.kb) & (p.la == p.lb),
        "different content, same kind and length"
    );
}

#[kani::proof]
#[kani::unwind(6)]
fn c32_eq_is_content_eq_len2() {
    eq_content_case(2);
}

#[kani::proof]
#[kani::unwind(6)]
fn c32_eq_is_content_eq_len3() {
    eq_content_case(3);
}

/// `const_eq` and `Text == str` are equality of the contents too.
fn const_eq_case(max: usize) {
    let a = any_ascii::<3>();
    let b = any_ascii::<3>();
    let p = any_pair(max, &a, &b);
    let want_eq = same_bytes(&p.a[..p.la], &p.b[..p.lb]);
    assert!(p.ta.const_eq(&p.tb) == want_eq);
    assert!((p.ta == *as_str_unchecked(&p.b[..p.lb])) == want_eq);
    kani::cover!(
        want_eq & (p.ka == Kind::Heap) & (p.kb == Kind::Static) & (p.la == max),
        "equal: heap vs static"
    );
    kani::cover!(
        !want_eq & (p.la == p.lb) & (p.la == max),
        "same length, different content"
    );
}

#[kani::proof]
#[kani::unwind(6)]
fn c32_const_eq_is_content_eq_len2() {
    const_eq_case(2);
}

#[kani::proof]
#[kani::unwind(6)]
fn c32_const_eq_is_content_eq_len3() {
    const_eq_case(3);
}

/// `cmp` / `partial_cmp` are the byte-lexicographic order of the contents.
fn ord_content_case(max: usize) {
    let a = any_ascii::<3>();
    let b = any_ascii::<3>();
    let p = any_pair(max, &a, &b);
    let want_cmp = spec_cmp(&p.a[..p.la], &p.b[..p.lb]);
    assert!(p.ta.cmp(&p.tb) == want_cmp);
    assert!(p.ta.partial_cmp(&p.tb) == Some(want_cmp));
    assert!(p.ta.0.cmp(&p.tb.0) == want_cmp);
    kani::cover!(
        (want_cmp == Ordering::Equal) & (p.ka == Kind::Heap) & (p.kb == Kind::Inline) & (p.la == max),
        "equal: heap vs inline"
    );
    kani::cover!(
        (want_cmp == Ordering::Less) & (p.la > p.lb) & (p.ka == Kind::Static),
        "less but longer"
    );
    kani::cover!(
        (want_cmp == Ordering::Greater) & (p.la == p.lb) & (p.kb == Kind::Static),
        "greater, same length"
    );
}

#[kani::proof]
#[kani::unwind(6)]
fn c32_ord_is_content_ord_len2() {
    ord_content_case(2);
}

#[kani::proof]
#[kani::unwind(6)]
fn c32_ord_is_content_ord_len3() {
    ord_content_case(3);
}

/// The byte stream fed to any `Hasher` is that of the content (`str`'s: the bytes, then
/// 0xff), so equal contents hash equally under every hasher, whatever the representations.
#[kani::proof]
#[kani::unwind(6)]
fn c32_hash_is_content_hash() {
    let a = any_ascii::<3>();
    let b = any_ascii::<3>();
    let p = any_pair(3, &a, &b);
    let want_eq = same_bytes(&p.a[..p.la], &p.b[..p.lb]);
    let ha = rec_of(&p.ta);
    let hb = rec_of(&p.tb);
    assert!(ha.is_str_stream(&p.a[..p.la]));
    assert!(hb.is_str_stream(&p.b[..p.lb]));
    assert!(ha.same(&hb) == want_eq);
    kani::cover!(
        want_eq & (p.ka == Kind::Static) & (p.kb == Kind::Heap) & (p.la == 3),
        "equal: static vs heap"
    );
    kani::cover!(
        want_eq & (p.ka == Kind::Heap) & (p.kb == Kind::Inline) & (p.la == 2),
        "equal: heap vs inline"
    );
    kani::cover!(!want_eq & (p.la == p.lb) & (p.la == 3), "different content");
}

/// Identifier level: three identifiers with the same content stored as
/// static (`__from_literal`), inline (`from_str`) and heap (`TryFrom<Text>`)
/// are equal, compare Equal and hash identically.
#[kani::proof]
#[kani::unwind(6)]
fn c32_ident_three_reprs_agree() {
    let a = any_ascii::<2>();
    let la: usize = kani::any();
    kani::assume((la >= 1) & (la <= 2));
    kani::assume(spec_ident(&a[..la]));
    let sa = as_str_unchecked(&a[..la]);
    // SAFETY: harness-only lifetime extension, see make_repr; content is a valid identifier.
    let i_static = unsafe { Identifier::__from_literal(core::mem::transmute::<&str, &'static str>(sa)) };
    let i_inline = match Identifier::from_str(sa) {
        Ok(i) => i,
        Err(_) => panic!("valid identifier rejected"),
    };
    let i_heap = match Identifier::try_from(Text(Repr::Heap(ArcStr::new(sa)))) {
        Ok(i) => i,
        Err(_) => panic!("valid identifier rejected"),
    };
    assert!((i_static == i_inline) & (i_inline == i_heap) & (i_static == i_heap));
    assert!(i_static.cmp(&i_heap) == Ordering::Equal);
    assert!(i_inline.cmp(&i_static) == Ordering::Equal);
    assert!(i_heap.partial_cmp(&i_inline) == Some(Ordering::Equal));
    assert!(i_heap.const_eq(&i_inline));
    let h1 = rec_of(&i_static);
    let h2 = rec_of(&i_inline);
    let h3 = rec_of(&i_heap);
    assert!(h1.same(&h2) & h2.same(&h3));
    assert!(h1.is_str_stream(&a[..la]));
    kani::cover!(la == 2, "2-byte identifier");
    kani::cover!(la == 1, "1-byte identifier");
}

/// Identifier level: equality / order / hash between an inline identifier and one
/// stored statically or on the heap are those of their contents.
#[kani::proof]
#[kani::unwind(6)]
fn c32_ident_cmp_across_reprs() {
    let a = any_ascii::<2>();
    let b = any_ascii::<2>();
    let la: usize = kani::any();
    let lb: usize = kani::any();
    kani::assume((la >= 1) & (la <= 2) & (lb >= 1) & (lb <= 2));
    kani::assume(spec_ident(&a[..la]) & spec_ident(&b[..lb]));
    let sa = as_str_unchecked(&a[..la]);
    let sb = as_str_unchecked(&b[..lb]);
    let ia = match Identifier::from_str(sa) {
        Ok(i) => i,
        Err(_) => panic!("valid identifier rejected"),
    };
    let heap: bool = kani::any();
    let ib = if heap {
        match Identifier::try_from(Text(Repr::Heap(ArcStr::new(sb)))) {
            Ok(i) => i,
            Err(_) => panic!("valid identifier rejected"),
        }
    } else {
        // SAFETY: harness-only lifetime extension, see make_repr; content is a valid identifier.
        unsafe { Identifier::__from_literal(core::mem::transmute::<&str, &'static str>(sb)) }
    };
    let want_eq = same_bytes(&a[..la], &b[..lb]);
    let want_cmp = spec_cmp(&a[..la], &b[..lb]);
    assert!((ia == ib) == want_eq);
    assert!(ia.cmp(&ib) == want_cmp);
    assert!(ib.partial_cmp(&ia) == Some(want_cmp.reverse()));
    assert!(rec_of(&ia).same(&rec_of(&ib)) == want_eq);
    kani::cover!(want_eq & heap & (la == 2), "equal: inline vs heap");
    kani::cover!(want_eq & !heap & (la == 1), "equal: inline vs static");
    kani::cover!((want_cmp == Ordering::Greater) & (la < lb), "greater but shorter");
}
