// C46 — IDs round-trip through text and serde.
//
// Child module of aranya_id::id (appended by the overlay). The serde visitors of `Id`
// are private to `Id::deserialize`, so everything goes through the real
// `Serialize`/`Deserialize`/`Display`/`Debug`/`FromStr` impls, driven by the harness
// format in c46_env.rs.
use core::{fmt::Write as _, str::FromStr};

use serde::{Deserialize, Serialize};

use super::*;

#[path = "c46_env.rs"]
mod env;
use env::*;

crate::custom_id! {
    /// A second tag, to see that the tag name (and nothing else) enters `Debug`.
    pub struct HarnessId;
}

fn any_id_bytes() -> [u8; 32] {
    kani::any()
}

fn eq32(a: &[u8], b: &[u8]) -> bool {
    if (a.len() != 32) | (b.len() != 32) {
        return false;
    }
    let mut i = 0;
    while i < 32 {
        if a[i] != b[i] {
            return false;
        }
        i += 1;
    }
    true
}

fn same(a: &[u8], b: &[u8]) -> bool {
    if a.len() != b.len() {
        return false;
    }
    let mut i = 0;
    while i < a.len() {
        if a[i] != b[i] {
            return false;
        }
        i += 1;
    }
    true
}

// ---------------------------------------------------------------------------
// binary serde (no base58 involved: no stubs)
// ---------------------------------------------------------------------------

fn de_with(human: bool, input: Input<'_>) -> (Result<BaseId, HErr>, Hint, usize) {
    let mut hint = Hint::None;
    let mut left = 0usize;
    let r = BaseId::deserialize(HDe {
        human,
        input,
        hint: &mut hint,
        seq_left: &mut left,
    });
    (r, hint, left)
}

/// Binary formats that hand the visitor a byte string: for every length 0..=40 and all
/// contents, exactly length 32 is accepted and yields those bytes; every other length is
/// `invalid_length(len)`.
#[kani::proof]
#[kani::unwind(42)]
fn c46_bin_visit_bytes_any_len() {
    let buf: [u8; 40] = kani::any();
    let len: usize = kani::any();
    kani::assume(len <= 40);
    let (r, hint, _) = de_with(false, Input::Bytes(&buf[..len]));
    assert!(hint == Hint::Bytes);
    match r {
        Ok(id) => {
            assert!(len == 32);
            assert!(eq32(id.as_bytes(), &buf[..32]));
            assert!(eq32(id.as_array(), &buf[..32]));
            kani::cover!(buf[31] == 0xff, "32 bytes accepted");
        }
        Err(e) => {
            assert!(len != 32);
            assert!(e == HErr::InvalidLength(len));
            kani::cover!(len == 0, "empty rejected");
            kani::cover!(len == 31, "31 rejected");
            kani::cover!(len == 33, "33 rejected");
            kani::cover!(len == 40, "40 rejected");
        }
    }
}

/// Binary formats that hand the visitor a sequence of u8 (length 0..=40): fewer than 32
/// elements is `invalid_length(len)`; with >= 32 the id is the first 32 elements and
/// exactly 32 are consumed (what is left is for the format to reject, as for any
/// fixed-size array).
#[kani::proof]
#[kani::unwind(42)]
fn c46_bin_visit_seq_any_len() {
    let buf: [u8; 40] = kani::any();
    let len: usize = kani::any();
    kani::assume(len <= 40);
    let (r, hint, left) = de_with(false, Input::Seq(&buf[..len]));
    assert!(hint == Hint::Bytes);
    match r {
        Ok(id) => {
            assert!(len >= 32);
            assert!(eq32(id.as_bytes(), &buf[..32]));
            assert!(left == len - 32);
            kani::cover!(len == 32, "exactly 32 elements");
            kani::cover!(len == 40, "40 elements: 8 left over");
        }
        Err(e) => {
            assert!(len < 32);
            assert!(e == HErr::InvalidLength(len));
            kani::cover!(len == 0, "empty rejected");
            kani::cover!(len == 31, "31 rejected");
        }
    }
}

/// Non-human-readable serialize emits the 32 raw bytes via `serialize_bytes`, and
/// feeding them back (as bytes or as a sequence) yields the same id.
#[kani::proof]
#[kani::unwind(50)]
fn c46_bin_roundtrip_harness_format() {
    let b = any_id_bytes();
    let id = BaseId::from_bytes(b);
    let out = match id.serialize(HSer { human: false }) {
        Ok(o) => o,
        Err(_) => panic!("binary serialize failed"),
    };
    assert!(out.kind == OutKind::Bytes);
    assert!(out.len == 32);
    assert!(eq32(&out.buf[..32], &b));
    let (r, hint, _) = de_with(false, Input::Bytes(&out.buf[..out.len]));
    assert!(hint == Hint::Bytes);
    match r {
        Ok(back) => {
            assert!(back == id);
            assert!(eq32(back.as_bytes(), &b));
        }
        Err(_) => panic!("binary round trip failed"),
    }
    // conversions used around the serde impls
    let arr: [u8; 32] = id.into();
    assert!(eq32(&arr, &b));
    let h: HarnessId = HarnessId::from_base(id);
    assert!(h.as_base() == id);
    kani::cover!((b[0] == 0) & (b[31] == 0xff), "some id");
}

// ---------------------------------------------------------------------------
// text form and human-readable serde (external base58 arithmetic replaced, see env)
// ---------------------------------------------------------------------------

fn display_of<T: core::fmt::Display>(v: &T) -> Sink {
    let mut s = Sink::new();
    match write!(s, "{}", v) {
        Ok(()) => {}
        Err(_) => panic!("Display failed"),
    }
    s
}

fn debug_of<T: core::fmt::Debug>(v: &T) -> Sink {
    let mut s = Sink::new();
    match write!(s, "{:?}", v) {
        Ok(()) => {}
        Err(_) => panic!("Debug failed"),
    }
    s
}

/// Display prints exactly the encoder's text; parsing that text (FromStr and
/// `Id::decode`) gives the id back.
#[kani::proof]
#[kani::unwind(50)]
#[kani::stub(spideroak_base58::String32::encode, env::enc_model)]
#[kani::stub(spideroak_base58::String32::decode, env::dec_model)]
#[kani::stub(core::str::from_utf8, env::from_utf8_ascii)]
fn c46_text_display_parse() {
    let b = any_id_bytes();
    let id = BaseId::from_bytes(b);
    let want = model_text(&b);

    let shown = display_of(&id);
    assert!(shown.n == TXT);
    assert!(same(&shown.buf[..shown.n], &want));

    // SAFETY: Display output is ASCII (asserted by the from_utf8 stand-in on the way).
    let text = unsafe { core::str::from_utf8_unchecked(&shown.buf[..shown.n]) };
    match BaseId::from_str(text) {
        Ok(back) => {
            assert!(back == id);
        }
        Err(_) => panic!("text round trip failed"),
    }
    match BaseId::decode(text.as_bytes()) {
        Ok(back) => {
            assert!(eq32(back.as_bytes(), &b));
        }
        Err(_) => panic!("decode round trip failed"),
    }
    // `to_base58` (the ToBase58 impl for Id) is the same text.
    let t58 = spideroak_base58::ToBase58::to_base58(&id);
    assert!(same(t58.as_bytes(), &want));
    kani::cover!((b[0] == 0x5a) & (b[31] == 0xa5), "some id");
}

fn debug_case(dbg: &Sink, name: &[u8], want: &[u8; TXT]) {
    assert!(dbg.n == name.len() + 1 + TXT + 1);
    assert!(same(&dbg.buf[..name.len()], name));
    assert!(dbg.buf[name.len()] == b'(');
    assert!(same(&dbg.buf[name.len() + 1..name.len() + 1 + TXT], want));
    assert!(dbg.buf[dbg.n - 1] == b')');
}

/// Debug is `<TagName>(<Display text>)`; a differently tagged id with the same bytes
/// prints the same text under its own name.
#[kani::proof]
#[kani::unwind(50)]
#[kani::stub(spideroak_base58::String32::encode, env::enc_model)]
#[kani::stub(core::str::from_utf8, env::from_utf8_ascii)]
fn c46_text_debug_is_tagged_display() {
    let b = any_id_bytes();
    let id = BaseId::from_bytes(b);
    let shown = display_of(&id);
    assert!(shown.n == TXT);
    let mut want = [0u8; TXT];
    let mut i = 0;
    while i < TXT {
        want[i] = shown.buf[i];
        i += 1;
    }
    debug_case(&debug_of(&id), b"BaseId", &want);
    let h = HarnessId::from_base(id);
    let hs = display_of(&h);
    assert!(same(&hs.buf[..hs.n], &want));
    debug_case(&debug_of(&h), b"HarnessId", &want);
    kani::cover!((b[0] == 0x5a) & (b[31] == 0xa5), "some id");
}

/// Human-readable serde: serialize emits a string equal to the Display text;
/// deserializing that string gives the id back, through `deserialize_str`.
#[kani::proof]
#[kani::unwind(50)]
#[kani::stub(spideroak_base58::String32::encode, env::enc_model)]
#[kani::stub(spideroak_base58::String32::decode, env::dec_model)]
#[kani::stub(core::str::from_utf8, env::from_utf8_ascii)]
fn c46_human_serde_roundtrip() {
    let b = any_id_bytes();
    let id = BaseId::from_bytes(b);
    let out = match id.serialize(HSer { human: true }) {
        Ok(o) => o,
        Err(_) => panic!("human-readable serialize failed"),
    };
    assert!(out.kind == OutKind::Str);
    let shown = display_of(&id);
    assert!(same(&out.buf[..out.len], &shown.buf[..shown.n]));
    assert!(out.len == TXT);

    // SAFETY: ASCII, see above.
    let text = unsafe { core::str::from_utf8_unchecked(&out.buf[..out.len]) };
    let (r, hint, _) = de_with(true, Input::Str(text));
    assert!(hint == Hint::Str);
    match r {
        Ok(back) => {
            assert!(back == id);
            assert!(eq32(back.as_bytes(), &b));
        }
        Err(_) => panic!("human-readable round trip failed"),
    }
    kani::cover!((b[7] == 1) & (b[8] == 2), "some id");
}

fn other_text_case(len: usize) {
    let mut raw = [0u8; 4];
    let mut i = 0;
    while i < 4 {
        let c: u8 = kani::any();
        kani::assume(c < 0x80);
        raw[i] = c;
        i += 1;
    }
    // SAFETY: ASCII assumed above.
    let text = unsafe { core::str::from_utf8_unchecked(&raw[..len]) };
    let oracle: Oracle = if kani::any() {
        Oracle::Ok(kani::any())
    } else {
        Oracle::BadInput
    };
    // SAFETY: single-threaded harness.
    unsafe { ORACLE = oracle };

    let parsed = BaseId::from_str(text);
    let decoded = BaseId::decode(text);
    let (visited, hint, _) = de_with(true, Input::Str(text));
    assert!(hint == Hint::Str);
    match oracle {
        Oracle::Ok(want) => {
            match parsed {
                Ok(id) => {
                    assert!(eq32(id.as_bytes(), &want));
                }
                Err(_) => panic!("decoder said Ok, FromStr failed"),
            }
            match decoded {
                Ok(id) => {
                    assert!(eq32(id.as_bytes(), &want));
                }
                Err(_) => panic!("decoder said Ok, decode failed"),
            }
            match visited {
                Ok(id) => {
                    assert!(eq32(id.as_bytes(), &want));
                }
                Err(_) => panic!("decoder said Ok, visitor failed"),
            }
            kani::cover!(len == 0, "empty text decodes");
            kani::cover!(len == 4, "4-char text decodes");
        }
        Oracle::BadInput => {
            assert!(parsed.is_err());
            assert!(decoded.is_err());
            match visited {
                Ok(_) => panic!("decoder said BadInput, visitor produced an id"),
                Err(e) => {
                    assert!(e == HErr::InvalidValue);
                }
            }
            kani::cover!(len == 3, "3-char text rejected");
        }
    }
}

/// Any other short text (0..=4 ASCII chars): FromStr, `Id::decode` and the human-readable
/// visitor all return exactly what the decoder says — the decoded id, or a clean error
/// (`ParseIdError`, serde `invalid_value`); no panic, no partially built id.
#[kani::proof]
#[kani::unwind(50)]
#[kani::stub(spideroak_base58::String32::encode, env::enc_model)]
#[kani::stub(spideroak_base58::String32::decode, env::dec_model)]
#[kani::stub(core::str::from_utf8, env::from_utf8_ascii)]
fn c46_other_text_clean() {
    let mut len = 0;
    while len <= 4 {
        other_text_case(len);
        len += 1;
    }
}

/// A human-readable format that hands the id visitor bytes or a sequence instead of a
/// string fails cleanly (serde's default `invalid_type`), and a binary format handing it
/// a string likewise: the two branches are not confused.
#[kani::proof]
#[kani::unwind(42)]
fn c46_flag_mismatch_clean() {
    let buf: [u8; 32] = kani::any();
    let (r, hint, _) = de_with(true, Input::Bytes(&buf));
    assert!(hint == Hint::Str);
    match r {
        Ok(_) => panic!("string visitor accepted raw bytes"),
        Err(e) => {
            assert!(e == HErr::InvalidType);
        }
    }
    let (r, _, _) = de_with(true, Input::Seq(&buf));
    match r {
        Ok(_) => panic!("string visitor accepted a sequence"),
        Err(e) => {
            assert!(e == HErr::InvalidType);
        }
    }
    let (r, hint, _) = de_with(false, Input::Str("11111111111111111111111111111111"));
    assert!(hint == Hint::Bytes);
    match r {
        Ok(_) => panic!("byte visitor accepted a string"),
        Err(e) => {
            assert!(e == HErr::InvalidType);
        }
    }
    kani::cover!(buf[3] == 9, "reached");
}
