// C46 — harness environment shared by the C46 harness files:
//  * a minimal serde `Serializer` / `Deserializer` pair whose human-readable flag is
//    chosen by the harness and which pass strings / bytes / sequences straight through
//    (serde_json's parser is out of solver reach; the flag and the visitor entry points
//    are all that `Id`'s impls look at);
//  * a cheap, invertible stand-in for the external crate `spideroak-base58`
//    (`String32::encode` / `String32::decode`), see `enc_model` / `dec_model`.
#![allow(dead_code)]

use core::fmt;

use serde::{
    de::{self, DeserializeSeed, IntoDeserializer, SeqAccess, Visitor},
    ser::{self, Impossible},
};
use spideroak_base58::{DecodeError, String32};

// ---------------------------------------------------------------------------
// error type
// ---------------------------------------------------------------------------

#[derive(Clone, Copy, PartialEq, Eq)]
pub enum HErr {
    Custom,
    InvalidValue,
    InvalidLength(usize),
    InvalidType,
    Other,
}
impl fmt::Debug for HErr {
    fn fmt(&self, _: &mut fmt::Formatter<'_>) -> fmt::Result {
        Ok(())
    }
}
impl fmt::Display for HErr {
    fn fmt(&self, _: &mut fmt::Formatter<'_>) -> fmt::Result {
        Ok(())
    }
}
impl core::error::Error for HErr {}
impl de::Error for HErr {
    fn custom<T: fmt::Display>(_: T) -> Self {
        HErr::Custom
    }
    fn invalid_value(_: de::Unexpected<'_>, _: &dyn de::Expected) -> Self {
        HErr::InvalidValue
    }
    fn invalid_length(len: usize, _: &dyn de::Expected) -> Self {
        HErr::InvalidLength(len)
    }
    fn invalid_type(_: de::Unexpected<'_>, _: &dyn de::Expected) -> Self {
        HErr::InvalidType
    }
}
impl ser::Error for HErr {
    fn custom<T: fmt::Display>(_: T) -> Self {
        HErr::Custom
    }
}

// ---------------------------------------------------------------------------
// Deserializer
// ---------------------------------------------------------------------------

/// What the "format" holds at the current position.
#[derive(Clone, Copy)]
pub enum Input<'a> {
    Str(&'a str),
    Bytes(&'a [u8]),
    Seq(&'a [u8]),
}

/// Which `deserialize_*` hint the value asked for.
#[derive(Clone, Copy, PartialEq, Eq)]
pub enum Hint {
    None,
    Str,
    Bytes,
    Other,
}

pub struct HDe<'a, 'h> {
    pub human: bool,
    pub input: Input<'a>,
    pub hint: &'h mut Hint,
    /// Elements left unread by `visit_seq` (so a format can detect trailing data).
    pub seq_left: &'h mut usize,
}

struct HSeq<'a, 'h> {
    rest: &'a [u8],
    left: &'h mut usize,
}
impl<'de, 'a, 'h> SeqAccess<'de> for HSeq<'a, 'h> {
    type Error = HErr;
    fn next_element_seed<T: DeserializeSeed<'de>>(&mut self, seed: T) -> Result<Option<T::Value>, HErr> {
        match self.rest.split_first() {
            None => Ok(None),
            Some((b, tail)) => {
                self.rest = tail;
                *self.left = tail.len();
                let d: de::value::U8Deserializer<HErr> = (*b).into_deserializer();
                seed.deserialize(d).map(Some)
            }
        }
    }
}

impl<'a, 'h> HDe<'a, 'h> {
    fn feed<'de, V: Visitor<'de>>(self, visitor: V) -> Result<V::Value, HErr> {
        match self.input {
            Input::Str(s) => visitor.visit_str(s),
            Input::Bytes(b) => visitor.visit_bytes(b),
            Input::Seq(b) => {
                *self.seq_left = b.len();
                visitor.visit_seq(HSeq {
                    rest: b,
                    left: self.seq_left,
                })
            }
        }
    }
}

macro_rules! other_hints {
    ($($m:ident)*) => {$(
        fn $m<V: Visitor<'de>>(self, visitor: V) -> Result<V::Value, HErr> {
            *self.hint = Hint::Other;
            self.feed(visitor)
        }
    )*};
}

impl<'de, 'a, 'h> de::Deserializer<'de> for HDe<'a, 'h> {
    type Error = HErr;

    fn is_human_readable(&self) -> bool {
        self.human
    }
    fn deserialize_str<V: Visitor<'de>>(self, visitor: V) -> Result<V::Value, HErr> {
        *self.hint = Hint::Str;
        self.feed(visitor)
    }
    fn deserialize_bytes<V: Visitor<'de>>(self, visitor: V) -> Result<V::Value, HErr> {
        *self.hint = Hint::Bytes;
        self.feed(visitor)
    }
    other_hints! {
        deserialize_any deserialize_bool deserialize_i8 deserialize_i16 deserialize_i32
        deserialize_i64 deserialize_u8 deserialize_u16 deserialize_u32 deserialize_u64
        deserialize_f32 deserialize_f64 deserialize_char deserialize_string
        deserialize_byte_buf deserialize_option deserialize_unit deserialize_seq
        deserialize_map deserialize_identifier deserialize_ignored_any
    }
    fn deserialize_unit_struct<V: Visitor<'de>>(self, _: &'static str, v: V) -> Result<V::Value, HErr> {
        *self.hint = Hint::Other;
        self.feed(v)
    }
    fn deserialize_newtype_struct<V: Visitor<'de>>(self, _: &'static str, v: V) -> Result<V::Value, HErr> {
        *self.hint = Hint::Other;
        self.feed(v)
    }
    fn deserialize_tuple<V: Visitor<'de>>(self, _: usize, v: V) -> Result<V::Value, HErr> {
        *self.hint = Hint::Other;
        self.feed(v)
    }
    fn deserialize_tuple_struct<V: Visitor<'de>>(
        self,
        _: &'static str,
        _: usize,
        v: V,
    ) -> Result<V::Value, HErr> {
        *self.hint = Hint::Other;
        self.feed(v)
    }
    fn deserialize_struct<V: Visitor<'de>>(
        self,
        _: &'static str,
        _: &'static [&'static str],
        v: V,
    ) -> Result<V::Value, HErr> {
        *self.hint = Hint::Other;
        self.feed(v)
    }
    fn deserialize_enum<V: Visitor<'de>>(
        self,
        _: &'static str,
        _: &'static [&'static str],
        v: V,
    ) -> Result<V::Value, HErr> {
        *self.hint = Hint::Other;
        self.feed(v)
    }
}

// ---------------------------------------------------------------------------
// Serializer
// ---------------------------------------------------------------------------

pub const OUT_CAP: usize = 48;

#[derive(Clone, Copy, PartialEq, Eq)]
pub enum OutKind {
    Str,
    Bytes,
}

/// What the value wrote into the "format".
#[derive(Clone, Copy)]
pub struct Out {
    pub kind: OutKind,
    pub buf: [u8; OUT_CAP],
    pub len: usize,
}
impl Out {
    fn of(kind: OutKind, b: &[u8]) -> Result<Out, HErr> {
        if b.len() > OUT_CAP {
            return Err(HErr::Other);
        }
        let mut buf = [0u8; OUT_CAP];
        let mut i = 0;
        while i < b.len() {
            buf[i] = b[i];
            i += 1;
        }
        Ok(Out {
            kind,
            buf,
            len: b.len(),
        })
    }
}

pub struct HSer {
    pub human: bool,
}

macro_rules! ser_unexpected {
    ($($m:ident($t:ty))*) => {$(
        fn $m(self, _: $t) -> Result<Out, HErr> {
            Err(HErr::Other)
        }
    )*};
}

impl ser::Serializer for HSer {
    type Ok = Out;
    type Error = HErr;
    type SerializeSeq = Impossible<Out, HErr>;
    type SerializeTuple = Impossible<Out, HErr>;
    type SerializeTupleStruct = Impossible<Out, HErr>;
    type SerializeTupleVariant = Impossible<Out, HErr>;
    type SerializeMap = Impossible<Out, HErr>;
    type SerializeStruct = Impossible<Out, HErr>;
    type SerializeStructVariant = Impossible<Out, HErr>;

    fn is_human_readable(&self) -> bool {
        self.human
    }
    fn serialize_str(self, v: &str) -> Result<Out, HErr> {
        Out::of(OutKind::Str, v.as_bytes())
    }
    fn serialize_bytes(self, v: &[u8]) -> Result<Out, HErr> {
        Out::of(OutKind::Bytes, v)
    }
    ser_unexpected! {
        serialize_bool(bool) serialize_i8(i8) serialize_i16(i16) serialize_i32(i32)
        serialize_i64(i64) serialize_u8(u8) serialize_u16(u16) serialize_u32(u32)
        serialize_u64(u64) serialize_f32(f32) serialize_f64(f64) serialize_char(char)
        serialize_unit_struct(&'static str)
    }
    fn serialize_none(self) -> Result<Out, HErr> {
        Err(HErr::Other)
    }
    fn serialize_some<T: ?Sized + ser::Serialize>(self, _: &T) -> Result<Out, HErr> {
        Err(HErr::Other)
    }
    fn serialize_unit(self) -> Result<Out, HErr> {
        Err(HErr::Other)
    }
    fn serialize_unit_variant(self, _: &'static str, _: u32, _: &'static str) -> Result<Out, HErr> {
        Err(HErr::Other)
    }
    fn serialize_newtype_struct<T: ?Sized + ser::Serialize>(
        self,
        _: &'static str,
        _: &T,
    ) -> Result<Out, HErr> {
        Err(HErr::Other)
    }
    fn serialize_newtype_variant<T: ?Sized + ser::Serialize>(
        self,
        _: &'static str,
        _: u32,
        _: &'static str,
        _: &T,
    ) -> Result<Out, HErr> {
        Err(HErr::Other)
    }
    fn serialize_seq(self, _: Option<usize>) -> Result<Self::SerializeSeq, HErr> {
        Err(HErr::Other)
    }
    fn serialize_tuple(self, _: usize) -> Result<Self::SerializeTuple, HErr> {
        Err(HErr::Other)
    }
    fn serialize_tuple_struct(self, _: &'static str, _: usize) -> Result<Self::SerializeTupleStruct, HErr> {
        Err(HErr::Other)
    }
    fn serialize_tuple_variant(
        self,
        _: &'static str,
        _: u32,
        _: &'static str,
        _: usize,
    ) -> Result<Self::SerializeTupleVariant, HErr> {
        Err(HErr::Other)
    }
    fn serialize_map(self, _: Option<usize>) -> Result<Self::SerializeMap, HErr> {
        Err(HErr::Other)
    }
    fn serialize_struct(self, _: &'static str, _: usize) -> Result<Self::SerializeStruct, HErr> {
        Err(HErr::Other)
    }
    fn serialize_struct_variant(
        self,
        _: &'static str,
        _: u32,
        _: &'static str,
        _: usize,
    ) -> Result<Self::SerializeStructVariant, HErr> {
        Err(HErr::Other)
    }
    fn collect_str<T: ?Sized + fmt::Display>(self, _: &T) -> Result<Out, HErr> {
        Err(HErr::Other)
    }
}

// ---------------------------------------------------------------------------
// fmt sink (collects Display / Debug output without allocating)
// ---------------------------------------------------------------------------

pub const SINK_CAP: usize = 64;

pub struct Sink {
    pub buf: [u8; SINK_CAP],
    pub n: usize,
}
impl Sink {
    pub fn new() -> Self {
        Sink {
            buf: [0; SINK_CAP],
            n: 0,
        }
    }
}
impl fmt::Write for Sink {
    fn write_str(&mut self, s: &str) -> fmt::Result {
        let b = s.as_bytes();
        if self.n + b.len() > SINK_CAP {
            return Err(fmt::Error);
        }
        let mut i = 0;
        while i < b.len() {
            self.buf[self.n + i] = b[i];
            i += 1;
        }
        self.n += b.len();
        Ok(())
    }
}

// ---------------------------------------------------------------------------
// stand-in for spideroak-base58 (external crate, trusted)
// ---------------------------------------------------------------------------
//
// The real `String32::encode` / `String32::decode` are 256-bit radix conversions
// (128-bit multiply-by-reciprocal), measured out of reach for CBMC. They are
// replaced (kani::stub) by a pair with the one property the in-repo glue relies on:
//
//     dec_model(enc_model(b).as_bytes()) == Ok(b)          for every b: [u8; 32]
//
// enc_model writes the 256 bits as 43 sextets, one ASCII char `0x30 + sextet`
// each, after a leading 'x' (44 chars, the real B58_SIZE, NUL terminated like the
// real buffer). dec_model inverts exactly that shape; for every other input its
// result is the harness-chosen `ORACLE` (arbitrary but fixed per run), so nothing
// is assumed about how the real decoder treats other text.

pub const TXT: usize = 44;

#[derive(Clone, Copy)]
pub enum Oracle {
    Ok([u8; 32]),
    BadInput,
}

pub static mut ORACLE: Oracle = Oracle::BadInput;

fn bit(b: &[u8; 32], i: usize) -> u8 {
    if i >= 256 { 0 } else { (b[i / 8] >> (i % 8)) & 1 }
}

/// The 44 text bytes of the model encoding.
pub fn model_text(b: &[u8; 32]) -> [u8; TXT] {
    let mut out = [0u8; TXT];
    out[0] = b'x';
    let mut k = 0;
    while k < 43 {
        let mut v = 0u8;
        let mut j = 0;
        while j < 6 {
            v |= bit(b, 6 * k + j) << j;
            j += 1;
        }
        out[1 + k] = 0x30 + v;
        k += 1;
    }
    out
}

pub fn enc_model(b: &[u8; 32]) -> String32 {
    let t = model_text(b);
    let mut data = [0u8; TXT + 1];
    let mut i = 0;
    while i < TXT {
        data[i] = t[i];
        i += 1;
    }
    // SAFETY (harness only): `String32` is a single-field struct `{ data: [u8; 45] }`
    // (44 text bytes + NUL); the external crate offers no constructor that does not go
    // through its radix arithmetic. Sizes are checked by `transmute` at compile time.
    unsafe { core::mem::transmute::<[u8; TXT + 1], String32>(data) }
}

pub fn dec_model<T: AsRef<[u8]>>(s: T) -> Result<[u8; 32], DecodeError> {
    let s = s.as_ref();
    let mut shaped = s.len() == TXT;
    if shaped {
        shaped = s[0] == b'x';
        let mut k = 0;
        while k < 43 {
            let c = s[1 + k];
            if (c < 0x30) | (c >= 0x70) {
                shaped = false;
            }
            k += 1;
        }
        // the last sextet carries only 4 bits
        if shaped {
            shaped = (s[43] - 0x30) < 16;
        }
    }
    if shaped {
        let mut out = [0u8; 32];
        let mut i = 0;
        while i < 32 {
            let mut j = 0;
            while j < 8 {
                let k = 8 * i + j;
                let v = s[1 + k / 6] - 0x30;
                out[i] |= ((v >> (k % 6)) & 1) << j;
                j += 1;
            }
            i += 1;
        }
        Ok(out)
    } else {
        // SAFETY: single-threaded harness; ORACLE is written once before use.
        match unsafe { ORACLE } {
            Oracle::Ok(b) => Ok(b),
            Oracle::BadInput => Err(DecodeError::BadInput),
        }
    }
}

/// `core::str::from_utf8` restricted to ASCII: checks (asserts) that the input is ASCII,
/// for which the real function returns exactly this. Keeps the word-at-a-time UTF-8
/// validator of `core` (not the subject here) out of the formula.
pub fn from_utf8_ascii(v: &[u8]) -> Result<&str, core::str::Utf8Error> {
    let mut i = 0;
    while i < v.len() {
        assert!(v[i] < 0x80, "from_utf8 stand-in used on non-ASCII input");
        i += 1;
    }
    // SAFETY: all bytes are ASCII (asserted above).
    Ok(unsafe { core::str::from_utf8_unchecked(v) })
}
