// C46 — binary serde of Id through the real postcard format.
// Appended to aranya-runtime's lib.rs (nearest crate depending on postcard); uses only
// the public API of aranya-id (re-exported by aranya-crypto).
use aranya_crypto::BaseId;

fn eq32(a: &[u8], b: &[u8]) -> bool {
    if (a.len() != 32) | (b.len() != 32) {
        return false;
    }
    let mut i = 0;
    while i < 32 {
        if a[i] != b[i] {
            return false;
        }
        i += 1;
    }
    true
}

/// Every id (32 symbolic bytes) -> postcard -> the same id; the wire form is the
/// length byte 32 followed by the raw bytes.
#[kani::proof]
#[kani::unwind(42)]
fn c46_postcard_roundtrip() {
    let b: [u8; 32] = kani::any();
    let id = BaseId::from_bytes(b);
    let mut out = [0u8; 40];
    let n = match postcard::to_slice(&id, &mut out) {
        Ok(used) => used.len(),
        Err(_) => panic!("postcard serialize failed"),
    };
    assert!(n == 33);
    assert!(out[0] == 32);
    assert!(eq32(&out[1..33], &b));
    let back: Result<BaseId, postcard::Error> = postcard::from_bytes(&out[..n]);
    match back {
        Ok(x) => {
            assert!(x == id);
            assert!(eq32(x.as_bytes(), &b));
        }
        Err(_) => panic!("postcard round trip failed"),
    }
    kani::cover!((b[0] == 1) & (b[31] == 2), "some id");
}

/// postcard byte strings of every length 0..=40 (symbolic length and content):
/// only length 32 decodes, to exactly those bytes.
#[kani::proof]
#[kani::unwind(42)]
fn c46_postcard_any_len() {
    let mut buf: [u8; 41] = kani::any();
    let len: usize = kani::any();
    kani::assume(len <= 40);
    buf[0] = len as u8;
    let r: Result<BaseId, postcard::Error> = postcard::from_bytes(&buf[..1 + len]);
    match r {
        Ok(id) => {
            assert!(len == 32);
            assert!(eq32(id.as_bytes(), &buf[1..33]));
            kani::cover!(buf[5] == 5, "32 bytes decode");
        }
        Err(_) => {
            assert!(len != 32);
            kani::cover!(len == 0, "empty rejected");
            kani::cover!(len == 31, "31 rejected");
            kani::cover!(len == 33, "33 rejected");
            kani::cover!(len == 40, "40 rejected");
        }
    }
}
