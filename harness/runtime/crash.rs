// C15 — crash consistency of the two-slot root + append-only data file (libc linear storage).
// Child module of aranya_runtime::storage::linear::libc::imp (sees Writer/Root/File privates).
// Group `runtime_crash` (checks/groups.d/C15.json): imp.rs's `libc::` calls reach the byte-array
// file of harness/runtime/vfile.rs through an import rewrite of the scratch copy.
//
// Shape of every harness:
//   1. run a CONCRETE multi-commit workload through the REAL Writer::{create, append_at, commit}
//      (and, for the restart harnesses, the real Writer::open) on the model file; every
//      fallocate/pwrite/fsync/fdatasync is recorded in program order.  Nothing is symbolic yet:
//      symbolic execution just runs the code and the trace is a table of constants;
//   2. choose a SYMBOLIC crash point `n` (number of recorded calls that completed) and a SYMBOLIC
//      fate for every write that no completed fsync/fdatasync covers: lost, whole, first `cut`
//      bytes only, or all but the first `cut` bytes (`cut` symbolic); build the crash image;
//   3. run the REAL Writer::open (File::load, postcard decode, Root::validate incl. SipHash on the
//      symbolic bytes, generation comparison, slot choice) on the crash image and assert:
//        - open fails only if no commit had returned;
//        - otherwise the recovered (heads offset, fact-cache offset) are those of the last commit
//          that returned or of the commit that was in progress;
//        - every byte below that commit's write frontier is on the disk, unchanged;
//        - the recovered frontier is exactly that commit's end (later appends are unreachable and
//          get overwritten), and the next commit targets the other root slot.
//
// Two #[kani::stub]s are needed (so Kani's concrete playback is not available; the failing crash
// scenario has to be read from the CBMC trace and can be replayed by hand against the same model,
// which is plain Rust and also compiles natively):
//   - <StorageError as From<buggy::Bug>>::from -> panic (dead code under Kani, see no_bug_values);
//   - aranya_libc::sys::unix::close -> Ok(()) (drop of the model's fake descriptor).
use super::*;
use crate::{
    __vfile::{self as vf, Img},
    CmdId, MaxCut, SegmentIndex,
    storage::LocatedAddress,
};

fn head(id: u8) -> HeadSet {
    let mut bytes = [0u8; 32];
    bytes[0] = id;
    bytes[31] = id ^ 0x5a;
    HeadSet::single(LocatedAddress {
        id: CmdId::from_bytes(bytes),
        segment: SegmentIndex::new(id as u64),
        max_cut: MaxCut::new(2 * id as u64 + 1),
    })
}

/// What the harness knows about one commit of the workload, observed at the moment it returned.
#[derive(Clone, Copy)]
struct Commit {
    /// Number of recorded calls when the commit returned: the commit has returned iff `n >= mark`.
    mark: usize,
    /// Offset of the head-set record, as reported by the public `Write::heads_offset`.
    heads: u64,
    /// The fact-cache offset handed to `commit` (the offset of an earlier append, or 0).
    fact_cache: u64,
    /// End of the last data record written before the commit returned (from the trace).
    end: i64,
    /// Root slot (ROOT_A / ROOT_B) the commit wrote its root to (from the trace).
    slot: i64,
}

const NO_COMMIT: Commit = Commit {
    mark: 0,
    heads: 0,
    fact_cache: 0,
    end: 0,
    slot: 0,
};

/// Slot of the most recent root write in the trace.
fn last_root_slot() -> i64 {
    let fs = vf::fs();
    let mut slot = 0i64;
    let mut j = 0;
    while j < fs.n {
        let ev = &fs.trace[j];
        if ev.kind == vf::K_WRITE && (ev.off == vf::ROOT_A || ev.off == vf::ROOT_B) {
            slot = ev.off;
        }
        j += 1;
    }
    slot
}

/// End offset of the data written so far (max end of recorded writes into the data region).
fn data_end() -> i64 {
    let fs = vf::fs();
    let mut end = vf::DATA;
    let mut j = 0;
    while j < fs.n {
        let ev = &fs.trace[j];
        if ev.kind == vf::K_WRITE && ev.off >= vf::DATA {
            let e = ev.off + ev.len as i64;
            if e > end {
                end = e;
            }
        }
        j += 1;
    }
    end
}

fn do_commit(w: &mut Writer, id: u8, fact_cache: u64) -> Commit {
    let hs = head(id);
    match w.commit(&hs, FactCacheOffset::new(fact_cache)) {
        Ok(()) => {}
        Err(_) => panic!("commit failed on the fault-free file model"),
    }
    let ho = match w.heads_offset() {
        Ok(o) => o,
        Err(_) => panic!("heads_offset after commit"),
    };
    let HeadSetOffset(heads) = ho;
    Commit {
        mark: vf::fs().n,
        heads,
        fact_cache,
        end: data_end(),
        slot: last_root_slot(),
    }
}

fn do_append(w: &mut Writer, v: u64) -> u64 {
    match w.append_at(|_| v) {
        Ok((_, off)) => off,
        Err(_) => panic!("append failed on the fault-free file model"),
    }
}

/// Protocol shape that the crash model relies on / that the property names as mechanism:
/// every fallocate is directly followed by a full fsync.
fn assert_falloc_fsync() {
    let fs = vf::fs();
    let mut j = 0;
    while j < fs.n {
        if fs.trace[j].kind == vf::K_FALLOC {
            assert!(j + 1 < fs.n && fs.trace[j + 1].kind == vf::K_FSYNC);
        }
        j += 1;
    }
}

/// Symbolic fate of one recorded call if it is not covered by a completed sync.
#[derive(Clone, Copy)]
struct Fate {
    /// 0 lost, 1 whole, 2 only bytes [0, cut) reach the disk, 3 only bytes [cut, len).
    kind: u8,
    cut: usize,
}

/// The disk image after a crash that happens when exactly `n` recorded calls have completed.
/// `t` is the (concrete) trace length.
fn crash_image(n: usize, fates: &[Fate; vf::MAXT]) -> Img {
    let fs = vf::fs();
    let t = fs.n;
    // Calls with index < sync are covered by a completed fsync/fdatasync; index < fsync by a
    // completed full fsync.
    let mut sync = 0usize;
    let mut fsync = 0usize;
    let mut j = 0;
    while j < t {
        let k = fs.trace[j].kind;
        if j < n {
            if k == vf::K_FSYNC {
                sync = j;
                fsync = j;
            } else if k == vf::K_FDATASYNC {
                sync = j;
            }
        }
        j += 1;
    }
    let mut img = fs.base;
    // Constant lower bound of the crash image's size (see Img::size_lo): the size at the start
    // of the run, or, for a run that starts with `create` on an empty file, the size established
    // by create's fallocate + fsync (the callers assume n >= 2 in that case).
    if (img.size == 0) & (t >= 2) {
        if (fs.trace[0].kind == vf::K_FALLOC) & (fs.trace[1].kind == vf::K_FSYNC) {
            img.size_lo = fs.trace[0].off;
        }
    }
    j = 0;
    while j < t {
        let ev = &fs.trace[j];
        let f = fates[j];
        if j < n {
            if ev.kind == vf::K_FALLOC {
                // Size/extent metadata: durable after a full fsync, otherwise it may or may not
                // have reached the disk.
                if (j < fsync) | (f.kind != 0) {
                    if ev.off > img.size {
                        img.size = ev.off;
                    }
                }
            } else if ev.kind == vf::K_WRITE {
                let flushed = j < sync;
                let mut k = 0usize;
                while k < ev.len {
                    let keep = flushed
                        | (f.kind == 1)
                        | ((f.kind == 2) & (k < f.cut))
                        | ((f.kind == 3) & (k >= f.cut));
                    if keep {
                        let _ = img.set(ev.off + k as i64, ev.data[k]);
                    }
                    k += 1;
                }
            }
        }
        j += 1;
    }
    img
}

fn any_fates() -> [Fate; vf::MAXT] {
    let mut fates = [Fate { kind: 0, cut: 0 }; vf::MAXT];
    let t = vf::fs().n;
    let mut j = 0;
    while j < t {
        if vf::fs().trace[j].kind == vf::K_WRITE || vf::fs().trace[j].kind == vf::K_FALLOC {
            let kind: u8 = kani::any();
            let cut: u8 = kani::any();
            kani::assume(kind <= 3);
            kani::assume((cut as usize) <= vf::fs().trace[j].len);
            fates[j] = Fate {
                kind,
                cut: cut as usize,
            };
        }
        j += 1;
    }
    fates
}

/// The values that the 4-byte big-endian length prefix at `slot` can hold in any crash image:
/// what the run started with, and every value the run wrote there (from the trace; concrete).
fn len_candidates(slot: i64) -> ([u32; 4], usize) {
    let fs = vf::fs();
    let mut cand = [0u32; 4];
    let mut cn = 0usize;
    let b = &fs.base;
    cand[cn] = u32::from_be_bytes([b.get(slot), b.get(slot + 1), b.get(slot + 2), b.get(slot + 3)]);
    cn += 1;
    let mut j = 0;
    while j < fs.n {
        let ev = &fs.trace[j];
        if (ev.kind == vf::K_WRITE) && (ev.off == slot) {
            // The writer stores the prefix with a pwrite of its own.
            assert!(ev.len == 4);
            let v = u32::from_be_bytes([ev.data[0], ev.data[1], ev.data[2], ev.data[3]]);
            let mut seen = false;
            let mut q = 0;
            while q < cn {
                if cand[q] == v {
                    seen = true;
                }
                q += 1;
            }
            if !seen {
                assert!(cn < 4);
                cand[cn] = v;
                cn += 1;
            }
        }
        j += 1;
    }
    (cand, cn)
}

fn slot_len(img: &Img, slot: i64) -> u32 {
    u32::from_be_bytes([img.get(slot), img.get(slot + 1), img.get(slot + 2), img.get(slot + 3)])
}

fn set_slot_len(img: &mut Img, slot: i64, v: u32) {
    let b = v.to_be_bytes();
    let mut q = 0;
    while q < 4 {
        let _ = img.set(slot + q as i64, b[q]);
        q += 1;
    }
}

/// Per-harness variant of the checks (monomorphised, so that the vacuity witnesses of a variant
/// exist only in the harnesses that can reach them).
trait Mode {
    /// Additional checks on the reopened writer; `early` = recovered commit 1 before it returned.
    fn reopened(w: &Writer, early: bool);
    /// `Writer::open` failed (allowed only when no commit had returned: asserted by the caller).
    fn failed();
}

/// Runs that start with `create` on an empty file.
struct Scratch;
impl Mode for Scratch {
    fn reopened(_w: &Writer, early: bool) {
        kani::cover!(early, "first commit recovered although it had not returned");
    }
    fn failed() {
        kani::cover!(true, "crash inside the first commit: open fails");
    }
}

/// Runs that start from a disk image holding at least one returned commit.
struct Restarted;
impl Mode for Restarted {
    fn reopened(_w: &Writer, _early: bool) {}
    fn failed() {}
}

/// `Scratch` + re-load both slots with the real `File::load` + `Root::validate`: the recovered
/// root is the content of the slot that the next commit will not overwrite, and its generation is
/// strictly greater than the other slot's (if that one holds a valid root at all).
struct ScratchSlots;
impl Mode for ScratchSlots {
    fn reopened(w: &Writer, early: bool) {
        Scratch::reopened(w, early);
        let ra = w.file.load::<Root>(ROOT_A).and_then(Root::validate);
        let rb = w.file.load::<Root>(ROOT_B).and_then(Root::validate);
        let (live, other) = if w.next_root == ROOT_B { (ra, rb) } else { (rb, ra) };
        match live {
            Ok(lv) => {
                assert!(lv.generation == w.root.generation);
                assert!(lv.heads == w.root.heads);
                assert!(lv.fact_cache == w.root.fact_cache);
                assert!(lv.free_offset == w.root.free_offset);
            }
            Err(_) => assert!(false),
        }
        match other {
            Ok(o) => {
                assert!(o.generation < w.root.generation);
                kani::cover!(true, "both slots valid after the crash");
            }
            Err(_) => {
                kani::cover!(true, "other slot invalid after the crash");
            }
        }
    }
    fn failed() {
        Scratch::failed();
    }
}

/// Reopen on the crash image with the real `Writer::open` and decide the property.
/// `c[0]` is the "no commit" entry; `c[1..=k]` are the workload's commits in order.
fn reopen_and_check<E: Mode>(n: usize, c: &[Commit; 4], k: usize) {
    let ghost: Img = vf::fs().vol; // final volatile image of the crash-free run
    assert!(!vf::fs().out_of_model);
    assert_falloc_fsync();
    kani::assume(n <= vf::fs().n);
    // Crashes before create's fallocate + fsync completed: c15_crash_during_create.
    kani::assume((vf::fs().base.size > 0) | (n >= 2));
    let fates = any_fates();
    let img = crash_image(n, &fates);
    assert!(img.size_lo <= img.size);
    assert!(img.size_lo > 0);

    // Last commit that had returned when the crash happened (0 = none).
    let mut lr = 0usize;
    let mut i = 1;
    while i <= k {
        if c[i].mark <= n {
            lr = i;
        }
        i += 1;
    }

    // Case split on the two length prefixes.  In the crash image they are symbolic mixes of a
    // few known values; `File::load` allocates and reads `len` bytes, and a symbolic `len` sends
    // symbolic execution through the allocator and through `read_exact`'s retry loop up to the
    // unwinding bound.  The split is exhaustive (asserted below), each case runs the real open on
    // the same symbolic image with the prefix bytes replaced by the equal constants.
    let (ca, na) = len_candidates(vf::ROOT_A);
    let (cb, nb) = len_candidates(vf::ROOT_B);
    let la = slot_len(&img, vf::ROOT_A);
    let lb = slot_len(&img, vf::ROOT_B);
    let mut matched = false;
    let mut ia = 0;
    while ia < na {
        let mut ib = 0;
        while ib < nb {
            if (la == ca[ia]) & (lb == cb[ib]) {
                matched = true;
                let mut im = img;
                set_slot_len(&mut im, vf::ROOT_A, ca[ia]);
                set_slot_len(&mut im, vf::ROOT_B, cb[ib]);
                vf::fs().vol = im;
                check_open::<E>(&im, &ghost, n, c, k, lr);
            }
            ib += 1;
        }
        ia += 1;
    }
    assert!(matched);
    // No call left the file model (see vfile.rs: writes outside the windows, reads crossing EOF).
    assert!(!vf::fs().out_of_model);
}

fn check_open<E: Mode>(img: &Img, ghost: &Img, n: usize, c: &[Commit; 4], k: usize, lr: usize) {
    let r = Writer::open(vf::fake_fd());
    match r {
        Err(_) => {
            // open may fail only if no commit had returned
            assert!(lr == 0);
            E::failed();
        }
        Ok(w) => {
            // Which commit was recovered?  (heads offsets are pairwise distinct.)
            let mut got = 0usize;
            let mut i = 1;
            while i <= k {
                if (w.root.heads == Some(c[i].heads)) & (w.root.fact_cache == Some(c[i].fact_cache)) {
                    got = i;
                }
                i += 1;
            }
            // ... the last returned commit or the one in progress, nothing else.
            assert!(got >= 1);
            assert!((got == lr) | (got == lr + 1));
            // The public accessors report it.
            match w.heads_offset() {
                Ok(o) => assert!(o == HeadSetOffset::new(c[got].heads)),
                Err(_) => assert!(false),
            }
            match w.fact_cache() {
                Ok(o) => assert!(o.get() == c[got].fact_cache),
                Err(_) => assert!(false),
            }
            // Everything reachable from the recovered root lies below the recovered write
            // frontier, inside the file, and is on the disk with the bytes that were written
            // (`File::load` is a function of those bytes, so it returns what it returned before
            // the crash).
            assert!((c[got].heads as i64) < c[got].end);
            assert!((c[got].fact_cache as i64) < c[got].end);
            assert!(w.root.free_offset >= c[got].end);
            assert!(w.root.free_offset <= img.size);
            let x: usize = kani::any();
            kani::assume(x < vf::WD);
            kani::assume((x as i64) < c[got].end - vf::DATA);
            assert!(img.data(x) == ghost.data(x));
            // Data appended after the recovered commit is not visible: the frontier is exactly
            // the end of that commit's last record, so later records are unreferenced and are
            // overwritten by the next append.
            assert!(w.root.free_offset == c[got].end);
            assert!(!w.data_dirty);
            assert!((w.next_root == ROOT_A) | (w.next_root == ROOT_B));

            // The next commit goes to the other slot: it cannot damage the recovered root.
            assert!(w.next_root == other_root(c[got].slot));
            E::reopened(&w, (got == 1) & (lr == 0));

            kani::cover!((got == lr) & (lr >= 1), "recovered the last returned commit");
            kani::cover!((got == lr + 1), "recovered the commit in progress");
            kani::cover!((got == lr) & (lr >= 1) & (n > c[lr].mark), "later commit in progress was discarded");
            kani::cover!(n == vf::fs().n, "no crash until the end of the workload");
            core::mem::forget(w);
        }
    }
}

/// Under Kani `buggy::Bug::new` panics (debug assertions), so no `Bug` value ever exists and
/// this conversion is dead code.  Why it has to be cut: `File::write_all` / `read_exact` end with
/// `buf.get(n..)` where `n == buf.len()`, a one-past-the-end pointer; CBMC's simplifier does not
/// fold "that pointer != NULL", so for symbolic execution the niche test of the
/// `Result<&[u8], Bug>` produced by `.assume(..)` is undecided, the (infeasible) `Err(Bug)` return
/// is carried along and merged as an if-then-else into every later value (offsets, lengths, loop
/// bounds stop being constants; measured: 3 GB and no end in the first commit).  Panicking here
/// aborts that path before it merges.
fn no_bug_values(_b: buggy::Bug) -> StorageError {
    panic!("a buggy::Bug value exists under Kani")
}

/// `OwnedFd::drop` calls close(2) on the model's fake descriptor when `Writer::open` fails.
fn close_nop(_fd: core::ffi::c_int) -> Result<(), Errno> {
    Ok(())
}

fn fresh_writer() -> Writer {
    match Writer::create(vf::fake_fd()) {
        Ok(w) => w,
        Err(_) => panic!("create failed on the fault-free file model"),
    }
}

fn reopen_clean() -> Writer {
    // Clean restart: the volatile image is what the disk holds (everything was flushed by the
    // last commit; asserted by the caller through the trace).
    match Writer::open(vf::fake_fd()) {
        Ok(w) => w,
        Err(_) => panic!("open failed on a cleanly closed file"),
    }
}

/// create; commit1; append; commit2; append; commit3 — crash anywhere.
/// Commit 3 overwrites the slot that holds commit 1's valid root while commit 2's root is live in
/// the other slot: torn mixes of two valid roots.
#[kani::proof]
#[kani::unwind(50)]
#[kani::stub(<StorageError as core::convert::From<buggy::Bug>>::from, no_bug_values)]
#[kani::stub(aranya_libc::sys::unix::close, close_nop)]
fn c15_crash_three_commits() {
    let mut c = [NO_COMMIT; 4];
    let mut w = fresh_writer();
    let a0 = do_append(&mut w, 5);
    c[1] = do_commit(&mut w, 1, a0);
    let a = do_append(&mut w, 7);
    c[2] = do_commit(&mut w, 2, a);
    let _ = do_append(&mut w, 9);
    let b = do_append(&mut w, 300);
    c[3] = do_commit(&mut w, 3, b);
    core::mem::forget(w);
    let n: usize = kani::any();
    reopen_and_check::<Scratch>(n, &c, 3);
}

/// create; commit1; append; commit2; clean restart (real open); append; commit3; uncommitted
/// append — crash anywhere in the second run.  Decides that a reopened writer continues the
/// ping-pong (its first commit must not overwrite the root it was opened from) and continues the
/// generation sequence.
#[kani::proof]
#[kani::unwind(50)]
#[kani::stub(<StorageError as core::convert::From<buggy::Bug>>::from, no_bug_values)]
#[kani::stub(aranya_libc::sys::unix::close, close_nop)]
fn c15_crash_after_reopen() {
    let mut c = [NO_COMMIT; 4];
    let mut w = fresh_writer();
    c[1] = do_commit(&mut w, 1, 0);
    let a = do_append(&mut w, 7);
    c[2] = do_commit(&mut w, 2, a);
    core::mem::forget(w);
    // Clean shutdown: the last recorded call is the fdatasync of commit 2, so the disk holds
    // exactly the volatile image.  The second run starts from it with an empty trace.
    assert!(vf::fs().trace[vf::fs().n - 1].kind == vf::K_FDATASYNC);
    assert_falloc_fsync();
    let disk = vf::fs().vol;
    vf::restart_from(disk);
    c[1].mark = 0;
    c[2].mark = 0;
    let mut w = reopen_clean();
    assert!(w.root.heads == Some(c[2].heads));
    let b = do_append(&mut w, 9);
    c[3] = do_commit(&mut w, 3, b);
    let _ = do_append(&mut w, 11);
    core::mem::forget(w);
    let n: usize = kani::any();
    reopen_and_check::<Restarted>(n, &c, 3);
}

/// create; commit1; clean restart (real open); commit2 WITHOUT any append in between — crash
/// anywhere in the second run.  After `open`, `alloc_end == free_offset`, so the head-set record
/// of commit 2 is the write that makes `ensure_capacity` grow the file (fallocate + fsync) before
/// the record is written: barrier 1 must still flush that record before the root is written.
#[kani::proof]
#[kani::unwind(50)]
#[kani::stub(<StorageError as core::convert::From<buggy::Bug>>::from, no_bug_values)]
#[kani::stub(aranya_libc::sys::unix::close, close_nop)]
fn c15_crash_heads_only_commit_after_reopen() {
    let mut c = [NO_COMMIT; 4];
    let mut w = fresh_writer();
    let a = do_append(&mut w, 7);
    c[1] = do_commit(&mut w, 1, a);
    core::mem::forget(w);
    // Clean shutdown: the last recorded call is the fdatasync of commit 1.
    assert!(vf::fs().trace[vf::fs().n - 1].kind == vf::K_FDATASYNC);
    assert_falloc_fsync();
    let disk = vf::fs().vol;
    vf::restart_from(disk);
    c[1].mark = 0;
    let mut w = reopen_clean();
    assert!(w.root.heads == Some(c[1].heads));
    c[2] = do_commit(&mut w, 2, a);
    core::mem::forget(w);
    // The commit's own append grew the file: fallocate, fsync, then the record.
    assert!(vf::fs().trace[0].kind == vf::K_FALLOC);
    let n: usize = kani::any();
    reopen_and_check::<Restarted>(n, &c, 2);
}

/// create; commit1; commit2 whose root write is torn (concrete cut) and the process dies;
/// restart (real open: falls back to commit 1, the torn slot is the one to be rewritten);
/// append; commit3 — crash anywhere in the second run.
#[kani::proof]
#[kani::unwind(50)]
#[kani::stub(<StorageError as core::convert::From<buggy::Bug>>::from, no_bug_values)]
#[kani::stub(aranya_libc::sys::unix::close, close_nop)]
fn c15_crash_after_torn_recovery() {
    let mut c = [NO_COMMIT; 4];
    let mut w = fresh_writer();
    c[1] = do_commit(&mut w, 1, 0);
    let a = do_append(&mut w, 7);
    let before = vf::fs().n;
    c[2] = do_commit(&mut w, 2, a);
    core::mem::forget(w);
    // First crash (concrete): everything of commit 2 completed except that of the root body
    // only the first 9 bytes reached the disk and the final fdatasync never ran.
    // commit = pwrite len, pwrite heads, fdatasync, pwrite len, pwrite root, fdatasync
    assert!(vf::fs().n == before + 6);
    let n1 = before + 5;
    let mut fates = [Fate { kind: 1, cut: 0 }; vf::MAXT];
    fates[before + 4] = Fate { kind: 2, cut: 9 };
    let img1 = crash_image(n1, &fates);
    // The second run starts from that disk image; calls recorded so far are history: the trace
    // restarts with the image as its durable base.
    vf::restart_from(img1);
    c[1].mark = 0; // commit 1 returned in the first run
    let mut w = reopen_clean();
    // Commit 2 never returned and its root did not survive: the writer is back at commit 1 and
    // will rewrite the torn slot.
    assert!(w.root.heads == Some(c[1].heads));
    assert!(w.next_root == c[2].slot);
    let b = do_append(&mut w, 9);
    c[2] = do_commit(&mut w, 3, b);
    core::mem::forget(w);
    let n: usize = kani::any();
    reopen_and_check::<Restarted>(n, &c, 2);
}

/// Crash before create's fallocate + fsync completed: the file is empty or preallocated and
/// zero-filled; no commit has returned, and reopening reports an error.
#[kani::proof]
#[kani::unwind(50)]
#[kani::stub(<StorageError as core::convert::From<buggy::Bug>>::from, no_bug_values)]
#[kani::stub(aranya_libc::sys::unix::close, close_nop)]
fn c15_crash_during_create() {
    let w = fresh_writer();
    core::mem::forget(w);
    assert!(vf::fs().n == 2);
    assert_falloc_fsync();
    let full = vf::fs().vol.size;
    // Did the unflushed preallocation reach the disk?  Two concrete cases (a symbolic file size
    // would make every read's outcome symbolic for no gain).
    let mut case = 0;
    while case < 2 {
        let kept = case == 1;
        let mut img = Img::empty();
        if kept {
            img.size = full;
            img.size_lo = full;
        }
        vf::restart_from(img);
        match Writer::open(vf::fake_fd()) {
            Ok(w) => {
                core::mem::forget(w);
                assert!(false);
            }
            Err(_) => {
                kani::cover!(kept, "preallocated, no root: open fails");
                kani::cover!(!kept, "empty file: open fails");
            }
        }
        case += 1;
    }
}

/// create; commit1; append; commit2 — crash anywhere.
#[kani::proof]
#[kani::unwind(50)]
#[kani::stub(<StorageError as core::convert::From<buggy::Bug>>::from, no_bug_values)]
#[kani::stub(aranya_libc::sys::unix::close, close_nop)]
fn c15_crash_two_commits() {
    let mut c = [NO_COMMIT; 4];
    let mut w = fresh_writer();
    c[1] = do_commit(&mut w, 1, 0);
    let a = do_append(&mut w, 7);
    c[2] = do_commit(&mut w, 2, a);
    core::mem::forget(w);
    let n: usize = kani::any();
    reopen_and_check::<Scratch>(n, &c, 2);
}

/// As c15_crash_two_commits, plus the slot/generation relation decided by re-loading both slots.
#[kani::proof]
#[kani::unwind(50)]
#[kani::stub(<StorageError as core::convert::From<buggy::Bug>>::from, no_bug_values)]
#[kani::stub(aranya_libc::sys::unix::close, close_nop)]
fn c15_crash_two_commits_slots() {
    let mut c = [NO_COMMIT; 4];
    let mut w = fresh_writer();
    c[1] = do_commit(&mut w, 1, 0);
    let a = do_append(&mut w, 7);
    c[2] = do_commit(&mut w, 2, a);
    core::mem::forget(w);
    let n: usize = kani::any();
    reopen_and_check::<ScratchSlots>(n, &c, 2);
}
