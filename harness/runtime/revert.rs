// C13 — "Reverting to a checkpoint is exact", graph perspective (LinearPerspective).
// Group `runtime_vmap` (std BTreeMap replaced by the slab map of vmap.rs, see there).
// Child module of aranya_runtime::storage::linear (sees the private fields of
// LinearPerspective / LinearFactPerspective / FactPerspectivePrior / CommandData and Keys).
//
// METHOD: inductive steps from ARBITRARY pre-states built field by field (HARNESS_GUIDE rule 1).
//
//   state of a perspective  = (commands[i].{id, updates}, current_updates, facts.map, facts.prior)
//   invariant Inv           : the facts visible through `facts` equal  base ; U
//                             where U = commands[0].updates ++ .. ++ current_updates applied in
//                             order as a flat key -> value map (delete = unbind)
//
//   c13_linear_write_step   insert / delete from ANY state: the visible facts change exactly at the
//                           written key, and the write is appended to current_updates
//                           (=> Inv is preserved)
//   c13_linear_add_command_step_third   the real add_command from ANY state: pending writes move into the
//                           new command unchanged, facts untouched, head/includes/count follow;
//                           wrong parent is refused without any change  (=> Inv preserved)
//   c13_linear_revert_step  revert(i) from ANY state (facts.map is ARBITRARY garbage): afterwards
//                           commands = first i commands, current_updates = [], and the visible
//                           facts are exactly  base ; commands[..i].updates   -- except in the
//                           early-return case (i == len and nothing pending) where nothing changes
//   => by Inv, at a checkpoint taken with no write pending the visible facts are
//      base ; commands[..i].updates, and that is what revert(i) re-establishes, whatever happened in
//      between (writes by a rule that failed, added commands, nested checkpoints/reverts).
//   c13_linear_history      direct cross-check: symbolic 3-operation histories from a fresh
//                           perspective against a shadow model (no invariant assumed).
//   c13_linear_checkpoint_with_pending_writes   the LITERAL statement ("all interleavings"): a
//                           checkpoint taken while a write is pending. Kept separate.
use alloc::{boxed::Box, string::String, vec::Vec};

use serde::de::DeserializeOwned;

use super::*;
use crate::__vmap::CAP;

/// Reader that is never consulted (`FactPerspectivePrior::{None, FactPerspective}` do no I/O).
#[derive(Clone)]
struct NoRead;
impl Read for NoRead {
    fn fetch<T: DeserializeOwned>(&self, _offset: u64) -> Result<T, StorageError> {
        Err(StorageError::IoError)
    }
}

const NK: usize = 3; // key alphabet: one component of one byte, 0..NK
const BASE_CUT: u64 = 7; // max cut of the first command of the perspective

type Inner = BTreeMap<Keys, Option<Bytes>>;
type Outer = BTreeMap<String, Inner>;

fn fname() -> String {
    String::from("f")
}
fn key(k: u8) -> Keys {
    crate::storage::Keys(Box::new([Box::new([k]) as Bytes]))
}
fn val(v: u8) -> Bytes {
    Box::new([v])
}
fn cmd_id(b: u8) -> CmdId {
    let mut a = [0u8; 32];
    a[0] = b;
    CmdId::from_bytes(a)
}
fn any_key() -> u8 {
    let k: u8 = kani::any();
    kani::assume((k as usize) < NK);
    k
}

struct Cmd {
    id: CmdId,
    parent: Prior<Address>,
}
impl Command for Cmd {
    fn priority(&self) -> Priority {
        Priority::Basic(0)
    }
    fn id(&self) -> CmdId {
        self.id
    }
    fn parent(&self) -> Prior<Address> {
        self.parent
    }
    fn policy(&self) -> Option<&[u8]> {
        None
    }
    fn bytes(&self) -> &[u8] {
        &[]
    }
}

fn parents() -> Prior<Address> {
    Prior::Single(Address {
        id: cmd_id(0xEE),
        max_cut: MaxCut::new(BASE_CUT - 1),
    })
}

/// One level of a fact map as the model sees it: None = no entry (look further back),
/// Some(None) = tombstone, Some(Some(v)) = value.
type Level = [Option<Option<u8>>; NK];
/// Flat visible facts.
type Flat = [Option<u8>; NK];

/// Arbitrary fact map for name "f": up to `n` entries anywhere in the first `n` slots, distinct
/// keys, values or (if `tomb`) tombstones; or no entry for the name at all.
fn any_outer(n: usize, tomb: bool, lvl: &mut Level) -> Outer {
    let mut slots: [Option<(Keys, Option<Bytes>)>; CAP] = [const { None }; CAP];
    let mut j = 0;
    while j < n {
        if kani::any() {
            let k = any_key();
            kani::assume(lvl[k as usize].is_none());
            let v: u8 = kani::any();
            let dead: bool = kani::any();
            if tomb && dead {
                slots[j] = Some((key(k), None));
                lvl[k as usize] = Some(None);
            } else {
                slots[j] = Some((key(k), Some(val(v))));
                lvl[k as usize] = Some(Some(v));
            }
        }
        j += 1;
    }
    let inner = Inner::from_slots(slots);
    let mut oslots: [Option<(String, Inner)>; CAP] = [const { None }; CAP];
    if n > 0 || kani::any() {
        oslots[0] = Some((fname(), inner));
    }
    Outer::from_slots(oslots)
}

/// Arbitrary fact perspective: top map with <= `ntop` entries; prior = None (`nbase == None`) or
/// an in-memory fact perspective with <= nbase entries.
fn any_facts(ntop: usize, nbase: Option<usize>, top: &mut Level, base: &mut Level) -> LinearFactPerspective<NoRead> {
    let prior = match nbase {
        None => FactPerspectivePrior::None,
        Some(nb) => {
            let map = any_outer(nb, true, base);
            FactPerspectivePrior::FactPerspective(Box::new(LinearFactPerspective {
                map,
                prior: FactPerspectivePrior::None,
            }))
        }
    };
    // without a prior the code never stores tombstones (representation invariant)
    let map = any_outer(ntop, nbase.is_some(), top);
    LinearFactPerspective { map, prior }
}

fn flat_of(top: &Level, base: &Level) -> Flat {
    let mut f: Flat = [None; NK];
    let mut k = 0;
    while k < NK {
        f[k] = match top[k] {
            Some(x) => x,
            None => match base[k] {
                Some(x) => x,
                None => None,
            },
        };
        k += 1;
    }
    f
}

#[derive(Clone, Copy)]
struct Upd {
    k: u8,
    v: Option<u8>,
}

fn any_upd() -> Upd {
    let k = any_key();
    let v: u8 = kani::any();
    Upd {
        k,
        v: if kani::any() { Some(v) } else { None },
    }
}

fn mk_update(u: Upd) -> Update {
    (fname(), key(u.k), u.v.map(val))
}

/// Is `x` the update `u`?
fn same_update(x: &Update, u: Upd) -> bool {
    let (n, k, v) = x;
    if !(n.len() == 1 && n.as_bytes()[0] == b'f') {
        return false;
    }
    if !(k.len() == 1 && k[0].len() == 1 && k[0][0] == u.k) {
        return false;
    }
    match (v, u.v) {
        (None, None) => true,
        (Some(b), Some(w)) => b.len() == 1 && b[0] == w,
        _ => false,
    }
}

fn new_perspective(facts: LinearFactPerspective<NoRead>) -> LinearPerspective<NoRead> {
    LinearPerspective {
        prior: Prior::None,
        parents: parents(),
        policy: PolicyId::new(0),
        facts,
        commands: Vec::with_capacity(4),
        current_updates: Vec::with_capacity(4),
        max_cut: MaxCut::new(BASE_CUT),
        last_common_ancestor: None,
    }
}

fn check_exact(p: &LinearPerspective<NoRead>, want: &Flat) {
    let w = any_key();
    let kw = key(w);
    match p.query("f", &kw) {
        Ok(None) => assert!(want[w as usize].is_none()),
        Ok(Some(v)) => {
            assert!(v.len() == 1);
            assert!(want[w as usize] == Some(v[0]));
            core::mem::forget(v);
        }
        Err(_) => assert!(false),
    }
    core::mem::forget(kw);
}

/// Prefix query (prefix [] = everything, or [k]): exactly the wanted bindings under the prefix,
/// ascending key order, nothing deleted, nothing twice.
fn check_prefix(p: &LinearPerspective<NoRead>, want: &Flat) -> usize {
    let all: bool = kani::any();
    let pk = any_key();
    let prefix: Keys = if all { Keys::default() } else { key(pk) };
    let mut it = match p.query_prefix("f", &prefix) {
        Ok(it) => it,
        Err(_) => {
            assert!(false);
            return 0;
        }
    };
    let mut n_want = 0;
    let mut k = 0;
    while k < NK {
        if want[k].is_some() && (all || k == pk as usize) {
            n_want += 1;
        }
        k += 1;
    }
    let mut got = 0;
    let mut last: Option<u8> = None;
    let mut i = 0;
    while i < NK {
        match it.next() {
            Some(Ok(f)) => {
                assert!(f.key.len() == 1 && f.key[0].len() == 1 && f.value.len() == 1);
                let k = f.key[0][0];
                assert!((k as usize) < NK);
                assert!(all || k == pk);
                assert!(want[k as usize] == Some(f.value[0]));
                if let Some(l) = last {
                    assert!(l < k);
                }
                last = Some(k);
                got += 1;
                core::mem::forget(f);
            }
            Some(Err(_)) => assert!(false),
            None => {}
        }
        i += 1;
    }
    assert!(it.next().is_none());
    assert!(got == n_want);
    core::mem::forget(it);
    core::mem::forget(prefix);
    got
}

/// What happened in a step (vacuity witnesses are placed in the #[kani::proof] functions so that
/// every `cover!` is reachable in the harness that contains it).
#[derive(Clone, Copy, Default)]
struct Seen {
    listed: usize,        // facts returned by the prefix query
    del_visible: bool,    // delete of a visible fact
    del_in_prior: bool,   // delete of a fact that lives in the prior
    dropped_cmds: bool,   // revert dropped commands
    failed_rule: bool,    // revert at equal command count with pending writes
    untouched: bool,      // revert with nothing to undo
    stale_differs: bool,  // the overlay before the revert differed from the rebuilt one
}

// ---------------------------------------------------------------------------------------------
// write step
// ---------------------------------------------------------------------------------------------
fn write_step(ntop: usize, nbase: Option<usize>, npend: usize, prefix: bool) -> Seen {
    let mut seen = Seen::default();
    let mut top: Level = [None; NK];
    let mut base: Level = [None; NK];
    let facts = any_facts(ntop, nbase, &mut top, &mut base);
    let mut p = new_perspective(facts);
    let pend0 = any_upd();
    if npend == 1 {
        p.current_updates.push(mk_update(pend0));
    }
    let mut want = flat_of(&top, &base);
    let u = any_upd();
    let r = match u.v {
        Some(v) => p.insert(fname(), key(u.k), val(v)),
        None => {
            seen.del_visible = want[u.k as usize].is_some();
            seen.del_in_prior = top[u.k as usize].is_none() & want[u.k as usize].is_some();
            p.delete(fname(), key(u.k))
        }
    };
    assert!(r.is_ok());
    want[u.k as usize] = u.v;
    // the write is logged, earlier pending writes and the commands are untouched
    assert!(p.current_updates.len() == npend + 1);
    assert!(same_update(&p.current_updates[npend], u));
    if npend == 1 {
        assert!(same_update(&p.current_updates[0], pend0));
    }
    assert!(p.commands.is_empty());
    if prefix {
        seen.listed = check_prefix(&p, &want);
    } else {
        check_exact(&p, &want);
    }
    core::mem::forget(p);
    seen
}

#[kani::proof]
#[kani::unwind(5)]
fn c13_linear_write_step_prior_small() {
    let seen = write_step(1, Some(1), 1, false);
    kani::cover!(seen.del_visible, "delete of a visible fact");
    kani::cover!(seen.del_in_prior, "delete of a fact that lives in the prior");
}

#[kani::proof]
#[kani::unwind(5)]
fn c13_linear_write_step_prior_full() {
    let seen = write_step(2, Some(2), 1, false);
    kani::cover!(seen.del_in_prior, "delete of a fact that lives in the prior");
}

#[kani::proof]
#[kani::unwind(5)]
fn c13_linear_write_step_noprior() {
    let seen = write_step(2, None, 1, false);
    kani::cover!(seen.del_visible, "delete of a visible fact");
}

#[kani::proof]
#[kani::unwind(5)]
fn c13_linear_write_step_prefix() {
    let seen = write_step(1, Some(2), 0, true);
    kani::cover!(seen.listed >= 2, "two or more facts listed");
}

// ---------------------------------------------------------------------------------------------
// revert step
// ---------------------------------------------------------------------------------------------
fn apply(f: &mut Flat, u: Upd) {
    f[u.k as usize] = u.v;
}

/// `shape[i]` = number of updates of command i (concrete), `npend` pending writes.
fn revert_step(shape: &[usize], npend: usize, ntop: usize, nbase: Option<usize>, idx: usize, prefix: bool) -> Seen {
    let mut seen = Seen::default();
    let nc = shape.len();
    let mut top: Level = [None; NK];
    let mut base: Level = [None; NK];
    // facts.map is arbitrary: revert must not depend on it (except in the early-return case)
    let facts = any_facts(ntop, nbase, &mut top, &mut base);
    let pre = flat_of(&top, &base);
    let mut p = new_perspective(facts);
    // `idx` (the checkpoint) is CONCRETE: a symbolic index makes the lengths of the truncated /
    // dropped vectors symbolic, which CBMC cannot afford; harnesses enumerate idx = 0..=nc.
    assert!(idx <= nc);
    // expected facts after a rebuilding revert: base ; updates of the first idx commands
    let empty: Level = [None; NK];
    let mut want = flat_of(&empty, &base);
    // The vectors handed to revert live in STACK buffers (Vec::from_raw_parts over a local array,
    // never reallocated or freed: revert only truncates/clears, and everything is forgotten at the
    // end). Reason (measured): when the real code clones a String / Keys / Bytes that it reads back
    // from a heap vector element, CBMC no longer knows the length and the clone becomes a
    // symbolic-size allocation + copy; every variant of this harness with heap vectors (pushes or
    // vec![..]) exceeded 14 GB. With stack buffers the lengths stay constant.
    let mut ids = [0u8; 4];
    assert!(nc <= 2 && npend <= 1);
    let ua = [any_upd(), any_upd()];
    let ub = [any_upd(), any_upd()];
    let mut i = 0;
    while i < nc {
        let us = if i == 0 { &ua } else { &ub };
        assert!(shape[i] <= 2);
        if i < idx {
            if shape[i] >= 1 {
                apply(&mut want, us[0]);
            }
            if shape[i] >= 2 {
                apply(&mut want, us[1]);
            }
        }
        ids[i] = kani::any();
        i += 1;
    }
    let mut buf_a = [mk_update(ua[0]), mk_update(ua[1])];
    let mut buf_b = [mk_update(ub[0]), mk_update(ub[1])];
    let len_a = if nc >= 1 { shape[0] } else { 0 };
    let len_b = if nc >= 2 { shape[1] } else { 0 };
    // Commands that the revert KEEPS (index < idx) are read (replayed) and never dropped: their
    // updates sit in the stack buffers. Commands that the revert DROPS are only destroyed, which
    // frees their buffer: those get an ordinary heap vector.
    let heap = |u: &[Upd; 2], n: usize| -> Vec<Update> {
        if n == 0 {
            Vec::new()
        } else if n == 1 {
            alloc::vec![mk_update(u[0])]
        } else {
            alloc::vec![mk_update(u[0]), mk_update(u[1])]
        }
    };
    let upd_a: Vec<Update> = if idx > 0 {
        unsafe { Vec::from_raw_parts(buf_a.as_mut_ptr(), len_a, 2) }
    } else {
        heap(&ua, len_a)
    };
    let upd_b: Vec<Update> = if idx > 1 {
        unsafe { Vec::from_raw_parts(buf_b.as_mut_ptr(), len_b, 2) }
    } else {
        heap(&ub, len_b)
    };
    let mut cbuf = [
        CommandData {
            id: cmd_id(ids[0]),
            priority: Priority::Basic(0),
            policy: None,
            data: Box::new([]),
            updates: upd_a,
        },
        CommandData {
            id: cmd_id(ids[1]),
            priority: Priority::Basic(0),
            policy: None,
            data: Box::new([]),
            updates: upd_b,
        },
    ];
    let mut pbuf = [mk_update(any_upd())];
    core::mem::forget(core::mem::replace(&mut p.commands, unsafe {
        Vec::from_raw_parts(cbuf.as_mut_ptr(), nc, 2)
    }));
    core::mem::forget(core::mem::replace(&mut p.current_updates, unsafe {
        Vec::from_raw_parts(pbuf.as_mut_ptr(), npend, 1)
    }));
    let r = p.revert(Checkpoint { index: idx });
    assert!(r.is_ok());
    // commands: exactly the first idx, in order; nothing pending any more
    assert!(p.commands.len() == idx);
    let mut i = 0;
    while i < nc {
        if i < idx {
            assert!(p.commands[i].id.as_array()[0] == ids[i]);
            assert!(p.commands[i].updates.len() == shape[i]);
        }
        i += 1;
    }
    assert!(p.current_updates.is_empty());
    match p.head_address() {
        Ok(Prior::Single(a)) => {
            if idx == 0 {
                assert!(a.id.as_array()[0] == 0xEE && a.max_cut == MaxCut::new(BASE_CUT - 1));
            } else {
                assert!(a.id.as_array()[0] == ids[idx - 1]);
                assert!(a.max_cut == MaxCut::new(BASE_CUT + idx as u64 - 1));
            }
        }
        _ => assert!(false),
    }
    let untouched = idx == nc && npend == 0;
    seen.dropped_cmds = idx < nc;
    seen.failed_rule = (idx == nc) & (npend > 0);
    seen.untouched = untouched;
    let want = if untouched { pre } else { want };
    // the stale overlay really differed from the rebuilt state (so it had to be discarded)
    let mut k = 0;
    while k < NK {
        if pre[k] != want[k] {
            seen.stale_differs = true;
        }
        k += 1;
    }
    if prefix {
        seen.listed = check_prefix(&p, &want);
    } else {
        check_exact(&p, &want);
    }
    core::mem::forget(p);
    core::mem::forget(cbuf);
    core::mem::forget(buf_a);
    core::mem::forget(buf_b);
    core::mem::forget(pbuf);
    seen
}

#[kani::proof]
#[kani::unwind(5)]
fn c13_linear_revert_step_failed_rule_fresh() {
    // a rule wrote and failed on a perspective that has no command yet and no prior facts
    let seen = revert_step(&[], 1, 1, None, 0, false);
    kani::cover!(seen.failed_rule & seen.stale_differs, "failed rule on a fresh perspective, its write was visible");
}

#[kani::proof]
#[kani::unwind(5)]
fn c13_linear_revert_step_failed_rule_cmd() {
    // the Transaction::add_single situation: one command kept, a rule wrote and failed before add_command
    let seen = revert_step(&[1], 1, 1, Some(1), 1, false);
    kani::cover!(seen.failed_rule & seen.stale_differs, "failed rule: equal command count, pending write discarded");
}

#[kani::proof]
#[kani::unwind(5)]
fn c13_linear_revert_step_drop_cmd() {
    let seen = revert_step(&[1], 1, 1, Some(1), 0, false);
    kani::cover!(seen.dropped_cmds & seen.stale_differs, "revert drops a command and its writes");
}

#[kani::proof]
#[kani::unwind(5)]
fn c13_linear_revert_step_nothing_pending() {
    let seen = revert_step(&[1], 0, 1, Some(1), 1, false);
    kani::cover!(seen.untouched, "revert with nothing to undo leaves the overlay alone");
}

#[kani::proof]
#[kani::unwind(5)]
fn c13_linear_revert_step_two_cmds_keep1() {
    let seen = revert_step(&[2, 1], 1, 1, Some(2), 1, false);
    kani::cover!(seen.dropped_cmds & seen.stale_differs, "second command and pending write discarded");
}

#[kani::proof]
#[kani::unwind(5)]
fn c13_linear_revert_step_two_cmds_keep2() {
    let seen = revert_step(&[2, 1], 1, 1, Some(2), 2, false);
    kani::cover!(seen.failed_rule & seen.stale_differs, "failed rule after two commands");
}

#[kani::proof]
#[kani::unwind(5)]
fn c13_linear_revert_step_two_cmds_noprior() {
    let seen = revert_step(&[2, 1], 1, 1, None, 1, false);
    kani::cover!(seen.dropped_cmds & seen.stale_differs, "second command discarded (no prior: replayed deletes remove)");
}

#[kani::proof]
#[kani::unwind(5)]
fn c13_linear_revert_step_prefix() {
    let seen = revert_step(&[1, 1], 1, 1, Some(1), 1, true);
    kani::cover!(seen.listed >= 2, "two or more facts listed");
}

// ---------------------------------------------------------------------------------------------
// add_command / checkpoint / head_address / includes (real 32-byte id comparisons)
// ---------------------------------------------------------------------------------------------
fn add_command_step(nc: usize, npend: usize) {
    let mut top: Level = [None; NK];
    let mut base: Level = [None; NK];
    let facts = any_facts(1, Some(1), &mut top, &mut base);
    let want = flat_of(&top, &base);
    let mut p = new_perspective(facts);
    let mut ids = [0u8; 4];
    let mut i = 0;
    while i < nc {
        ids[i] = kani::any();
        p.commands.push(CommandData {
            id: cmd_id(ids[i]),
            priority: Priority::Basic(0),
            policy: None,
            data: Box::new([]),
            updates: Vec::new(),
        });
        i += 1;
    }
    let pend = any_upd();
    if npend == 1 {
        p.current_updates.push(mk_update(pend));
    }
    assert!(p.checkpoint().index == nc);
    let head = match p.head_address() {
        Ok(h) => h,
        Err(_) => {
            assert!(false);
            return;
        }
    };
    let good: bool = kani::any();
    let b: u8 = kani::any();
    let wrong = Prior::Single(Address {
        id: cmd_id(kani::any()),
        max_cut: MaxCut::new(kani::any()),
    });
    kani::assume(good || wrong != head);
    let c = Cmd {
        id: cmd_id(b),
        parent: if good { head } else { wrong },
    };
    match p.add_command(&c) {
        Ok(n) => {
            assert!(good);
            assert!(n == nc + 1 && p.commands.len() == nc + 1);
            assert!(p.commands[nc].id.as_array()[0] == b);
            // pending writes moved into the command, nothing pending any more
            assert!(p.commands[nc].updates.len() == npend);
            if npend == 1 {
                assert!(same_update(&p.commands[nc].updates[0], pend));
            }
            assert!(p.current_updates.is_empty());
            assert!(p.checkpoint().index == nc + 1);
            match p.head_address() {
                Ok(Prior::Single(a)) => {
                    assert!(a.id.as_array()[0] == b);
                    assert!(a.max_cut == MaxCut::new(BASE_CUT + nc as u64));
                }
                _ => assert!(false),
            }
            kani::cover!(true, "command accepted, takes the pending write");
        }
        Err(e) => {
            assert!(!good);
            assert!(matches!(e, StorageError::PerspectiveHeadMismatch));
            assert!(p.commands.len() == nc && p.current_updates.len() == npend);
            kani::cover!(true, "command with a wrong parent refused");
        }
    }
    // includes() for a witness id
    let wb: u8 = kani::any();
    let mut inc = false;
    let mut i = 0;
    while i < p.commands.len() {
        if p.commands[i].id.as_array()[0] == wb {
            inc = true;
        }
        i += 1;
    }
    assert!(p.includes(cmd_id(wb)) == inc);
    // facts untouched
    check_exact(&p, &want);
    core::mem::forget(p);
}

#[kani::proof]
#[kani::unwind(5)]
fn c13_linear_add_command_step_first() {
    add_command_step(0, 1);
}

#[kani::proof]
#[kani::unwind(5)]
fn c13_linear_add_command_step_third() {
    add_command_step(2, 1);
}

// ---------------------------------------------------------------------------------------------
// direct history cross-check (no invariant assumed)
// ---------------------------------------------------------------------------------------------
#[derive(Clone, Copy)]
struct HModel {
    m: Flat,
    ncmd: usize,
    pending: usize,
}

fn hstep(p: &mut LinearPerspective<NoRead>, m: &mut HModel, snap: &mut (usize, HModel, bool)) {
    let op: u8 = kani::any();
    kani::assume(op < 4);
    if op == 0 {
        let u = any_upd();
        let r = match u.v {
            Some(v) => p.insert(fname(), key(u.k), val(v)),
            None => p.delete(fname(), key(u.k)),
        };
        assert!(r.is_ok());
        m.m[u.k as usize] = u.v;
        m.pending += 1;
    } else if op == 1 {
        // add a command (data movement of add_command; the real one is c13_linear_add_command_step_third)
        p.commands.push(CommandData {
            id: cmd_id(m.ncmd as u8),
            priority: Priority::Basic(0),
            policy: None,
            data: Box::new([]),
            updates: core::mem::take(&mut p.current_updates),
        });
        m.ncmd += 1;
        m.pending = 0;
    } else if op == 2 {
        if m.pending == 0 {
            *snap = (p.checkpoint().index, *m, true);
        }
    } else if snap.2 {
        kani::cover!(m.ncmd > snap.1.ncmd, "history: revert drops a command");
        kani::cover!((m.ncmd == snap.1.ncmd) & (m.pending > 0), "history: failed rule reverted");
        assert!(p.revert(Checkpoint { index: snap.0 }).is_ok());
        *m = snap.1;
        assert!(p.current_updates.is_empty());
    }
}

fn history(n: usize, nbase: Option<usize>) {
    let mut top: Level = [None; NK];
    let mut base: Level = [None; NK];
    let facts = any_facts(0, nbase, &mut top, &mut base);
    let mut p = new_perspective(facts);
    let mut m = HModel {
        m: flat_of(&top, &base),
        ncmd: 0,
        pending: 0,
    };
    let mut snap = (0usize, m, false);
    let len: usize = kani::any();
    kani::assume(len <= n);
    let mut i = 0;
    while i < n {
        if i < len {
            hstep(&mut p, &mut m, &mut snap);
        }
        i += 1;
    }
    assert!(p.commands.len() == m.ncmd);
    check_exact(&p, &m.m);
    core::mem::forget(p);
}

#[kani::proof]
#[kani::unwind(5)]
fn c13_linear_history3() {
    history(3, Some(1));
}

// ---------------------------------------------------------------------------------------------
// the literal statement: checkpoint taken while a write is pending (public API only)
// ---------------------------------------------------------------------------------------------
#[kani::proof]
#[kani::unwind(5)]
fn c13_linear_checkpoint_with_pending_writes() {
    let mut p: LinearPerspective<NoRead> = LinearPerspective::new(
        Prior::None,
        Prior::None,
        PolicyId::new(0),
        FactPerspectivePrior::None,
        MaxCut::new(0),
        None,
    );
    let k1 = any_key();
    let v1: u8 = kani::any();
    assert!(p.insert(fname(), key(k1), val(v1)).is_ok());
    let cp = p.checkpoint();
    if kani::any() {
        let k2 = any_key();
        kani::assume(k2 != k1);
        assert!(p.insert(fname(), key(k2), val(kani::any())).is_ok());
    }
    assert!(p.revert(cp).is_ok());
    // the fact written BEFORE the checkpoint was visible when the checkpoint was taken
    match p.query("f", &key(k1)) {
        Ok(Some(v)) => assert!(v.len() == 1 && v[0] == v1),
        Ok(None) => assert!(false, "C13: fact visible at checkpoint time is gone after revert"),
        Err(_) => assert!(false),
    }
    core::mem::forget(p);
}

