// C15 — byte-array stand-in for the file system calls used by the libc linear-storage writer
// (crates/aranya-runtime/src/storage/linear/libc/imp.rs).
//
// Wiring (group `runtime_crash`, checks/groups.d/C15.json, scratch copy only — /repo is untouched):
//   lib.rs : `pub(crate) mod __vfile;` (this file) is added next to `mod client;`
//   imp.rs : `use aranya_libc::{self as libc, ...}` becomes `use crate::__vfile as libc;` + the
//            rest of the import list, i.e. every `libc::xyz(..)` call of imp.rs resolves here.
// Everything that is not redefined below (open, openat, flock, dup, readdir, ..., the types
// OwnedFd/BorrowedFd/AsFd/Errno) is the real aranya_libc item (glob re-export; local definitions
// shadow glob imports).  No #[kani::stub] is involved, so counterexamples replay natively.
//
// The model is ONE file (the fd argument is ignored) made of three byte windows
//   slot A  = [ROOT_A, ROOT_A+WR)     slot B = [ROOT_B, ROOT_B+WR)     data = [DATA, DATA+WD)
// all other offsets below `size` read as zero (what fallocate(2) guarantees for bytes never
// written); a write outside the windows is rejected with EFBIG (the harness asserts that this
// never happens, so the bound is visible instead of silently cutting behaviour).
//
// `vol` is the volatile image (page cache): what pread sees.  Every state-changing call
// (fallocate, pwrite, fsync, fdatasync) is appended to `trace` in program order; the durable
// image and the set of not-yet-flushed writes at an arbitrary crash point are computed from the
// trace by the harness (harness/runtime/crash.rs), which is where the symbolic crash point and the
// symbolic fate of each unflushed write live.
#![allow(dead_code, missing_docs, clippy::indexing_slicing, clippy::arithmetic_side_effects)]

pub use aranya_libc::*;
use core::ffi::c_int;

pub const PAGE: i64 = 4096;
pub const ROOT_A: i64 = PAGE;
pub const ROOT_B: i64 = PAGE * 2;
pub const DATA: i64 = PAGE * 3;
/// Bytes modelled per root slot (a serialized root is <= 4 + 1 + 3 + 3 + 3 + 10 = 24 bytes for
/// offsets below 16384).
pub const WR: usize = 32;
/// Bytes modelled of the data region.
pub const WD: usize = 3 * 64;
/// Largest single pwrite that is recorded.
pub const MAXW: usize = 48;
/// Trace capacity (state-changing calls).
pub const MAXT: usize = 40;

pub const K_FALLOC: u8 = 1;
pub const K_WRITE: u8 = 2;
pub const K_FSYNC: u8 = 3;
pub const K_FDATASYNC: u8 = 4;

/// Chunk size of the data window.  CBMC keeps arrays of at most 64 elements as individual
/// symbols (constant propagation per element); a single 192-byte array loses that (measured: the
/// length prefix read back from it was no longer a constant for symbolic execution).
pub const CH: usize = 64;

#[derive(Clone, Copy)]
pub struct Img {
    /// File size (`st_size`); reads at or past it return 0 bytes.
    pub size: i64,
    /// A lower bound of `size` (invariant `size_lo <= size`, asserted by the harness for every
    /// image it builds).  Semantically redundant: `pread` tests `end <= size_lo || end <= size`,
    /// which equals `end <= size`.  It exists because `size` of a crash image is a symbolic
    /// expression (a preallocation may or may not have become durable) while `size_lo` is a
    /// constant, so that symbolic execution can decide the test for reads into the first chunk.
    pub size_lo: i64,
    pub a: [u8; WR],
    pub b: [u8; WR],
    pub d0: [u8; CH],
    pub d1: [u8; CH],
    pub d2: [u8; CH],
}

impl Img {
    pub const fn empty() -> Self {
        Self {
            size: 0,
            size_lo: 0,
            a: [0; WR],
            b: [0; WR],
            d0: [0; CH],
            d1: [0; CH],
            d2: [0; CH],
        }
    }

    /// Byte `x` of the data window.
    pub fn data(&self, x: usize) -> u8 {
        if x < CH {
            self.d0[x]
        } else if x < 2 * CH {
            self.d1[x - CH]
        } else {
            self.d2[x - 2 * CH]
        }
    }

    /// Byte at absolute offset `o` (`0 <= o < size` is the caller's business).
    pub fn get(&self, o: i64) -> u8 {
        if o >= ROOT_A && o < ROOT_A + WR as i64 {
            self.a[(o - ROOT_A) as usize]
        } else if o >= ROOT_B && o < ROOT_B + WR as i64 {
            self.b[(o - ROOT_B) as usize]
        } else if o >= DATA && o < DATA + WD as i64 {
            self.data((o - DATA) as usize)
        } else {
            0
        }
    }

    /// Stores a byte; `false` when `o` is outside the modelled windows.
    pub fn set(&mut self, o: i64, v: u8) -> bool {
        if o >= ROOT_A && o < ROOT_A + WR as i64 {
            self.a[(o - ROOT_A) as usize] = v;
            true
        } else if o >= ROOT_B && o < ROOT_B + WR as i64 {
            self.b[(o - ROOT_B) as usize] = v;
            true
        } else if o >= DATA && o < DATA + WD as i64 {
            let x = (o - DATA) as usize;
            if x < CH {
                self.d0[x] = v;
            } else if x < 2 * CH {
                self.d1[x - CH] = v;
            } else {
                self.d2[x - 2 * CH] = v;
            }
            true
        } else {
            false
        }
    }
}

/// One state-changing system call.
#[derive(Clone, Copy)]
pub struct Ev {
    pub kind: u8,
    /// K_WRITE: file offset.  K_FALLOC: the file size after the call.
    pub off: i64,
    /// K_WRITE: number of bytes.
    pub len: usize,
    pub data: [u8; MAXW],
}

impl Ev {
    pub const fn none() -> Self {
        Self {
            kind: 0,
            off: 0,
            len: 0,
            data: [0; MAXW],
        }
    }
}

pub struct Fs {
    /// Disk image at the start of the recorded run (empty file, or the image left by an earlier
    /// crash: `restart_from`).
    pub base: Img,
    pub vol: Img,
    pub trace: [Ev; MAXT],
    pub n: usize,
    /// Set when a call left the model (write outside the windows, oversized write, trace full).
    pub out_of_model: bool,
    /// Number of pread calls served.
    pub reads: usize,
}

static mut FS: Fs = Fs {
    base: Img::empty(),
    vol: Img::empty(),
    trace: [Ev::none(); MAXT],
    n: 0,
    out_of_model: false,
    reads: 0,
};

pub fn fs() -> &'static mut Fs {
    // SAFETY: harnesses are single threaded.
    unsafe { &mut *core::ptr::addr_of_mut!(FS) }
}

/// Starts a new run (process restart) on the disk image `img`: the page cache equals the disk and
/// the trace is empty.
pub fn restart_from(img: Img) {
    let fs = fs();
    fs.base = img;
    fs.vol = img;
    fs.n = 0;
}

/// A file descriptor value for the model (never passed to the operating system by the code under
/// test; the harness `mem::forget`s its owners so that `close` is not called either).
pub fn fake_fd() -> OwnedFd {
    // SAFETY: OwnedFd is #[repr(transparent)] over the raw `c_int` descriptor.
    unsafe { core::mem::transmute::<c_int, OwnedFd>(-1) }
}

fn einval() -> Errno {
    Errno::from_raw_os_error(22)
}

fn efbig() -> Errno {
    Errno::from_raw_os_error(27)
}

fn record(fs: &mut Fs, ev: Ev) -> bool {
    if fs.n >= MAXT {
        fs.out_of_model = true;
        return false;
    }
    fs.trace[fs.n] = ev;
    fs.n += 1;
    true
}

/// See `fallocate(2)` with mode 0: allocates and zero-fills, extends the size to `off + len`.
pub fn fallocate(_fd: impl AsFd, mode: c_int, off: i64, len: i64) -> Result<(), Errno> {
    let fs = fs();
    if mode != 0 || off < 0 || len <= 0 {
        return Err(einval());
    }
    let end = match off.checked_add(len) {
        Some(e) => e,
        None => return Err(efbig()),
    };
    if end > fs.vol.size {
        fs.vol.size = end;
        fs.vol.size_lo = end;
    }
    let mut ev = Ev::none();
    ev.kind = K_FALLOC;
    ev.off = fs.vol.size;
    if !record(fs, ev) {
        return Err(efbig());
    }
    Ok(())
}

/// See `pread(2)`.  A read that starts at or after the end of the file returns 0 bytes.  A read
/// that starts below the end returns ALL requested bytes; if such a read would cross the end of
/// the file (where the real call returns only the available prefix) the model is left and
/// `out_of_model` is set — every harness asserts that this flag is still clear at its end, so a
/// crossing read shows up as a failed check instead of being silently mis-modelled.
/// (Returning exactly `buf.len()` lets symbolic execution see that `File::read_exact`'s retry loop
/// ends after one round even when the length is a symbolic value read from a crash image.)
pub fn pread(_fd: impl AsFd, buf: &mut [u8], off: i64) -> Result<usize, Errno> {
    let fs = fs();
    fs.reads += 1;
    if off < 0 {
        return Err(einval());
    }
    // `off >= size`, decided on the constant lower bound where possible (size_lo <= size).
    if !(off < fs.vol.size_lo) && off >= fs.vol.size {
        return Ok(0);
    }
    let len = buf.len();
    let crossing = match off.checked_add(len as i64) {
        Some(end) => end > fs.vol.size,
        None => true,
    };
    if crossing {
        fs.out_of_model = true;
    }
    let mut i = 0usize;
    while i < len {
        buf[i] = fs.vol.get(off + i as i64);
        i += 1;
    }
    Ok(len)
}

/// See `pwrite(2)`: always writes the whole buffer (short writes / EINTR are not modelled).
pub fn pwrite(_fd: impl AsFd, buf: &[u8], off: i64) -> Result<usize, Errno> {
    let fs = fs();
    if off < 0 {
        return Err(einval());
    }
    if buf.len() > MAXW {
        fs.out_of_model = true;
        return Err(efbig());
    }
    let mut ev = Ev::none();
    ev.kind = K_WRITE;
    ev.off = off;
    ev.len = buf.len();
    let mut i = 0usize;
    while i < buf.len() {
        let o = off + i as i64;
        if !fs.vol.set(o, buf[i]) {
            fs.out_of_model = true;
            return Err(efbig());
        }
        ev.data[i] = buf[i];
        i += 1;
    }
    let end = off + buf.len() as i64;
    if end > fs.vol.size {
        // Growing the file by writing is outside the model (the writer preallocates).
        fs.out_of_model = true;
        return Err(efbig());
    }
    if !record(fs, ev) {
        return Err(efbig());
    }
    Ok(buf.len())
}

/// See `fsync(2)`.
pub fn fsync(_fd: impl AsFd) -> Result<(), Errno> {
    let fs = fs();
    let mut ev = Ev::none();
    ev.kind = K_FSYNC;
    if !record(fs, ev) {
        return Err(efbig());
    }
    Ok(())
}

/// See `fdatasync(2)`.
pub fn fdatasync(_fd: impl AsFd) -> Result<(), Errno> {
    let fs = fs();
    let mut ev = Ev::none();
    ev.kind = K_FDATASYNC;
    if !record(fs, ev) {
        return Err(efbig());
    }
    Ok(())
}
