// C20 — PeerCache::add_command, one step from an arbitrary valid cache.
// Child module of aranya_runtime::sync::responder (sees PeerCache.heads).
// Graph: a concrete 3-way fork  g <- a, g <- b, g <- c1 <- c2  (4 segments) in the recording
// store; the cache is an arbitrary antichain of committed commands, the recorded address is
// symbolic (committed or not, right or wrong max cut).
use super::*;
use crate::{HeadSet, SegmentIndex};

#[path = "vclient.rs"]
mod vclient;
use vclient::*;

const G: u8 = 10;
const A: u8 = 11;
const B: u8 = 12;
const C1: u8 = 13;
const C2: u8 = 14;

fn fork_store() -> AStore {
    let mut s = AStore::with_chain(&[G]);
    // segment 1: a ; segment 2: b ; segment 3: c1,c2
    let mk = |idx: u64, ids: &[u8]| {
        let mut seg = ASeg::empty();
        seg.index = idx;
        seg.prior = Prior::Single(loc(0, 0));
        seg.first_mc = 1;
        seg.len = ids.len();
        let mut i = 0;
        while i < ids.len() {
            seg.ids[i] = ids[i];
            i += 1;
        }
        seg
    };
    s.segs[1] = mk(1, &[A]);
    s.segs[2] = mk(2, &[B]);
    s.segs[3] = mk(3, &[C1, C2]);
    s.nseg = 4;
    let mut h = HeadSet::default();
    h.push(LocatedAddress { id: cid(A), segment: SegmentIndex::new(1), max_cut: MaxCut::new(1) });
    h.push(LocatedAddress { id: cid(B), segment: SegmentIndex::new(2), max_cut: MaxCut::new(1) });
    h.push(LocatedAddress { id: cid(C2), segment: SegmentIndex::new(3), max_cut: MaxCut::new(2) });
    s.heads = h;
    s
}

/// command table: (id, segment, max_cut); ancestry: G < everything, C1 < C2.
const CMDS: [(u8, u64, u64); 5] = [(G, 0, 0), (A, 1, 1), (B, 2, 1), (C1, 3, 1), (C2, 3, 2)];

fn is_anc(x: usize, y: usize) -> bool {
    // proper ancestor in the reference DAG
    (x == 0 && y != 0) || (x == 3 && y == 4)
}

fn la(i: usize) -> LocatedAddress {
    LocatedAddress { id: cid(CMDS[i].0), segment: SegmentIndex::new(CMDS[i].1), max_cut: MaxCut::new(CMDS[i].2) }
}

fn index_of(h: &LocatedAddress) -> usize {
    let mut i = 0;
    while i < 5 {
        if id_byte(h.id) == CMDS[i].0 && h.segment.get() == CMDS[i].1 && h.max_cut.get() == CMDS[i].2 {
            return i;
        }
        i += 1;
    }
    usize::MAX
}

fn step(ncache: usize) {
    let st = fork_store();
    let mut cache = PeerCache::new();
    let mut pre = [usize::MAX; 2];
    let mut i = 0;
    while i < ncache {
        let k: usize = kani::any();
        kani::assume(k < 5);
        pre[i] = k;
        let _ = cache.heads.push(la(k));
        i += 1;
    }
    if ncache == 2 {
        // valid cache: an antichain
        kani::assume(pre[0] != pre[1] && !is_anc(pre[0], pre[1]) && !is_anc(pre[1], pre[0]));
    }
    // the recorded address: one of the committed commands (with right or wrong max cut) or unknown
    let n: usize = kani::any();
    kani::assume(n <= 5);
    let wrong_cut: bool = kani::any();
    let (nid, nmc) = if n < 5 {
        (CMDS[n].0, if wrong_cut { CMDS[n].2 + 1 } else { CMDS[n].2 })
    } else {
        (99u8, kani::any::<u8>() as u64 % 4)
    };
    let committed = n < 5 && !wrong_cut;
    let mut tb = TraversalBuffer::new();
    let r = cache.add_command(&st, addr(nid, nmc), &mut tb);
    assert!(r.is_ok());
    let post = cache.heads();
    assert!(post.len() <= PEER_HEAD_MAX);
    // every entry is a committed command; no entry is an ancestor of another
    let mut i = 0;
    while i < post.len() {
        let xi = index_of(&post[i]);
        assert!(xi != usize::MAX);
        let mut j = 0;
        while j < post.len() {
            if i != j {
                let xj = index_of(&post[j]);
                assert!(xi != xj && !is_anc(xi, xj));
            }
            j += 1;
        }
        i += 1;
    }
    // what changed
    let mut covered = false; // new is equal to / an ancestor of an existing entry
    let mut i = 0;
    while i < ncache {
        if committed && (pre[i] == n || is_anc(n, pre[i])) {
            covered = true;
        }
        i += 1;
    }
    let mut has_new = false;
    let mut i = 0;
    while i < post.len() {
        if committed && index_of(&post[i]) == n {
            has_new = true;
        }
        i += 1;
    }
    if !committed {
        // ignored: cache unchanged
        assert!(post.len() == ncache);
        kani::cover!((n < 5) & wrong_cut, "known id with wrong max cut ignored");
    } else if covered {
        assert!(post.len() == ncache);
        let mut i = 0;
        while i < ncache {
            assert!(index_of(&post[i]) == pre[i]);
            i += 1;
        }
        kani::cover!(ncache == 2, "ancestor of an existing entry ignored");
    } else {
        assert!(has_new);
        // removed exactly the old entries that are ancestors of the new one
        let mut i = 0;
        while i < ncache {
            let mut still = false;
            let mut j = 0;
            while j < post.len() {
                if index_of(&post[j]) == pre[i] {
                    still = true;
                }
                j += 1;
            }
            assert!(still == !is_anc(pre[i], n));
            i += 1;
        }
        kani::cover!((ncache == 2) & (post.len() == 3), "incomparable command added");
        kani::cover!((ncache == 1) & (post.len() == 1), "descendant replaces its ancestor");
    }
}

#[kani::proof]
#[kani::unwind(6)]
fn c20_add_command_cache_0_1() {
    step(0);
    step(1);
}

#[kani::proof]
#[kani::unwind(6)]
fn c20_add_command_cache_2() {
    step(2);
}
