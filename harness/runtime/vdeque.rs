// Stand-in for alloc::collections::VecDeque in `fold_merge_pairs` (group runtime_vmap_act):
// a 4-slot ring with concrete indices.  std's VecDeque is built by collecting into a heap
// buffer; CBMC then no longer knows its length, takes the "two heads" branch of the fold even on
// a single-head graph and walks into the braid (out of reach).  Trusted: std's VecDeque is a FIFO.
pub struct VecDeque<E> {
    slots: [Option<E>; 4],
    head: usize,
    len: usize,
}

impl<E> VecDeque<E> {
    pub fn new() -> Self {
        Self { slots: [None, None, None, None], head: 0, len: 0 }
    }
    pub fn pop_front(&mut self) -> Option<E> {
        if self.len == 0 {
            return None;
        }
        let v = self.slots[self.head].take();
        self.head = (self.head + 1) % 4;
        self.len -= 1;
        v
    }
    pub fn push_back(&mut self, e: E) {
        assert!(self.len < 4, "VecDeque stand-in holds at most 4 entries");
        let i = (self.head + self.len) % 4;
        self.slots[i] = Some(e);
        self.len += 1;
    }
}

impl<E> FromIterator<E> for VecDeque<E> {
    fn from_iter<I: IntoIterator<Item = E>>(it: I) -> Self {
        let mut q = Self::new();
        for e in it {
            q.push_back(e);
        }
        q
    }
}
