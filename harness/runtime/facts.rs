// C12 — "Fact storage behaves as a key-value map".
// Group `runtime_vmap` (std BTreeMap replaced by the slab map of vmap.rs, see there).
// Child module of aranya_runtime::storage::linear (private fields of LinearFactIndex,
// FactIndexRepr, LinearFactPerspective, FactPerspectivePrior, LinearStorage, Keys).
//
// METHOD: ARBITRARY chains built field by field, compared with a flat map model (oldest level
// first, newer levels override, tombstone = unbind):
//
//   perspective top map -> in-memory prior perspective -> committed index 2 -> index 1 -> index 0
//
// Every level holds an arbitrary set of <= 2 entries (value or tombstone, any slot layout) under
// the fact name, or has no entry for the name at all. Committed indexes are served by a harness
// `Read` whose `fetch` hands back the `FactIndexRepr` built from the level description (the bytes
// on disk and serde are not part of this property; the reader is the trait-level environment).
//
// Key alphabet: compound keys of 1 or 2 one-byte components over {0,1}
//   [0] < [0,0] < [0,1] < [1] < [1,0] < [1,1]      (code 0..6, code order == key order)
// (keys that are prefixes of one another); prefixes: [] and the six keys.
use alloc::{boxed::Box, string::String, vec::Vec};

use serde::de::DeserializeOwned;

use super::*;
use crate::__vmap::CAP;

const NCODE: u8 = 6;

/// Alphabet switch (set once at the start of a harness; constant-folded by CBMC):
///   false: SIMPLE  keys [c], c in 0..3 (one one-byte component); prefixes [] and [c]
///   true : MIXED   the six compound keys described above (keys that are prefixes of one another)
static mut MIXED: bool = false;
fn mixed() -> bool {
    unsafe { MIXED }
}
fn set_mixed(m: bool) {
    unsafe { MIXED = m }
}
fn ncode() -> u8 {
    if mixed() { 6 } else { 3 }
}
const NC: usize = 6;
type FlatArr = [Option<u8>; NC];
/// Flat model plus the set of keys that occur anywhere in the chain (live or tombstoned): the
/// slab map holds at most CAP entries, so harnesses bound the number of DISTINCT keys by CAP.
#[derive(Clone, Copy)]
struct Flat {
    m: FlatArr,
    used: [bool; NC],
    hidden: bool, // a tombstone of a newer level hid a value of an older level
}
impl Flat {
    fn new() -> Self {
        Flat {
            m: [None; NC],
            used: [false; NC],
            hidden: false,
        }
    }
    fn distinct(&self) -> usize {
        let mut n = 0;
        let mut c = 0;
        while c < NC {
            if self.used[c] {
                n += 1;
            }
            c += 1;
        }
        n
    }
}
type Level = [Option<Option<u8>>; NC];
type Inner = BTreeMap<Keys, Option<Bytes>>;

fn bx(b: u8) -> Bytes {
    Box::new([b])
}
fn fname() -> String {
    String::from("f")
}
fn shape(code: u8) -> (usize, u8, u8) {
    let a = code / 3;
    let r = code % 3;
    if r == 0 { (1, a, 0) } else { (2, a, r - 1) }
}
fn mk_key(code: u8) -> Keys {
    if !mixed() {
        return crate::storage::Keys(Box::new([bx(code)]));
    }
    let (n, a, b) = shape(code);
    if n == 1 {
        crate::storage::Keys(Box::new([bx(a)]))
    } else {
        crate::storage::Keys(Box::new([bx(a), bx(b)]))
    }
}
fn code_of(keys: &[Bytes]) -> Option<u8> {
    if !mixed() {
        if keys.len() != 1 || keys[0].len() != 1 || keys[0][0] > 2 {
            return None;
        }
        return Some(keys[0][0]);
    }
    if keys.is_empty() || keys.len() > 2 {
        return None;
    }
    if keys[0].len() != 1 || keys[0][0] > 1 {
        return None;
    }
    let a = keys[0][0];
    if keys.len() == 1 {
        return Some(a * 3);
    }
    if keys[1].len() != 1 || keys[1][0] > 1 {
        return None;
    }
    Some(a * 3 + 1 + keys[1][0])
}
fn mk_prefix(p: u8) -> Keys {
    if p == 0 { Keys::default() } else { mk_key(p - 1) }
}
fn has_prefix(c: u8, p: u8) -> bool {
    if p == 0 {
        return true;
    }
    if !mixed() {
        return c == p - 1;
    }
    let (pn, pa, pb) = shape(p - 1);
    let (cn, ca, cb) = shape(c);
    if pn == 1 { ca == pa } else { cn == 2 && ca == pa && cb == pb }
}
fn any_code() -> u8 {
    let c: u8 = kani::any();
    kani::assume(c < ncode());
    c
}

// ---------------------------------------------------------------------------------------------
// level descriptions and the reader
// ---------------------------------------------------------------------------------------------
#[derive(Clone, Copy)]
struct Ent {
    on: bool,
    c: u8,
    v: Option<u8>,
}

#[derive(Clone, Copy)]
struct Desc {
    e: [Ent; 2],
    named: bool,
    prior: Option<u64>,
    depth: u64,
}

const OFF: Ent = Ent {
    on: false,
    c: 0,
    v: None,
};

/// Arbitrary level with <= n (<= 2) entries; `tomb`: tombstones allowed.
fn any_desc(n: usize, tomb: bool, lvl: &mut Level) -> Desc {
    let mut d = Desc {
        e: [OFF; 2],
        named: n > 0 || kani::any(),
        prior: None,
        depth: 1,
    };
    let mut j = 0;
    while j < n {
        if kani::any() {
            let c = any_code();
            kani::assume(lvl[c as usize].is_none());
            let v: u8 = kani::any();
            let dead: bool = kani::any();
            let val = if tomb && dead { None } else { Some(v) };
            d.e[j] = Ent { on: true, c, v: val };
            lvl[c as usize] = Some(val);
        }
        j += 1;
    }
    d
}

fn build_map(d: &Desc) -> NamedFactMap {
    let mut slots: [Option<(Keys, Option<Bytes>)>; CAP] = [const { None }; CAP];
    let mut j = 0;
    while j < 2 {
        if d.e[j].on {
            slots[j] = Some((mk_key(d.e[j].c), d.e[j].v.map(bx)));
        }
        j += 1;
    }
    let mut oslots: [Option<(String, Inner)>; CAP] = [const { None }; CAP];
    if d.named {
        oslots[0] = Some((fname(), Inner::from_slots(slots)));
    }
    NamedFactMap::from_slots(oslots)
}

fn build_repr(offset: u64, d: &Desc) -> FactIndexRepr {
    FactIndexRepr {
        offset,
        prior: d.prior,
        depth: d.depth,
        facts: build_map(d),
    }
}

#[derive(Clone, Copy)]
struct VRead {
    idx: [Desc; 3],
    n: u64,
}

impl Read for VRead {
    fn fetch<T: DeserializeOwned>(&self, offset: u64) -> Result<T, StorageError> {
        if offset >= self.n {
            return Err(StorageError::IoError);
        }
        // The only item type fetched on the query / compaction paths is FactIndexRepr.
        assert!(core::mem::size_of::<T>() == core::mem::size_of::<FactIndexRepr>());
        assert!(core::mem::align_of::<T>() == core::mem::align_of::<FactIndexRepr>());
        let repr = build_repr(offset, &self.idx[offset as usize]);
        // SAFETY: T is FactIndexRepr (see above); ownership moves to the returned value.
        let t = unsafe { core::mem::transmute_copy::<FactIndexRepr, T>(&repr) };
        core::mem::forget(repr);
        Ok(t)
    }
}

fn overlay(f: &mut Flat, lvl: &Level) {
    let mut c = 0;
    while c < NC {
        if let Some(x) = lvl[c] {
            if x.is_none() && f.m[c].is_some() {
                f.hidden = true;
            }
            f.m[c] = x;
            f.used[c] = true;
        }
        c += 1;
    }
}

/// Chain of `nidx` committed indexes (index i has prior i-1), each with <= per entries.
fn any_reader(nidx: usize, per: usize, flat: &mut Flat) -> VRead {
    let mut r = VRead {
        idx: [Desc {
            e: [OFF; 2],
            named: false,
            prior: None,
            depth: 1,
        }; 3],
        n: nidx as u64,
    };
    let mut i = 0;
    while i < nidx {
        let mut lvl: Level = [None; NC];
        // the oldest index has no prior and therefore (compaction / perspective invariant) may or
        // may not hold tombstones: allow them everywhere, they must read as "absent"
        r.idx[i] = any_desc(per, true, &mut lvl);
        r.idx[i].prior = if i == 0 { None } else { Some(i as u64 - 1) };
        r.idx[i].depth = i as u64 + 1;
        overlay(flat, &lvl);
        i += 1;
    }
    r
}

// ---------------------------------------------------------------------------------------------
// observations
// ---------------------------------------------------------------------------------------------
fn check_exact<Q: Query>(p: &Q, m: &Flat) {
    let w = any_code();
    let kw = mk_key(w);
    match p.query("f", &kw) {
        Ok(None) => assert!(m.m[w as usize].is_none()),
        Ok(Some(v)) => {
            assert!(v.len() == 1);
            assert!(m.m[w as usize] == Some(v[0]));
            core::mem::forget(v);
        }
        Err(_) => assert!(false),
    }
    // another fact name sees nothing
    match p.query("g", &kw) {
        Ok(None) => {}
        _ => assert!(false),
    }
    core::mem::forget(kw);
}

/// Returns (items listed, prefix code).
fn check_prefix<Q: Query>(p: &Q, m: &Flat, max_items: usize) -> (usize, u8) {
    let pc: u8 = kani::any();
    kani::assume(pc <= ncode());
    let pk = mk_prefix(pc);
    let mut it = match p.query_prefix("f", &pk) {
        Ok(it) => it,
        Err(_) => {
            assert!(false);
            return (0, 0);
        }
    };
    let mut want = 0;
    let mut c = 0;
    while c < NCODE {
        if m.m[c as usize].is_some() && has_prefix(c, pc) {
            want += 1;
        }
        c += 1;
    }
    let mut last: Option<u8> = None;
    let mut got = 0;
    let mut i = 0;
    while i < max_items {
        match it.next() {
            Some(Ok(f)) => {
                let c = match code_of(&f.key) {
                    Some(c) => c,
                    None => {
                        assert!(false);
                        return (0, 0);
                    }
                };
                assert!(has_prefix(c, pc));
                assert!(f.value.len() == 1);
                assert!(m.m[c as usize] == Some(f.value[0]));
                if let Some(l) = last {
                    assert!(l < c);
                }
                last = Some(c);
                got += 1;
                core::mem::forget(f);
            }
            Some(Err(_)) => assert!(false),
            None => {}
        }
        i += 1;
    }
    assert!(it.next().is_none());
    assert!(got == want);
    core::mem::forget(it);
    core::mem::forget(pk);
    (got, pc)
}

// ---------------------------------------------------------------------------------------------
// committed index chain
// ---------------------------------------------------------------------------------------------
fn index_chain(nidx: usize, per: usize, prefix: bool) -> (usize, u8) {
    let mut flat = Flat::new();
    let reader = any_reader(nidx, per, &mut flat);
    kani::assume(flat.distinct() <= CAP);
    kani::cover!(flat.hidden, "tombstone in a newer index hides a value of an older index");
    kani::cover!(flat.distinct() >= 2, "two or more distinct keys in the chain");
    let head = nidx as u64 - 1;
    let index = LinearFactIndex {
        repr: build_repr(head, &reader.idx[head as usize]),
        reader,
    };
    let mut listed = (0, 0);
    if prefix {
        listed = check_prefix(&index, &flat, nidx * per);
    } else {
        check_exact(&index, &flat);
    }
    core::mem::forget(index);
    listed
}




// ---------------------------------------------------------------------------------------------
// in-flight perspective on top of an in-memory prior on top of committed indexes
// ---------------------------------------------------------------------------------------------
fn any_perspective(ntop: usize, nmid: Option<usize>, nidx: usize, per: usize, flat: &mut Flat) -> LinearFactPerspective<VRead> {
    let reader = any_reader(nidx, per, flat);
    let bottom = if nidx == 0 {
        FactPerspectivePrior::None
    } else {
        FactPerspectivePrior::FactIndex {
            offset: nidx as u64 - 1,
            reader,
        }
    };
    let below = match nmid {
        None => bottom,
        Some(nm) => {
            let mut lvl: Level = [None; NC];
            let d = any_desc(nm, nidx > 0, &mut lvl);
            overlay(flat, &lvl);
            FactPerspectivePrior::FactPerspective(Box::new(LinearFactPerspective {
                map: build_map(&d),
                prior: bottom,
            }))
        }
    };
    let mut lvl: Level = [None; NC];
    // without any prior the code never stores tombstones (representation invariant)
    let d = any_desc(ntop, nmid.is_some() || nidx > 0, &mut lvl);
    overlay(flat, &lvl);
    LinearFactPerspective {
        map: build_map(&d),
        prior: below,
    }
}

fn perspective_chain(ntop: usize, nmid: Option<usize>, nidx: usize, per: usize, prefix: bool) -> (usize, u8) {
    let mut flat = Flat::new();
    let p = any_perspective(ntop, nmid, nidx, per, &mut flat);
    kani::assume(flat.distinct() <= CAP);
    let mut listed = (0, 0);
    if prefix {
        listed = check_prefix(&p, &flat, 6);
    } else {
        check_exact(&p, &flat);
    }
    core::mem::forget(p);
    listed
}




// ---------------------------------------------------------------------------------------------
// writes and replayed updates behave like map updates (any state, any prior kind)
// ---------------------------------------------------------------------------------------------
/// mode 0: insert/delete through QueryMut; mode 1: the same update through apply_updates
/// (mid-segment reconstruction replays per-command updates).
fn update_step(ntop: usize, nmid: Option<usize>, nidx: usize, replay: bool, prefix: bool) -> (usize, u8) {
    let mut flat = Flat::new();
    let mut p = any_perspective(ntop, nmid, nidx, 1, &mut flat);
    let c = any_code();
    let v: u8 = kani::any();
    let del: bool = kani::any();
    flat.used[c as usize] = true;
    kani::assume(flat.distinct() <= CAP);
    if replay {
        // vec![..] rather than push into a with_capacity buffer: CBMC keeps the length constant
        let ups: Vec<Update> = alloc::vec![(fname(), mk_key(c), if del { None } else { Some(bx(v)) })];
        assert!(p.apply_updates(&ups).is_ok());
        core::mem::forget(ups);
    } else if del {
        assert!(p.delete(fname(), mk_key(c)).is_ok());
    } else {
        assert!(p.insert(fname(), mk_key(c), bx(v)).is_ok());
    }
    kani::cover!(del & flat.m[c as usize].is_some(), "delete of a visible fact");
    kani::cover!(!del & flat.m[c as usize].is_some(), "overwrite of a visible fact");
    flat.m[c as usize] = if del { None } else { Some(v) };
    let mut listed = (0, 0);
    if prefix {
        listed = check_prefix(&p, &flat, 6);
    } else {
        check_exact(&p, &flat);
    }
    core::mem::forget(p);
    listed
}





// ---------------------------------------------------------------------------------------------
// compaction
// ---------------------------------------------------------------------------------------------
struct VWrite {
    reader: VRead,
    next: u64,
}

impl Write for VWrite {
    type ReadOnly = VRead;
    fn readonly(&self) -> VRead {
        self.reader
    }
    fn heads(&self) -> Result<HeadSet, StorageError> {
        unreachable!()
    }
    fn heads_offset(&self) -> Result<HeadSetOffset, StorageError> {
        unreachable!()
    }
    fn fact_cache(&self) -> Result<FactCacheOffset, StorageError> {
        unreachable!()
    }
    fn append<F, T>(&mut self, builder: F) -> Result<T, StorageError>
    where
        F: FnOnce(u64) -> T,
        T: Serialize,
    {
        let off = self.next;
        self.next += 1;
        Ok(builder(off))
    }
    fn commit(&mut self, _: &HeadSet, _: FactCacheOffset) -> Result<(), StorageError> {
        unreachable!()
    }
}

fn compact_case(nidx: usize, per: usize, prefix: bool) -> (usize, u8) {
    let mut flat = Flat::new();
    let reader = any_reader(nidx, per, &mut flat);
    kani::assume(flat.distinct() <= CAP);
    let head = nidx as u64 - 1;
    let repr = build_repr(head, &reader.idx[head as usize]);
    let mut st = LinearStorage {
        writer: VWrite { reader, next: 10 },
        cached_heads: HeadSet::default(),
    };
    let out = match st.compact(repr) {
        Ok(r) => r,
        Err(_) => {
            assert!(false);
            return (0, 0);
        }
    };
    // a compacted index stands alone ...
    assert!(out.prior.is_none());
    assert!(out.depth == 1);
    assert!(out.offset == 10);
    // ... stores no tombstone and no empty per-name map ...
    let mut live = 0;
    let mut c = 0;
    while c < NC {
        if flat.m[c].is_some() {
            live += 1;
        }
        c += 1;
    }
    match out.facts.get("f") {
        Some(m) => {
            assert!(m.len() == live && live > 0);
        }
        None => assert!(live == 0),
    }
    assert!(out.facts.len() <= 1);
    // ... and answers every query like the chain it replaces
    let index = LinearFactIndex {
        repr: out,
        reader,
    };
    let mut listed = (0, 0);
    if prefix {
        listed = check_prefix(&index, &flat, nidx * per);
    } else {
        check_exact(&index, &flat);
    }
    kani::cover!(live == 0, "everything deleted: compaction leaves an empty index");
    kani::cover!(live >= 2, "two or more facts survive compaction");
    core::mem::forget(index);
    core::mem::forget(st);
    listed
}

// ---------------------------------------------------------------------------------------------
// the prefix range scan on its own
// ---------------------------------------------------------------------------------------------
/// `find_prefixes` over ANY fact map (<= n entries, any slot layout) and ANY prefix: exactly the
/// entries under the prefix (tombstones included), ascending. This is where "range from the prefix,
/// take while it still matches" has to be right for keys that are prefixes of one another.
fn find_prefixes_case(n: usize) -> (usize, u8) {
    let mut lvl: Level = [None; NC];
    let mut slots: [Option<(Keys, Option<Bytes>)>; CAP] = [const { None }; CAP];
    let mut j = 0;
    while j < n {
        if kani::any() {
            let c = any_code();
            kani::assume(lvl[c as usize].is_none());
            let v: u8 = kani::any();
            let val = if kani::any() { Some(v) } else { None };
            slots[j] = Some((mk_key(c), val.map(bx)));
            lvl[c as usize] = Some(val);
        }
        j += 1;
    }
    let map: FactMap = Inner::from_slots(slots);
    let pc: u8 = kani::any();
    kani::assume(pc <= ncode());
    let pk = mk_prefix(pc);
    let mut n_want = 0;
    let mut c = 0;
    while c < NCODE {
        if lvl[c as usize].is_some() && has_prefix(c, pc) {
            n_want += 1;
        }
        c += 1;
    }
    let mut got = 0;
    {
        let mut it = find_prefixes(&map, &pk);
        let mut last: Option<u8> = None;
        let mut i = 0;
        while i < n {
            if let Some((k, v)) = it.next() {
                let c = match code_of(k) {
                    Some(c) => c,
                    None => {
                        assert!(false);
                        return (0, 0);
                    }
                };
                assert!(has_prefix(c, pc));
                match (lvl[c as usize], v) {
                    (Some(None), None) => {}
                    (Some(Some(x)), Some(b)) => assert!(b.len() == 1 && b[0] == x),
                    _ => assert!(false),
                }
                if let Some(l) = last {
                    assert!(l < c);
                }
                last = Some(c);
                got += 1;
            }
            i += 1;
        }
        assert!(it.next().is_none());
    }
    assert!(got == n_want);
    core::mem::forget(map);
    core::mem::forget(pk);
    (got, pc)
}

// ---------------------------------------------------------------------------------------------
// proof harnesses (sizes: see checks/C12.json)
// ---------------------------------------------------------------------------------------------
macro_rules! harness {
    ($name:ident, $mixed:expr, $body:expr) => {
        #[kani::proof]
        #[kani::unwind(7)]
        fn $name() {
            set_mixed($mixed);
            let _ = $body;
        }
    };
    ($name:ident, $mixed:expr, $body:expr, $min:expr, $text:expr) => {
        #[kani::proof]
        #[kani::unwind(7)]
        fn $name() {
            set_mixed($mixed);
            let (got, _pc) = $body;
            kani::cover!(got >= $min, $text);
        }
    };
}

// committed index chains
harness!(c12_index_chain_exact_small, false, index_chain(2, 2, false));
harness!(c12_index_chain_exact_deep, false, index_chain(3, 2, false));
harness!(c12_index_chain_prefix_small, false, index_chain(2, 1, true), 2, "prefix query over two indexes, two or more results");
harness!(c12_index_chain_prefix_deep, false, index_chain(2, 2, true), 2, "prefix query over three indexes, two or more results");
harness!(c12_index_chain_prefix_mixed, true, index_chain(2, 1, true), 2, "compound keys: two or more results");
// perspective -> prior perspective -> indexes
harness!(c12_perspective_chain_exact_small, false, perspective_chain(1, Some(1), 1, 1, false));
harness!(c12_perspective_chain_exact_deep, false, perspective_chain(2, Some(2), 2, 2, false));
harness!(c12_perspective_chain_prefix_small, false, perspective_chain(1, Some(1), 0, 1, true), 2, "prefix query across perspective and prior perspective");
harness!(c12_perspective_chain_prefix_deep, false, perspective_chain(1, Some(1), 1, 1, true), 2, "prefix query across perspective, prior perspective and index");
harness!(c12_perspective_chain_prefix_mixed, true, perspective_chain(1, Some(1), 0, 1, true), 2, "compound keys: two or more results");
// writes / replayed updates
harness!(c12_write_step_over_index, false, update_step(1, None, 1, false, false));
harness!(c12_replay_step_over_index, false, update_step(1, None, 1, true, false));
harness!(c12_replay_step_no_prior, false, update_step(2, None, 0, true, false));
harness!(c12_write_step_prefix, false, update_step(1, Some(1), 1, false, true), 2, "two or more results after the write");
harness!(c12_write_step_mixed, true, update_step(1, None, 1, false, false));
// compaction
harness!(c12_compact_exact, false, compact_case(2, 1, false));
harness!(c12_compact_deep, false, compact_case(3, 1, false));
harness!(c12_compact_prefix, false, compact_case(2, 1, true), 2, "prefix query on the compacted index, two or more results");
// prefix scan on its own, minimal full-chain variants
harness!(c12_find_prefixes_small, false, find_prefixes_case(3), 2, "two or more entries under the prefix");
harness!(c12_find_prefixes_mixed, true, find_prefixes_case(3), 2, "compound keys: two or more entries under the prefix");
harness!(c12_index_chain_prefix_min, false, index_chain(2, 1, true), 1, "prefix query over two indexes with a result");
harness!(c12_perspective_chain_exact_min, false, perspective_chain(1, None, 1, 1, false));
harness!(c12_perspective_chain_prefix_min, false, perspective_chain(1, None, 1, 1, true), 1, "prefix query over perspective and index with a result");
