// C21 — TraversalQueue ordering / coverage rules.
// Child module of aranya_runtime::storage (sees the private fields `entries`, `partition`).
// One operation from an ARBITRARY valid pre-state (inductive step), decided against an
// abstract model written from the doc comments; a universally quantified witness location
// `w` stands for "every entry".
use alloc::vec::Vec;

use super::*;

const N: usize = 4; // max entries in the pre-state
const SEGS: u64 = 5; // segment alphabet 0..5 (one more than N so that an absent segment always exists)
const MCS: u64 = 5; // max-cut alphabet 0..5

fn any_loc() -> Location {
    let s: u64 = kani::any();
    let m: u64 = kani::any();
    kani::assume(s < SEGS && m < MCS);
    Location::new(SegmentIndex::new(s), MaxCut::new(m))
}

/// Arbitrary queue with <= N entries; `distinct` = at most one entry per segment
/// (the invariant of the push/push_covered API).
///
/// `len` is CONCRETE (each harness loops over len = 0..=N): a Vec whose length is symbolic drags
/// the allocator's grow path into the formula (measured: CBMC ran out of memory at 60 GB).
fn any_queue(len: usize, distinct: bool) -> TraversalQueue {
    let mut entries: Vec<Location> = Vec::with_capacity(len + 2);
    let mut i = 0;
    while i < len {
        entries.push(any_loc());
        i += 1;
    }
    if distinct {
        let mut i = 0;
        while i < len {
            let mut j = i + 1;
            while j < len {
                kani::assume(!entries[i].same_segment(entries[j]));
                j += 1;
            }
            i += 1;
        }
    }
    let partition: usize = kani::any();
    kani::assume(partition <= len);
    TraversalQueue { entries, partition }
}

fn well_formed(q: &TraversalQueue) -> bool {
    q.partition <= q.entries.len()
}

fn distinct_segments(q: &TraversalQueue) -> bool {
    let n = q.entries.len();
    let mut i = 0;
    while i < n {
        let mut j = i + 1;
        while j < n {
            if q.entries[i].same_segment(q.entries[j]) {
                return false;
            }
            j += 1;
        }
        i += 1;
    }
    true
}

/// Number of entries equal to `w` with the given covered flag.
fn count(q: &TraversalQueue, w: Location, covered: bool) -> usize {
    let mut c = 0;
    let mut i = 0;
    while i < q.entries.len() {
        if q.entries[i] == w && ((i >= q.partition) == covered) {
            c += 1;
        }
        i += 1;
    }
    c
}

/// (max_cut, covered) of the entry for segment `s`, if any.
fn seg_entry(q: &TraversalQueue, s: SegmentIndex) -> Option<(MaxCut, bool)> {
    let mut i = 0;
    while i < q.entries.len() {
        if q.entries[i].segment == s {
            return Some((q.entries[i].max_cut, i >= q.partition));
        }
        i += 1;
    }
    None
}

fn is_max(q: &TraversalQueue, l: Location) -> bool {
    let mut i = 0;
    while i < q.entries.len() {
        if q.entries[i] > l {
            return false;
        }
        i += 1;
    }
    true
}

#[kani::proof]
#[kani::unwind(8)]
fn c21_push_covered_step() {
    let mut len = 0;
    while len < N {
        c21_push_covered_step_len(len);
        len += 1;
    }
}

#[kani::proof]
#[kani::unwind(8)]
fn c21_push_covered_step_full() {
    c21_push_covered_step_len(N);
}

fn c21_push_covered_step_len(len: usize) {
    let mut q = any_queue(len, true);
    let loc = any_loc();
    let covered: bool = kani::any();
    let w: SegmentIndex = any_loc().segment;
    let pre_w = seg_entry(&q, w);
    let pre = seg_entry(&q, loc.segment);
    let pre_len = q.entries.len();
    let r = q.push_covered(loc, covered);
    assert!(r.is_ok());
    assert!(well_formed(&q) && distinct_segments(&q));
    let post = seg_entry(&q, loc.segment);
    match pre {
        None => {
            assert!(post == Some((loc.max_cut, covered)));
            assert!(q.entries.len() == pre_len + 1);
            kani::cover!(covered, "new covered entry");
            kani::cover!(!covered & (pre_len >= 1), "new uncovered entry on non-empty pre-state");
        }
        Some((mc, cov)) => {
            assert!(q.entries.len() == pre_len);
            if loc.max_cut > mc {
                assert!(post == Some((loc.max_cut, covered)));
                kani::cover!(cov & !covered, "higher cut uncovers");
                kani::cover!(!cov & covered, "higher cut covers");
            } else if loc.max_cut == mc {
                assert!(post == Some((mc, cov || covered)));
                kani::cover!(!cov & covered, "equal cut ORs flag");
            } else {
                assert!(post == Some((mc, cov)));
                kani::cover!(true, "lower cut ignored");
            }
        }
    }
    if w != loc.segment {
        assert!(seg_entry(&q, w) == pre_w);
    }
}

#[kani::proof]
#[kani::unwind(8)]
fn c21_push_is_uncovered_push() {
    let mut len = 0;
    while len < N {
        c21_push_is_uncovered_push_len(len);
        len += 1;
    }
}

#[kani::proof]
#[kani::unwind(8)]
fn c21_push_is_uncovered_push_full() {
    c21_push_is_uncovered_push_len(N);
}

fn c21_push_is_uncovered_push_len(len: usize) {
    let mut q = any_queue(len, true);
    let loc = any_loc();
    let pre = seg_entry(&q, loc.segment);
    let r = q.push(loc);
    assert!(r.is_ok());
    assert!(well_formed(&q) && distinct_segments(&q));
    let post = seg_entry(&q, loc.segment);
    match pre {
        None => assert!(post == Some((loc.max_cut, false))),
        Some((mc, cov)) => {
            if loc.max_cut > mc {
                assert!(post == Some((loc.max_cut, false)));
            } else {
                assert!(post == Some((mc, cov)));
            }
        }
    }
}

#[kani::proof]
#[kani::unwind(8)]
fn c21_pop_covered_step() {
    let mut len = 0;
    while len < N {
        c21_pop_covered_step_len(len);
        len += 1;
    }
}

#[kani::proof]
#[kani::unwind(8)]
fn c21_pop_covered_step_full() {
    c21_pop_covered_step_len(N);
}

fn c21_pop_covered_step_len(len: usize) {
    let mut q = any_queue(len, true);
    let w = any_loc();
    let wc: bool = kani::any();
    let pre_count = count(&q, w, wc);
    let pre_len = q.entries.len();
    let pre_peek = q.peek().copied();
    let q0 = TraversalQueue { entries: q.entries.clone(), partition: q.partition };
    let r = q.pop_covered();
    match r {
        Ok(None) => {
            assert!(pre_len == 0);
            assert!(pre_peek.is_none());
        }
        Ok(Some((loc, cov))) => {
            assert!(pre_len > 0);
            // it was in the queue with that flag, and nothing in the queue was higher
            assert!(count(&q0, loc, cov) == 1);
            assert!(is_max(&q0, loc));
            assert!(pre_peek == Some(loc));
            assert!(q.entries.len() == pre_len - 1);
            assert!(well_formed(&q) && distinct_segments(&q));
            // every other entry keeps its flag
            if w == loc {
                assert!(count(&q, w, wc) == 0);
            } else {
                assert!(count(&q, w, wc) == pre_count);
            }
            kani::cover!(cov & (pre_len >= 2), "popped a covered entry");
            kani::cover!(!cov & (q0.partition > 1), "popped an uncovered entry, others remain");
        }
        Err(_) => panic!("pop_covered failed on a well-formed queue"),
    }
    core::mem::forget(q0);
}

#[kani::proof]
#[kani::unwind(8)]
fn c21_cover_up_to_step() {
    let mut len = 0;
    while len < N {
        c21_cover_up_to_step_len(len);
        len += 1;
    }
}

#[kani::proof]
#[kani::unwind(8)]
fn c21_cover_up_to_step_full() {
    c21_cover_up_to_step_len(N);
}

fn c21_cover_up_to_step_len(len: usize) {
    let mut q = any_queue(len, true);
    let s = any_loc().segment;
    let coverage: u64 = kani::any();
    let longest: u64 = kani::any();
    let w = any_loc().segment;
    let pre_w = seg_entry(&q, w);
    let pre = seg_entry(&q, s);
    let pre_len = q.entries.len();
    let r = q.cover_up_to(s, MaxCut::new(coverage), MaxCut::new(longest));
    assert!(r.is_ok());
    assert!(well_formed(&q) && distinct_segments(&q));
    assert!(q.entries.len() == pre_len);
    let post = seg_entry(&q, s);
    match pre {
        None => assert!(post.is_none()),
        Some((mc, true)) => assert!(post == Some((mc, true))),
        Some((mc, false)) => {
            if coverage >= longest {
                assert!(post == Some((mc, true)));
                kani::cover!(true, "fully covered");
            } else if coverage >= mc.get() {
                assert!(post == Some((MaxCut::new(coverage + 1), false)));
                kani::cover!(coverage == mc.get(), "partially covered at the boundary");
            } else {
                assert!(post == Some((mc, false)));
                kani::cover!(true, "coverage below start");
            }
        }
    }
    if w != s {
        assert!(seg_entry(&q, w) == pre_w);
    }
}

#[kani::proof]
#[kani::unwind(8)]
fn c21_drain_above_step() {
    let mut len = 0;
    while len < N {
        c21_drain_above_step_len(len);
        len += 1;
    }
}

#[kani::proof]
#[kani::unwind(8)]
fn c21_drain_above_step_full() {
    c21_drain_above_step_len(N);
}

fn c21_drain_above_step_len(len: usize) {
    let mut q = any_queue(len, true);
    let t: u64 = kani::any();
    kani::assume(t <= MCS);
    let threshold = MaxCut::new(t);
    let w = any_loc();
    let pre_unc = count(&q, w, false);
    let pre_cov = count(&q, w, true);
    let mut out: [Option<Location>; N] = [None; N];
    let mut n_out = 0usize;
    let r = q.drain_above(threshold, |l| {
        out[n_out] = Some(l);
        n_out += 1;
    });
    assert!(r.is_ok());
    assert!(well_formed(&q) && distinct_segments(&q));
    // how often was w yielded?
    let mut yielded = 0;
    let mut i = 0;
    while i < N {
        if out[i] == Some(w) {
            yielded += 1;
        }
        i += 1;
    }
    if w.max_cut > threshold {
        // exactly the uncovered entries above the threshold are yielded; all above are removed
        assert!(yielded == pre_unc);
        assert!(count(&q, w, false) == 0 && count(&q, w, true) == 0);
        kani::cover!(pre_cov == 1, "covered entry above threshold discarded");
        kani::cover!((pre_unc == 1) & (n_out >= 2), "several uncovered entries drained");
    } else {
        assert!(yielded == 0);
        assert!(count(&q, w, false) == pre_unc && count(&q, w, true) == pre_cov);
        kani::cover!(pre_unc == 1, "uncovered entry at or below threshold kept");
    }
}

#[kani::proof]
#[kani::unwind(8)]
fn c21_drain_all_step() {
    let mut len = 0;
    while len < N {
        c21_drain_all_step_len(len);
        len += 1;
    }
}

#[kani::proof]
#[kani::unwind(8)]
fn c21_drain_all_step_full() {
    c21_drain_all_step_len(N);
}

fn c21_drain_all_step_len(len: usize) {
    let mut q = any_queue(len, true);
    let w = any_loc();
    let pre_unc = count(&q, w, false);
    let mut out: [Option<Location>; N] = [None; N];
    let mut n_out = 0usize;
    let pre_part = q.partition;
    q.drain_all(|l| {
        out[n_out] = Some(l);
        n_out += 1;
    });
    let mut yielded = 0;
    let mut i = 0;
    while i < N {
        if out[i] == Some(w) {
            yielded += 1;
        }
        i += 1;
    }
    assert!(yielded == pre_unc);
    assert!(n_out == pre_part);
    assert!(q.is_empty() && q.all_covered() && q.partition == 0);
    kani::cover!((pre_unc == 1) & (pre_part < len), "mixed queue drained");
}

/// Duplicate API (convergence pre-pass): multiset semantics.
#[kani::proof]
#[kani::unwind(8)]
fn c21_duplicates_step() {
    let mut len = 0;
    while len < N {
        c21_duplicates_step_len(len);
        len += 1;
    }
}

#[kani::proof]
#[kani::unwind(8)]
fn c21_duplicates_step_full() {
    c21_duplicates_step_len(N);
}

fn c21_duplicates_step_len(len: usize) {
    let mut q = any_queue(len, false);
    let w = any_loc();
    let wc: bool = kani::any();
    let loc = any_loc();
    let pre = count(&q, w, wc);
    let r = q.push_duplicate(loc);
    assert!(r.is_ok());
    assert!(well_formed(&q));
    let mid = count(&q, w, wc);
    if w == loc && !wc {
        assert!(mid == pre + 1);
    } else {
        assert!(mid == pre);
    }
    let q0 = TraversalQueue { entries: q.entries.clone(), partition: q.partition };
    let pk = q.peek().copied();
    match q.pop_duplicates() {
        Ok(Some((l, n))) => {
            assert!(pk == Some(l));
            assert!(is_max(&q0, l));
            assert!(n == count(&q0, l, false) + count(&q0, l, true));
            assert!(n >= 1);
            assert!(well_formed(&q));
            if w == l {
                assert!(count(&q, w, wc) == 0);
            } else {
                assert!(count(&q, w, wc) == mid);
            }
            kani::cover!(n >= 3, "three duplicates popped at once");
            kani::cover!((n == 2) & (q.entries.len() >= 1), "duplicates popped, others stay");
        }
        Ok(None) => panic!("queue cannot be empty after a push"),
        Err(_) => panic!("pop_duplicates failed on a well-formed queue"),
    }
    core::mem::forget(q0);
}

/// Cross-check that the representation invariant assumed above is not too weak:
/// three arbitrary operations from the empty queue against the same model.
// (not registered: runs CBMC out of memory - symbolic op choice over a growing Vec)
#[cfg(any())]
#[kani::proof]
#[kani::unwind(8)]
fn c21_three_ops_from_empty() {
    // (capacity reserved up front: growth from an empty Vec under symbolic control flow is what
    // made the first version of this harness run out of memory)
    let mut q = TraversalQueue { entries: Vec::with_capacity(4), partition: 0 };
    // model: per segment Option<(mc, covered)>
    let mut model: [Option<(u64, bool)>; SEGS as usize] = [None; SEGS as usize];
    let mut k = 0;
    while k < 3 {
        let op: u8 = kani::any();
        kani::assume(op < 3);
        if op == 0 {
            let loc = any_loc();
            let c: bool = kani::any();
            assert!(q.push_covered(loc, c).is_ok());
            let s = loc.segment.get() as usize;
            let m = loc.max_cut.get();
            model[s] = match model[s] {
                None => Some((m, c)),
                Some((mc, cv)) => {
                    if m > mc {
                        Some((m, c))
                    } else if m == mc {
                        Some((mc, cv || c))
                    } else {
                        Some((mc, cv))
                    }
                }
            };
        } else if op == 1 {
            let s = any_loc().segment;
            let cv: u64 = kani::any();
            let lg: u64 = kani::any();
            kani::assume(cv < 8 && lg < 8);
            assert!(q.cover_up_to(s, MaxCut::new(cv), MaxCut::new(lg)).is_ok());
            let si = s.get() as usize;
            if let Some((mc, false)) = model[si] {
                if cv >= lg {
                    model[si] = Some((mc, true));
                } else if cv >= mc {
                    model[si] = Some((cv + 1, false));
                }
            }
        } else {
            let r = match q.pop_covered() {
                Ok(r) => r,
                Err(_) => panic!("pop failed"),
            };
            // model pop: highest (mc, seg)
            let mut best: Option<(u64, usize, bool)> = None;
            let mut s = 0;
            while s < SEGS as usize {
                if let Some((mc, cv)) = model[s] {
                    let better = match best {
                        None => true,
                        Some((bm, bs, _)) => (mc, s) > (bm, bs),
                    };
                    if better {
                        best = Some((mc, s, cv));
                    }
                }
                s += 1;
            }
            match (r, best) {
                (None, None) => {}
                (Some((l, c)), Some((bm, bs, bc))) => {
                    assert!(l.max_cut.get() == bm && l.segment.get() as usize == bs && c == bc);
                    model[bs] = None;
                }
                _ => panic!("model and queue disagree on emptiness"),
            }
        }
        k += 1;
    }
    let w = any_loc().segment;
    let got = seg_entry(&q, w).map(|(m, c)| (m.get(), c));
    assert!(got == model[w.get() as usize]);
    assert!(well_formed(&q) && distinct_segments(&q));
}
