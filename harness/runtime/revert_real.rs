// C13 — anchor harnesses on the UNSUBSTITUTED code (group `runtime`: the real std BTreeMap).
// Child module of aranya_runtime::storage::linear.
//
// std's B-tree is very expensive for CBMC (see vmap.rs), so these are tiny scenarios through the
// public QueryMut / Revertable / Query API only; the broad checks live in revert.rs (group
// `runtime_vmap`). Their purpose: show that the verdicts obtained with the slab map (one passing
// scenario, and the counterexample of the literal statement) are the same on the real map.
use alloc::{boxed::Box, string::String};

use serde::de::DeserializeOwned;

use super::*;

#[derive(Clone)]
struct NoRead;
impl Read for NoRead {
    fn fetch<T: DeserializeOwned>(&self, _offset: u64) -> Result<T, StorageError> {
        Err(StorageError::IoError)
    }
}

fn fname() -> String {
    String::from("f")
}
fn key(k: u8) -> Keys {
    crate::storage::Keys(Box::new([Box::new([k]) as Bytes]))
}
fn val(v: u8) -> Bytes {
    Box::new([v])
}

fn fresh() -> LinearPerspective<NoRead> {
    LinearPerspective::new(
        Prior::None,
        Prior::None,
        PolicyId::new(0),
        FactPerspectivePrior::None,
        MaxCut::new(0),
        None,
    )
}

/// A rule writes one fact and fails: checkpoint (nothing pending), insert, revert.
#[kani::proof]
#[kani::unwind(4)]
fn c13_real_failed_rule() {
    let mut p = fresh();
    let cp = p.checkpoint();
    let k: u8 = kani::any();
    let v: u8 = kani::any();
    assert!(p.insert(fname(), key(k), val(v)).is_ok());
    assert!(p.revert(cp).is_ok());
    assert!(p.current_updates.is_empty());
    let w: u8 = kani::any();
    match p.query("f", &key(w)) {
        Ok(None) => {}
        _ => assert!(false),
    }
    kani::cover!(w == k, "query of the discarded key");
    core::mem::forget(p);
}

/// The literal statement: a checkpoint taken while a write is pending.
#[kani::proof]
#[kani::unwind(4)]
fn c13_real_checkpoint_with_pending_writes() {
    let mut p = fresh();
    let k: u8 = kani::any();
    let v: u8 = kani::any();
    assert!(p.insert(fname(), key(k), val(v)).is_ok());
    let cp = p.checkpoint();
    assert!(p.revert(cp).is_ok());
    match p.query("f", &key(k)) {
        Ok(Some(x)) => assert!(x.len() == 1 && x[0] == v),
        Ok(None) => assert!(false, "C13: fact visible at checkpoint time is gone after revert"),
        Err(_) => assert!(false),
    }
    core::mem::forget(p);
}
