// C18 — sync message handling never panics (responder side).
// Child module of aranya_runtime::sync::responder: sees the private fields of SyncResponder,
// SyncResponderState and dispatch.
//
// Kani is run with debug assertions on, so `buggy::Bug::new` (bug!, .assume()) is a PANIC here.
//
//  * (the decode step of the request kinds from raw bytes is in sync_msg.rs)
//  * structured: every SyncRequestMessage variant with symbolic fields through
//    SyncResponder::dispatch (= receive) on every valid responder state against the exact
//    specification (session id check, state transitions), followed by SyncResponder::poll with a
//    storage provider that has no graph (everything that can be reached without a stored graph).
use super::*;
use crate::PolicyId;
use crate::storage::{
    linear::{
        LinearPerspective, LinearSegment, LinearStorage,
        testing::{Reader, Writer},
    },
};

// ---------------------------------------------------------------------------------------------
// a storage provider without any graph
// ---------------------------------------------------------------------------------------------

struct NoGraphs;

impl StorageProvider for NoGraphs {
    type Perspective = LinearPerspective<Reader>;
    type Segment = LinearSegment<Reader>;
    type Storage = LinearStorage<Writer>;

    fn new_perspective(&mut self, _policy_id: PolicyId) -> Self::Perspective {
        panic!("not used")
    }

    fn new_storage(
        &mut self,
        _init: Self::Perspective,
    ) -> Result<(GraphId, &mut Self::Storage), StorageError> {
        Err(StorageError::IoError)
    }

    fn get_storage(&mut self, _graph: GraphId) -> Result<&mut Self::Storage, StorageError> {
        Err(StorageError::NoSuchStorage)
    }

    fn remove_storage(&mut self, _graph: GraphId) -> Result<(), StorageError> {
        Err(StorageError::NoSuchStorage)
    }

    fn list_graph_ids(
        &mut self,
    ) -> Result<impl Iterator<Item = Result<GraphId, StorageError>>, StorageError> {
        Ok(core::iter::empty())
    }
}

// ---------------------------------------------------------------------------------------------
// arbitrary values
// ---------------------------------------------------------------------------------------------

fn state_no(s: &SyncResponderState) -> u8 {
    match s {
        SyncResponderState::New => 0,
        SyncResponderState::Start => 1,
        SyncResponderState::Send => 2,
        SyncResponderState::Idle => 3,
        SyncResponderState::Reset => 4,
        SyncResponderState::Stopped => 5,
    }
}

fn any_graph_id() -> GraphId {
    let b: [u8; 32] = kani::any();
    GraphId::from_bytes(b)
}

fn any_address() -> Address {
    let b: [u8; 32] = kani::any();
    let m: u64 = kani::any();
    Address {
        id: CmdId::from_bytes(b),
        max_cut: MaxCut::new(m),
    }
}

/// Any responder that satisfies the representation invariant established by `new` + `dispatch`
/// (+ `poll`):  session_id is None exactly in state New;  Start / Send / Idle imply a graph id.
/// `has` / `to_send` hold `n_has` / `n_send` arbitrary entries (concrete counts).
fn any_responder(n_has: usize, n_send: usize) -> SyncResponder {
    let s: u8 = kani::any();
    kani::assume(s < 6);
    responder_in(s, n_has, n_send)
}

/// Same with the state given by the caller (0 New .. 5 Stopped; may be concrete).
fn responder_in(s: u8, n_has: usize, n_send: usize) -> SyncResponder {
    let state = match s {
        0 => SyncResponderState::New,
        1 => SyncResponderState::Start,
        2 => SyncResponderState::Send,
        3 => SyncResponderState::Idle,
        4 => SyncResponderState::Reset,
        _ => SyncResponderState::Stopped,
    };
    let session_id: Option<u128> = if s == 0 { None } else { Some(kani::any()) };
    let graph_id: Option<GraphId> = if s == 0 {
        None
    } else if s <= 3 || kani::any() {
        Some(any_graph_id())
    } else {
        None
    };
    let mut has: Vec<Address, COMMAND_SAMPLE_MAX> = Vec::new();
    let mut i = 0;
    while i < n_has {
        let _ = has.push(any_address());
        i += 1;
    }
    let mut to_send: Vec<Location, SEGMENT_BUFFER_MAX> = Vec::new();
    let mut i = 0;
    while i < n_send {
        let a: u64 = kani::any();
        let b: u64 = kani::any();
        let _ = to_send.push(Location::new(crate::storage::SegmentIndex::new(a), MaxCut::new(b)));
        i += 1;
    }
    SyncResponder {
        session_id,
        graph_id,
        state,
        bytes_sent: kani::any(),
        next_send: kani::any(),
        message_index: kani::any(),
        has,
        to_send,
    }
}

const POLL_WROTE_END_SESSION: u8 = 30;
const POLL_WROTE_SYNC_END: u8 = 31;
const POLL_NOT_READY: u8 = 32;
const POLL_NO_SUCH_GRAPH: u8 = 33;
const POLL_TARGET_TOO_SMALL: u8 = 34;

/// `poll` without a stored graph: never panics; what it returns is determined by the state.
/// `tl` = length of the target buffer (concrete: a symbolic length makes every byte written by
/// the postcard serializer a symbolic branch; measured > 4 GB).
fn poll_without_graph(r: &mut SyncResponder, tl: usize) -> u8 {
    let pre = state_no(&r.state);
    let pre_ready = r.ready();
    let done = r.next_send >= r.to_send.len();
    let mut target = [0u8; 32];
    let mut provider = NoGraphs;
    let mut cache = PeerCache::new();
    let mut buffers = TraversalBuffers::new();
    let res = r.poll(&mut target[..tl], &mut provider, &mut cache, &mut buffers);
    core::mem::forget(buffers);
    match res {
        Ok(n) => {
            assert!(n <= tl && n <= 32);
            assert!(pre_ready);
            // only an EndSession (after Reset) or a SyncEnd (nothing left to send) can be produced
            assert!(pre == 4 || (pre == 2 && done));
            if pre == 4 {
                assert!(state_no(&r.state) == 5);
                POLL_WROTE_END_SESSION
            } else {
                assert!(state_no(&r.state) == 3);
                POLL_WROTE_SYNC_END
            }
        }
        Err(SyncError::NotReady) => {
            assert!(!pre_ready);
            assert!(state_no(&r.state) == pre);
            POLL_NOT_READY
        }
        Err(SyncError::Storage(StorageError::NoSuchStorage)) => {
            assert!(pre == 1 || (pre == 2 && !done));
            assert!(state_no(&r.state) == 4);
            POLL_NO_SUCH_GRAPH
        }
        Err(SyncError::Serialize(_)) => {
            assert!(pre == 4 || (pre == 2 && done));
            POLL_TARGET_TOO_SMALL
        }
        Err(_) => panic!("unexpected error kind"),
    }
}

const DISPATCH_OTHER_SESSION: u8 = 10;
const DISPATCH_STARTED: u8 = 11;
const DISPATCH_RESTARTED: u8 = 12;
const DISPATCH_UNSUPPORTED: u8 = 13;
const DISPATCH_STOPPED: u8 = 14;

/// Exact specification of `dispatch` for one message (fields read before the call).
fn check_dispatch(
    r: &SyncResponder,
    res: &Result<(), SyncError>,
    pre_state: u8,
    pre_session: Option<u128>,
    msg_session: u128,
    variant: u8,
) -> u8 {
    let expected_session = match pre_session {
        None => msg_session,
        Some(s) => s,
    };
    assert!(r.session_id == Some(expected_session));
    if msg_session != expected_session {
        // a poll for another session never changes the responder
        assert!(matches!(res, Err(SyncError::SessionMismatch)));
        assert!(state_no(&r.state) == pre_state);
        return DISPATCH_OTHER_SESSION;
    }
    match variant {
        0 => {
            assert!(res.is_ok());
            assert!(state_no(&r.state) == 1 && r.graph_id.is_some() && r.next_send == 0);
            assert!(r.to_send.is_empty());
            assert!(r.ready());
            if pre_session.is_none() { DISPATCH_STARTED } else { DISPATCH_RESTARTED }
        }
        1 | 2 => {
            assert!(matches!(res, Err(SyncError::UnsupportedRequest)));
            assert!(state_no(&r.state) == 4);
            assert!(r.ready());
            DISPATCH_UNSUPPORTED
        }
        _ => {
            assert!(res.is_ok());
            assert!(state_no(&r.state) == 5);
            DISPATCH_STOPPED
        }
    }
}

fn variant_no(m: &SyncRequestMessage) -> u8 {
    match m {
        SyncRequestMessage::SyncRequest { .. } => 0,
        SyncRequestMessage::RequestMissing { .. } => 1,
        SyncRequestMessage::SyncResume { .. } => 2,
        SyncRequestMessage::EndSession { .. } => 3,
    }
}

// ---------------------------------------------------------------------------------------------
// B. structured requests
// ---------------------------------------------------------------------------------------------

fn dispatch_case(k: usize) -> (u8, u8) {
    let msg_session: u128 = kani::any();
    let v: u8 = kani::any();
    kani::assume(v < 4);
    let message = match v {
        0 => {
            let mut commands: Vec<Address, COMMAND_SAMPLE_MAX> = Vec::new();
            let mut i = 0;
            while i < k {
                let _ = commands.push(any_address());
                i += 1;
            }
            SyncRequestMessage::SyncRequest {
                session_id: msg_session,
                graph_id: any_graph_id(),
                max_bytes: kani::any(),
                commands,
            }
        }
        1 => {
            let mut indexes = Vec::new();
            if kani::any() {
                let _ = indexes.push(kani::any());
            }
            SyncRequestMessage::RequestMissing {
                session_id: msg_session,
                indexes,
            }
        }
        2 => SyncRequestMessage::SyncResume {
            session_id: msg_session,
            response_index: kani::any(),
            max_bytes: kani::any(),
        },
        _ => SyncRequestMessage::EndSession {
            session_id: msg_session,
        },
    };
    let mut r = any_responder(1, 1);
    let pre_state = state_no(&r.state);
    let pre_session = r.session_id;
    let res = r.dispatch(message);
    let d = check_dispatch(&r, &res, pre_state, pre_session, msg_session, v);
    if v == 0 && res.is_ok() {
        assert!(r.has.len() == k);
    }
    // (`poll` afterwards: decided from every valid responder state by
    // c18_responder_poll_any_state; composing both here ran into the memory watchdog)
    core::mem::forget(r);
    (d, 0)
}

/// Every request kind with all field values, on every valid responder state.
#[kani::proof]
#[kani::unwind(4)]
fn c18_responder_dispatch_structured() {
    let (d0, _) = dispatch_case(0);
    let (d, _) = dispatch_case(2);
    kani::cover!(d0 == DISPATCH_STARTED, "first SyncRequest (empty sample) starts the session");
    kani::cover!(d == DISPATCH_OTHER_SESSION, "poll for another session rejected");
    kani::cover!(d == DISPATCH_STARTED, "first SyncRequest starts the session");
    kani::cover!(d == DISPATCH_RESTARTED, "SyncRequest restarts a matching session");
    kani::cover!(d == DISPATCH_UNSUPPORTED, "RequestMissing / SyncResume rejected");
    kani::cover!(d == DISPATCH_STOPPED, "EndSession stops the session");
}

/// `poll` without a stored graph from the states that do not consult the storage: New / Idle /
/// Stopped (NotReady), Reset (EndSession written), Send with nothing left to send (SyncEnd
/// written). The state is concrete per call: with a symbolic state CBMC also executes the
/// storage-walking arms (find_needed_segments, segment deserialization) on unconstrained data
/// (measured: > 4 GB, no result in 10 min) although the provider has no graph.
/// `tl`: target length.
fn poll_storage_free_states(tl: usize) -> [bool; 40] {
    let mut seen = [false; 40];
    let states: [u8; 5] = [0, 2, 3, 4, 5];
    let mut i = 0;
    while i < 5 {
        let mut r = responder_in(states[i], 1, 0);
        let q = poll_without_graph(&mut r, tl);
        seen[q as usize] = true;
        core::mem::forget(r);
        i += 1;
    }
    seen
}

#[kani::proof]
#[kani::unwind(21)]
fn c18_responder_poll_storage_free() {
    let seen = poll_storage_free_states(32);
    kani::cover!(seen[POLL_WROTE_END_SESSION as usize], "EndSession written");
    kani::cover!(seen[POLL_WROTE_SYNC_END as usize], "SyncEnd written");
    kani::cover!(seen[POLL_NOT_READY as usize], "poll while not ready");
}

/// Same with a target buffer that is too small for any message.
#[kani::proof]
#[kani::unwind(21)]
fn c18_responder_poll_tiny_target() {
    let seen = poll_storage_free_states(2);
    kani::cover!(seen[POLL_TARGET_TOO_SMALL as usize], "target too small");
    kani::cover!(seen[POLL_NOT_READY as usize], "poll while not ready");
}
