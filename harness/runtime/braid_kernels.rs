// C02 / C03 / C05 kernels — cheap one-structure harnesses for the pieces the braid is made of.
// Child module of aranya_runtime::client::braiding.
use super::{strand_heap::{Strand, StrandHeap}, *};
use crate::{MaxCut, Prior, SegmentIndex};

#[path = "vstore.rs"]
mod vstore;
use vstore::*;

fn any_prio() -> VPrio {
    let kind: u8 = kani::any();
    kani::assume(kind <= 3);
    let n: u8 = kani::any();
    let hi: bool = kani::any();
    VPrio { kind, n: if kind == 1 { n } else { 0 }, hi: (kind == 1) & hi }
}

/// store with `k` one-command segments (chain), symbolic ids (distinct) and priorities
fn store_with(k: usize) -> (VStore, [u8; 4], [VPrio; 4]) {
    let mut st = VStore::new();
    let mut ids = [0u8; 4];
    let mut prios = [VPrio::basic(0); 4];
    let mut i = 0;
    while i < k {
        let id: u8 = kani::any();
        let mut j = 0;
        while j < i {
            kani::assume(ids[j] != id);
            j += 1;
        }
        ids[i] = id;
        prios[i] = any_prio();
        let prior = if i == 0 { Prior::None } else { Prior::Single(loc(i as u64 - 1, i as u64 - 1)) };
        let s = st.add_seg(prior, i as u64, 1) as usize;
        st.segs[s].ids[0] = id;
        st.segs[s].prios[0] = prios[i];
        i += 1;
    }
    (st, ids, prios)
}

fn key_lt(pa: VPrio, ia: u8, pb: VPrio, ib: u8) -> bool {
    if pa.key() != pb.key() { pa.key() < pb.key() } else { ia < ib }
}

/// C03 tie-break rule: the strand heap is a max-heap on the REVERSED (priority, id) key, i.e.
/// `a > b` as strands iff key(a) < key(b); the Priority order is Merge < Basic(n) < Finalize < Init
/// with Basic ordered by n (all u32).
#[kani::proof]
#[kani::unwind(34)]
fn braidk_strand_order() {
    let (mut st, ids, prios) = store_with(2);
    let a = match Strand::new(&mut st, loc(0, 0), None) { Ok(s) => s, Err(_) => panic!("strand") };
    let b = match Strand::new(&mut st, loc(1, 1), None) { Ok(s) => s, Err(_) => panic!("strand") };
    let lt = key_lt(prios[0], ids[0], prios[1], ids[1]);
    let gt = key_lt(prios[1], ids[1], prios[0], ids[0]);
    assert!(lt != gt); // distinct ids => total order
    assert!((a > b) == lt);
    assert!((a < b) == gt);
    assert!((a == b) == false);
    assert!(a.cmp(&b) == b.cmp(&a).reverse());
    kani::cover!((prios[0].kind == 1) & (prios[1].kind == 1) & (prios[0].value() == prios[1].value()) & lt, "tie broken by id");
    kani::cover!((prios[0].kind == 2) & (prios[1].kind == 1) & gt, "finalize sorts after basic");
    // Basic(u32::MAX) is still below Finalize whatever the ids are
    if (prios[0].kind == 2) & (prios[1].kind == 1) {
        assert!(gt);
    }
    kani::cover!((prios[0].kind == 2) & (prios[1].kind == 1) & prios[1].hi & (prios[1].n == 0) & (ids[1] > ids[0]), "finalize vs Basic(u32::MAX) with the greater id");
    kani::cover!((prios[0].kind == 0) & (prios[1].kind == 1) & lt, "merge sorts before basic");
}

/// C05: StrandHeap with two strands: pushing a second finalize while one is in the heap is
/// ParallelFinalize and nothing else is; after a strand left the heap via lone() the flag is
/// reset and a finalize is accepted again.
#[kani::proof]
#[kani::unwind(6)]
fn braidk_strand_heap2() {
    let (mut st, ids, prios) = store_with(2);
    let mut heap: StrandHeap<VSeg> = StrandHeap::new();
    let a = match Strand::new(&mut st, loc(0, 0), None) { Ok(s) => s, Err(_) => panic!("strand") };
    let b = match Strand::new(&mut st, loc(1, 1), None) { Ok(s) => s, Err(_) => panic!("strand") };
    assert!(heap.push(a).is_ok());
    assert!(heap.lone().is_some()); // one strand: lone pops it
    assert!(heap.pop().is_none());
    let a = match Strand::new(&mut st, loc(0, 0), None) { Ok(s) => s, Err(_) => panic!("strand") };
    // even if `a` was a finalize, it left through lone(): pushing it again must succeed
    assert!(heap.push(a).is_ok());
    // ... and the same when it leaves through pop()
    match heap.pop() {
        Some(s) => core::mem::forget(s),
        None => panic!("one strand present"),
    }
    let a = match Strand::new(&mut st, loc(0, 0), None) { Ok(s) => s, Err(_) => panic!("strand") };
    assert!(heap.push(a).is_ok());
    let both_fin = (prios[0].kind == 2) & (prios[1].kind == 2);
    match heap.push(b) {
        Ok(()) => {
            assert!(!both_fin);
            assert!(heap.lone().is_none()); // two strands: not lone
            kani::cover!((prios[0].kind == 2) & (prios[1].kind != 2), "one finalize plus another strand accepted");
            kani::cover!((prios[0].kind == 1) & (prios[1].kind == 1) & (prios[0].value() == prios[1].value()), "tie");
            // (popping from a two-element BinaryHeap is where CBMC runs out of memory: the order
            // of pops is covered by braidk_strand_order, which decides the Ord the heap uses)
        }
        Err(ClientError::ParallelFinalize) => {
            assert!(both_fin);
            kani::cover!(true, "second finalize rejected");
        }
        Err(_) => panic!("unexpected error"),
    }
    core::mem::forget(heap);
}

/// C02: BraidResult yields exactly the pushed locations in reverse push order, across in-memory
/// and spilled blocks (block size is the scaled BRAID_BLOCK_ENTRIES).
fn braid_result_case(n: usize) {
    let mut r: BraidResult<VSpill> = BraidResult::new(VSpill::new());
    let mut pushed = [loc(0, 0); 8];
    let mut i = 0;
    while i < n {
        let s: u64 = kani::any();
        let m: u64 = kani::any();
        pushed[i] = loc(s, m);
        match r.push(pushed[i]) { Ok(()) => {}, Err(_) => panic!("push failed") }
        i += 1;
    }
    let expect_spilled = if n == 0 { 0 } else { ((n - 1) / BRAID_BLOCK_ENTRIES) * BRAID_BLOCK_ENTRIES };
    assert!(r.spill_len == expect_spilled);
    let mut it = match r.iter() { Ok(it) => it, Err(_) => panic!("iter failed") };
    let mut k = 0;
    while k < n {
        match it.next() {
            Some(Ok(l)) => assert!(l == pushed[n - 1 - k]),
            _ => panic!("iterator ended early or failed"),
        }
        k += 1;
    }
    assert!(it.next().is_none());
    assert!(it.next().is_none());
    kani::cover!(expect_spilled >= 2 * BRAID_BLOCK_ENTRIES, "two blocks spilled and read back");
}

#[kani::proof]
#[kani::unwind(34)]
fn braidk_result_reverse_order() {
    let mut n = 0;
    while n <= 7 {
        braid_result_case(n);
        n += 1;
    }
}

/// C05: the finalize flag means "a finalize strand IS IN the heap", not "the last pushed strand
/// was a finalize": three pushes with arbitrary priorities — push i is refused with
/// ParallelFinalize exactly when strand i is a finalize and an earlier accepted strand is one
/// (added after a seeded change `has_finalize = is_finalize` went undetected by the 2-strand kernel).
#[kani::proof]
#[kani::unwind(6)]
fn braidk_strand_heap3_finalize_flag() {
    let (mut st, _ids, prios) = store_with(3);
    let mut heap: StrandHeap<VSeg> = StrandHeap::new();
    let mut fin_in_heap = false;
    let mut i = 0;
    while i < 3 {
        let s = match Strand::new(&mut st, loc(i as u64, i as u64), None) { Ok(s) => s, Err(_) => panic!("strand") };
        let is_fin = prios[i].kind == 2;
        match heap.push(s) {
            Ok(()) => {
                assert!(!(is_fin & fin_in_heap), "C05: a second concurrent finalize strand was accepted");
                if is_fin {
                    fin_in_heap = true;
                }
            }
            Err(ClientError::ParallelFinalize) => {
                assert!(is_fin & fin_in_heap, "C05: spurious ParallelFinalize");
            }
            Err(_) => panic!("unexpected error"),
        }
        i += 1;
    }
    kani::cover!((prios[0].kind == 2) & (prios[1].kind != 2) & (prios[2].kind == 2), "finalize, other, finalize");
    kani::cover!((prios[0].kind != 2) & (prios[1].kind == 2) & (prios[2].kind == 2), "other, finalize, finalize");
    core::mem::forget(heap);
}
