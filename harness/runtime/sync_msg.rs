// C18 — sync message handling never panics (decode + requester side).
// Child module of aranya_runtime::sync::requester: sees the private fields of SyncRequester,
// SyncRequesterState, get_sync_commands, and (as a descendant of `sync`) the private fields of
// SyncCommand / PushIncoming / SubscribeIncoming / Hello*.
//
// Kani is run with debug assertions on, so `buggy::Bug::new` (bug!, .assume()) is a PANIC here:
// a harness that passes also shows that no `Bug` is ever produced from the inputs it covers.
//
// A. raw bytes (decode step): symbolic bytes behind concrete enum tags, concrete lengths, through
//    the real postcard/serde decoders for the integer-only message kinds; Kani's automatic checks
//    (panic, OOB, arithmetic overflow, invalid pointer) are the oracle; the undecoded remainder
//    lies inside the input.
// B. structured (processing step): SyncRequester::get_sync_commands - the body of receive and
//    receive_push after decoding - on a SyncResponse with k CommandMeta whose lengths / session id
//    / index are symbolic (all u32 / u128 / u64 values) and a symbolic-length tail, against the
//    exact spec; and on the three control kinds.
// A quantifies over bytes, B over every decoded value, so B covers whatever A's decoders return.
use super::{
    super::{
        SubscribeResponse,
        wire::CommandMeta,
    },
    *,
};
use crate::{
    Prior,
    command::{CmdId, Command as _, Priority},
    storage::MaxCut,
};

// ---------------------------------------------------------------------------------------------
// arbitrary values
// ---------------------------------------------------------------------------------------------

fn any_state() -> SyncRequesterState {
    let s: u8 = kani::any();
    kani::assume(s < 8);
    match s {
        0 => SyncRequesterState::New,
        1 => SyncRequesterState::Start,
        2 => SyncRequesterState::Waiting,
        3 => SyncRequesterState::Idle,
        4 => SyncRequesterState::Closed,
        5 => SyncRequesterState::Resync,
        6 => SyncRequesterState::PartialSync,
        _ => SyncRequesterState::Reset,
    }
}

fn any_graph_id() -> GraphId {
    let b: [u8; 32] = kani::any();
    GraphId::from_bytes(b)
}

/// Any requester. Only assumption: the message counter has not wrapped 2^64 - 1 responses
/// (it starts at 0 and is incremented once per accepted response).
fn any_requester() -> SyncRequester {
    let next: u64 = kani::any();
    kani::assume(next < u64::MAX);
    SyncRequester {
        session_id: kani::any(),
        graph_id: any_graph_id(),
        state: any_state(),
        max_bytes: kani::any(),
        next_message_index: next,
    }
}

fn any_address() -> Address {
    let b: [u8; 32] = kani::any();
    let m: u64 = kani::any();
    Address {
        id: CmdId::from_bytes(b),
        max_cut: MaxCut::new(m),
    }
}

fn any_priority() -> Priority {
    let s: u8 = kani::any();
    kani::assume(s < 4);
    match s {
        0 => Priority::Merge,
        1 => Priority::Basic(kani::any()),
        2 => Priority::Finalize,
        _ => Priority::Init,
    }
}

fn any_parent() -> Prior<Address> {
    let s: u8 = kani::any();
    kani::assume(s < 3);
    match s {
        0 => Prior::None,
        1 => Prior::Single(any_address()),
        _ => Prior::Merge(any_address(), any_address()),
    }
}

/// `s` lies inside `outer` (address range containment).
fn inside(s: &[u8], outer: &[u8]) -> bool {
    let a = s.as_ptr() as usize;
    let b = outer.as_ptr() as usize;
    a >= b && a + s.len() <= b + outer.len()
}

/// Every slice handed out lies inside the received bytes; slices are in order and disjoint.
fn check_commands_inside(cmds: &Vec<SyncCommand<'_>, COMMAND_RESPONSE_MAX>, data: &[u8]) {
    let mut lo = data.as_ptr() as usize;
    // (explicit constant bound: keeps CBMC from unrolling the loop on infeasible paths where the
    // length is unconstrained)
    assert!(cmds.len() <= COMMAND_RESPONSE_MAX);
    let mut i = 0;
    while i < cmds.len() && i < COMMAND_RESPONSE_MAX {
        let c = &cmds[i];
        if let Some(p) = c.policy {
            assert!(inside(p, data));
            assert!(p.as_ptr() as usize >= lo);
            lo = p.as_ptr() as usize + p.len();
        }
        assert!(inside(c.data, data));
        assert!(c.data.as_ptr() as usize >= lo);
        lo = c.data.as_ptr() as usize + c.data.len();
        i += 1;
    }
}

// ---------------------------------------------------------------------------------------------
// A. raw bytes
// ---------------------------------------------------------------------------------------------

// Outcome codes (used by the per-harness vacuity witnesses).
const RESP_POSTCARD_ERR: u8 = 20;
const RESP_DECODED_LIST: u8 = 21;
const RESP_DECODED_CONTROL: u8 = 22;

/// The decoding step of `SyncRequester::receive` (its first statement) on raw bytes. What
/// `receive` does next - `get_sync_commands(message, remaining)` - is decided for ALL message
/// values and tails by the structured harnesses (B) below; composing it here as well costs
/// ~400 k steps per input length (measured) because CBMC explores the command-list arm with an
/// unconstrained list on the paths where decoding failed.
fn decode_response(data: &[u8]) -> u8 {
    match postcard::take_from_bytes::<SyncResponseMessage>(data) {
        Ok((message, remaining)) => {
            assert!(inside(remaining, data));
            let _ = message.session_id();
            let out = match &message {
                SyncResponseMessage::SyncResponse { .. } => RESP_DECODED_LIST,
                _ => RESP_DECODED_CONTROL,
            };
            core::mem::forget(message);
            out
        }
        Err(_) => RESP_POSTCARD_ERR,
    }
}

const REQ_POSTCARD_ERR: u8 = 10;
const REQ_DECODED: u8 = 11;

/// The decoding step in front of `SyncResponder::receive`: the request enum carried by
/// `SyncType::Poll { request }` (SyncIncoming::decode = one more enum tag around it + a move into
/// PollIncoming; running SyncIncoming::decode itself on symbolic bytes did not finish in 900 s
/// even for 4 input lengths). What `receive` does with the decoded request is decided for ALL
/// request values by c18_responder_dispatch_structured.
fn decode_request(data: &[u8]) -> u8 {
    match postcard::take_from_bytes::<SyncRequestMessage>(data) {
        Ok((message, remaining)) => {
            assert!(inside(remaining, data));
            let _ = message.session_id();
            core::mem::forget(message);
            REQ_DECODED
        }
        Err(_) => REQ_POSTCARD_ERR,
    }
}

// HOW THE BYTES ARE MADE SYMBOLIC (measured, see checks/C18.json "outside_claim"):
// a buffer with symbolic bytes AND symbolic length through the serde/postcard decoder does not
// finish: every `pop()` may hit the end of input, CBMC merges the "end of input" and "byte read"
// states, the read cursor becomes symbolic and with it every later enum tag, so all variants of
// all nested enums are explored at every position (3.3 M steps / > 14 GB for 24 bytes of
// SyncResponseMessage). What does finish: the received LENGTH is concrete per decode (a loop
// over all lengths), the leading enum tags are concrete (one harness per message kind), every
// other byte is symbolic - for the message kinds that consist of integers only. Kinds that
// carry 32-byte ids are out of reach: `Slice::try_take_n` compares `end as usize - cursor as
// usize` (pointer-to-integer casts CBMC cannot fold), after which the cursor is symbolic again.

/// `$n` symbolic bytes behind the concrete tags `$prefix`; decoded at every length
/// prefix.len()..=$n (shorter inputs: the tag-less prefixes are covered by the shortest lengths of
/// c18_subscribe_response_raw-style decoding: an empty / tag-only input ends in `pop()` -> Err).
macro_rules! raw_harness {
    ($name:ident, $n:expr, $prefix:expr, $f:ident, [$($code:ident),*], [$($len:literal)*]) => {
        // unwind 3: the only loops left are the decoder's / receiver's own (the lengths are
        // expanded by the macro); the postcard varint loops get their real bounds through
        // --unwindset in checks/C18.json. A small harness-wide bound matters: on paths where the
        // decoder failed, the message value is unconstrained and CBMC would otherwise unroll
        // `for meta in commands` over a garbage length up to the bound.
        #[kani::proof]
        #[kani::unwind(3)]
        fn $name() {
            let mut buf: [u8; $n] = kani::any();
            let prefix: &[u8] = &$prefix;
            let mut i = 0;
            while i < prefix.len() {
                buf[i] = prefix[i];
                i += 1;
            }
            let mut seen = [false; 32];
            $(
                if $len >= prefix.len() && $len <= $n {
                    let out = $f(&buf[..$len]);
                    seen[out as usize] = true;
                }
            )*
            $( kani::cover!(seen[$code as usize]); )*
        }
    };
}

raw_harness!(c18_receive_raw_end_session, 21, [3], decode_response,
    [RESP_POSTCARD_ERR, RESP_DECODED_CONTROL],
    [1 2 3 11 19 20 21]);
raw_harness!(c18_receive_raw_sync_end, 24, [1], decode_response,
    [RESP_POSTCARD_ERR, RESP_DECODED_CONTROL],
    [3 4 13 24]);

raw_harness!(c18_request_raw_end_session, 21, [3], decode_request,
    [REQ_POSTCARD_ERR, REQ_DECODED],
    [1 2 3 11 19 20 21]);
raw_harness!(c18_request_raw_sync_resume, 24, [2], decode_request,
    [REQ_POSTCARD_ERR, REQ_DECODED],
    [3 4 13 24]);
raw_harness!(c18_request_raw_request_missing, 24, [1], decode_request,
    [REQ_POSTCARD_ERR, REQ_DECODED],
    [2 3 4 24]);

#[kani::proof]
#[kani::unwind(8)]
fn c18_subscribe_response_raw() {
    let buf: [u8; 7] = kani::any();
    let len: usize = kani::any();
    kani::assume(len <= 7);
    match SubscribeResponse::decode(&buf[..len]) {
        Ok(SubscribeResponse::Success) => kani::cover!(true, "success decoded"),
        Ok(SubscribeResponse::TooManySubscriptions) => kani::cover!(true, "limit decoded"),
        Err(_) => kani::cover!(len >= 1, "rejected"),
    }
}

// ---------------------------------------------------------------------------------------------
// B. structured SyncResponse against the exact specification
// ---------------------------------------------------------------------------------------------

const TAIL: usize = 16;

/// Returns true when the response was accepted.
fn structured_case(k: usize) -> bool {
    let mut r = any_requester();
    let pre_state = r.state.clone();
    let pre_next = r.next_message_index;
    let mine = r.session_id;

    let session_id: u128 = kani::any();
    let response_index: u64 = kani::any();
    let mut pl = [0u32; 3];
    let mut ln = [0u32; 3];
    let mut ids = [CmdId::default(); 3];
    let mut commands: Vec<CommandMeta, COMMAND_RESPONSE_MAX> = Vec::new();
    let mut i = 0;
    while i < k {
        pl[i] = kani::any();
        ln[i] = kani::any();
        let b: [u8; 32] = kani::any();
        ids[i] = CmdId::from_bytes(b);
        let meta = CommandMeta {
            id: ids[i],
            priority: any_priority(),
            parent: any_parent(),
            policy_length: pl[i],
            length: ln[i],
        };
        if commands.push(meta).is_err() {
            panic!("k <= COMMAND_RESPONSE_MAX");
        }
        i += 1;
    }
    let message = SyncResponseMessage::SyncResponse {
        session_id,
        response_index,
        commands,
    };

    let tail_buf: [u8; TAIL] = kani::any();
    let tl: usize = kani::any();
    kani::assume(tl <= TAIL);
    let tail = &tail_buf[..tl];

    // total payload the header claims (u64 arithmetic cannot overflow with <= 3 u32 pairs)
    let mut total: u64 = 0;
    let mut i = 0;
    while i < k {
        total += pl[i] as u64 + ln[i] as u64;
        i += 1;
    }

    let res = r.get_sync_commands(message, tail);

    if session_id != mine {
        // a requester never accepts commands for a different session
        assert!(matches!(res, Err(SyncError::SessionMismatch)));
        assert!(r.state == pre_state && r.next_message_index == pre_next);
        kani::cover!(true, "session mismatch");
    } else if !matches!(
        pre_state,
        SyncRequesterState::Start | SyncRequesterState::Waiting
    ) {
        assert!(matches!(res, Err(SyncError::SessionState)));
        assert!(r.state == pre_state && r.next_message_index == pre_next);
        kani::cover!(true, "not in a receiving state");
    } else if response_index != pre_next {
        // ... or out of sequence
        assert!(matches!(res, Err(SyncError::MissingSyncResponse)));
        assert!(r.state == SyncRequesterState::Resync && r.next_message_index == pre_next);
        kani::cover!(true, "out of sequence");
    } else if total > tl as u64 {
        // the header claims more bytes than were received
        assert!(matches!(res, Err(SyncError::MalformedResponse)));
        kani::cover!(k >= 1, "claims more than received");
        kani::cover!((k >= 1) & (pl[0] as usize > tl), "policy length overruns");
        kani::cover!((k >= 1) & (pl[0] == 0) & (ln[0] as usize > tl), "data length overruns");
        kani::cover!((k >= 1) & (ln[0] == u32::MAX) & (pl[0] == u32::MAX), "maximal lengths");
    } else {
        let cmds = match res {
            Ok(Some(c)) => c,
            _ => panic!("consistent in-sequence response must be accepted"),
        };
        assert!(cmds.len() == k);
        assert!(r.state == SyncRequesterState::Waiting && r.next_message_index == pre_next + 1);
        // exact layout: policy_i then data_i, back to back, from the start of the tail
        let wj: usize = kani::any();
        kani::assume(wj < 32);
        let mut off = 0usize;
        let mut i = 0;
        while i < k {
            let c = &cmds[i];
            assert!(c.id.as_array()[wj] == ids[i].as_array()[wj]);
            let p_len = pl[i] as usize;
            match c.policy {
                None => assert!(p_len == 0),
                Some(p) => {
                    assert!(p_len != 0 && p.len() == p_len);
                    assert!(core::ptr::eq(p.as_ptr(), tail[off..].as_ptr()));
                    off += p_len;
                }
            }
            let d_len = ln[i] as usize;
            assert!(c.data.len() == d_len);
            assert!(core::ptr::eq(c.data.as_ptr(), tail[off..].as_ptr()));
            off += d_len;
            i += 1;
        }
        assert!(off as u64 == total && off <= tl);
        kani::cover!(true, "consistent in-sequence response accepted");
        kani::cover!((k >= 1) & (off == tl) & (tl == TAIL), "tail used up exactly");
        kani::cover!((k >= 1) & (off < tl), "unused bytes after the last command");
        kani::cover!((k >= 1) & (pl[0] > 0) & (ln[0] > 0), "command with policy and data");
        core::mem::forget(cmds);
        return true;
    }
    false
}

#[kani::proof]
#[kani::unwind(4)]
fn c18_get_sync_commands_structured_k01() {
    let a0 = structured_case(0);
    let a1 = structured_case(1);
    kani::cover!(a0, "empty response accepted");
    kani::cover!(a1, "one-command response accepted");
}

#[kani::proof]
#[kani::unwind(5)]
fn c18_get_sync_commands_structured_k2() {
    let a2 = structured_case(2);
    kani::cover!(a2, "two-command response accepted");
}

#[kani::proof]
#[kani::unwind(6)]
fn c18_get_sync_commands_structured_k3() {
    let a3 = structured_case(3);
    kani::cover!(a3, "three-command response accepted");
}

/// The other response kinds (SyncEnd / Offer / EndSession), all field values: never accepted for
/// another session; never yield commands.
#[kani::proof]
#[kani::unwind(3)]
fn c18_get_sync_commands_control() {
    let mut r = any_requester();
    let mine = r.session_id;
    let pre_state = r.state.clone();
    let pre_next = r.next_message_index;
    let session_id: u128 = kani::any();
    let which: u8 = kani::any();
    kani::assume(which < 3);
    let max_index: u64 = kani::any();
    let message = match which {
        0 => SyncResponseMessage::SyncEnd {
            session_id,
            max_index,
            remaining: kani::any(),
        },
        1 => {
            let b: [u8; 32] = kani::any();
            SyncResponseMessage::Offer {
                session_id,
                head: CmdId::from_bytes(b),
            }
        }
        _ => SyncResponseMessage::EndSession { session_id },
    };
    let tail: [u8; 4] = kani::any();
    let res = r.get_sync_commands(message, &tail);
    if session_id != mine {
        assert!(matches!(res, Err(SyncError::SessionMismatch)));
        assert!(r.state == pre_state && r.next_message_index == pre_next);
    } else {
        match res {
            Ok(None) => {
                assert!(r.next_message_index == pre_next);
                if which == 0 {
                    assert!(max_index == pre_next);
                    assert!(r.state == SyncRequesterState::PartialSync);
                    kani::cover!(true, "SyncEnd accepted");
                }
                kani::cover!(which == 2, "EndSession accepted");
                kani::cover!(which == 1, "Offer accepted");
            }
            Ok(Some(_)) => panic!("control messages carry no commands"),
            Err(SyncError::MissingSyncResponse) => {
                assert!(which == 0 && max_index != pre_next);
                kani::cover!(true, "SyncEnd out of sequence");
            }
            Err(SyncError::SessionState) => {
                assert!(which != 2);
                kani::cover!(true, "control message in the wrong state");
            }
            Err(_) => panic!("unexpected error kind"),
        }
    }
}
