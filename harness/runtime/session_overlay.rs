// C14 — "Sessions overlay their own writes on committed facts" and the session half of
// C13 — "Reverting to a checkpoint is exact" (SessionPerspective).
// Child module of aranya_runtime::client::session (sees Session / SessionPerspective /
// QueryIterator / PrefixIter / YokeIter and their private fields).
//
// Group `runtime_vmap` (std BTreeMap replaced by the slab map of vmap.rs, see there).
//
// METHOD: inductive steps from ARBITRARY session states built field by field:
//   state = (base_facts, fact_log, current_facts);   Inv: current_facts == replay(fact_log)
//   c14_overlay_*        queries of ANY (base, current_facts) = base overlaid with current_facts
//   c14_write_step_small*      insert/delete from ANY state change exactly the written key and append
//                        to fact_log  (=> Inv preserved)
//   c13_session_revert_step_small*  revert(i) from ANY state (current_facts arbitrary garbage, Arc shared
//                        or not) leaves fact_log[..i] and current_facts == replay(fact_log[..i])
//   c14_action_* / c14_receive_*  real Session::action / Session::receive with a policy that writes
//                        and then accepts or REJECTS: from any Inv state, failure leaves every
//                        query unchanged and rolls the sinks back; success = base;log;script
//   c13_session_history3 direct cross-check on symbolic 3-operation histories
//
// Environment (trait level, no stubs): the committed fact state is a harness `FactIndex`
// (`VFacts`): a strictly ascending table of <= 3 facts under one fact name with symbolic keys and
// values, answering `query` / `query_prefix` the way the `Query` trait documents (exact match;
// prefix matches in sorted key order). Everything on top of it is the real session code.
//
// Key alphabet: compound keys of 1 or 2 one-byte components over {0,1}:
//   [0] < [0,0] < [0,1] < [1] < [1,0] < [1,1]           (code 0..6, code order == key order)
// so keys that are prefixes of one another occur. Prefix alphabet: [] and the six keys.
use alloc::{boxed::Box, string::String, vec, vec::Vec};

use super::*;
use crate::__vmap::CAP;
use crate::{
    FactIndex, HeadSet, HeadSetOffset, Location, Segment, SegmentIndex,
    policy::{MergeIds, PolicyError},
};

const NCODE: u8 = 6;

/// Alphabet switch (set once at the start of a harness; constant-folded by CBMC):
///   false: SIMPLE  keys [c], c in 0..3 (one one-byte component); prefixes [] and [c]
///   true : MIXED   the six compound keys described above (keys that are prefixes of one another)
static mut MIXED: bool = false;
fn mixed() -> bool {
    unsafe { MIXED }
}
fn set_mixed(m: bool) {
    unsafe { MIXED = m }
}
fn ncode() -> u8 {
    if mixed() { 6 } else { 3 }
}

fn bx(b: u8) -> Bytes {
    Box::new([b])
}

/// code -> (number of components, first byte, second byte)
fn shape(code: u8) -> (usize, u8, u8) {
    let a = code / 3;
    let r = code % 3;
    if r == 0 { (1, a, 0) } else { (2, a, r - 1) }
}

fn mk_key(code: u8) -> Keys {
    if !mixed() {
        return Keys::from(vec![bx(code)]);
    }
    let (n, a, b) = shape(code);
    if n == 1 {
        Keys::from(vec![bx(a)])
    } else {
        Keys::from(vec![bx(a), bx(b)])
    }
}

/// Inverse of `mk_key` for keys inside the alphabet.
fn code_of(keys: &[Bytes]) -> Option<u8> {
    if !mixed() {
        if keys.len() != 1 || keys[0].len() != 1 || keys[0][0] > 2 {
            return None;
        }
        return Some(keys[0][0]);
    }
    if keys.is_empty() || keys.len() > 2 {
        return None;
    }
    if keys[0].len() != 1 || keys[0][0] > 1 {
        return None;
    }
    let a = keys[0][0];
    if keys.len() == 1 {
        return Some(a * 3);
    }
    if keys[1].len() != 1 || keys[1][0] > 1 {
        return None;
    }
    Some(a * 3 + 1 + keys[1][0])
}

/// Prefix codes: 0 = [] (everything), 1 + c = key with code c.
fn mk_prefix(p: u8) -> Keys {
    if p == 0 { Keys::default() } else { mk_key(p - 1) }
}

/// Does the key with code `c` start with the prefix `p`?
fn has_prefix(c: u8, p: u8) -> bool {
    if p == 0 {
        return true;
    }
    if !mixed() {
        return c == p - 1;
    }
    let (pn, pa, pb) = shape(p - 1);
    let (cn, ca, cb) = shape(c);
    if pn == 1 { ca == pa } else { cn == 2 && ca == pa && cb == pb }
}

fn is_f(name: &str) -> bool {
    name.len() == 1 && name.as_bytes()[0] == b'f'
}

fn fname() -> String {
    String::from("f")
}

// ------------------------------------------------------------------------------------------
// committed facts
// ------------------------------------------------------------------------------------------
#[derive(Clone, Copy)]
struct VFacts {
    n: usize,
    code: [u8; 3],
    val: [u8; 3],
}

struct VIter {
    f: VFacts,
    pos: usize,
    prefix: u8,
    live: bool,
}

impl Iterator for VIter {
    type Item = Result<Fact, StorageError>;
    fn next(&mut self) -> Option<Self::Item> {
        if !self.live {
            return None;
        }
        while self.pos < self.f.n {
            let i = self.pos;
            self.pos += 1;
            if has_prefix(self.f.code[i], self.prefix) {
                return Some(Ok(Fact {
                    key: mk_key(self.f.code[i]),
                    value: bx(self.f.val[i]),
                }));
            }
        }
        None
    }
}

impl Query for VFacts {
    fn query(&self, name: &str, keys: &[Bytes]) -> Result<Option<Bytes>, StorageError> {
        if !is_f(name) {
            return Ok(None);
        }
        let Some(c) = code_of(keys) else {
            return Ok(None);
        };
        let mut i = 0;
        while i < self.n {
            if self.code[i] == c {
                return Ok(Some(bx(self.val[i])));
            }
            i += 1;
        }
        Ok(None)
    }

    type QueryIterator = VIter;
    fn query_prefix(&self, name: &str, prefix: &[Bytes]) -> Result<VIter, StorageError> {
        let p = if prefix.is_empty() {
            Some(0)
        } else {
            code_of(prefix).map(|c| c + 1)
        };
        Ok(VIter {
            f: *self,
            pos: 0,
            prefix: p.unwrap_or(0),
            live: is_f(name) && p.is_some(),
        })
    }
}
impl FactIndex for VFacts {}

/// Any strictly ascending table of exactly `n` facts.
fn any_base(n: usize) -> VFacts {
    let mut f = VFacts {
        n,
        code: [0; 3],
        val: [0; 3],
    };
    let mut i = 0;
    while i < n {
        f.code[i] = kani::any();
        f.val[i] = kani::any();
        kani::assume(f.code[i] < ncode());
        if i > 0 {
            kani::assume(f.code[i - 1] < f.code[i]);
        }
        i += 1;
    }
    f
}

// ------------------------------------------------------------------------------------------
// the rest of the StorageProvider family: only needed as types; never called by session code
// under test (Session::new is not used, the session is built field by field).
// ------------------------------------------------------------------------------------------
struct VProv;
struct VStorage;
struct VSeg;
struct VPersp;

impl Query for VPersp {
    fn query(&self, _: &str, _: &[Bytes]) -> Result<Option<Bytes>, StorageError> {
        unreachable!()
    }
    type QueryIterator = VIter;
    fn query_prefix(&self, _: &str, _: &[Bytes]) -> Result<VIter, StorageError> {
        unreachable!()
    }
}
impl QueryMut for VPersp {
    fn insert(&mut self, _: String, _: Keys, _: Bytes) -> Result<(), StorageError> {
        unreachable!()
    }
    fn delete(&mut self, _: String, _: Keys) -> Result<(), StorageError> {
        unreachable!()
    }
}
impl FactPerspective for VPersp {}
impl Perspective for VPersp {
    fn policy(&self) -> PolicyId {
        unreachable!()
    }
    fn add_command(&mut self, _: &impl Command) -> Result<usize, StorageError> {
        unreachable!()
    }
    fn includes(&self, _: CmdId) -> bool {
        unreachable!()
    }
    fn head_address(&self) -> Result<Prior<Address>, Bug> {
        unreachable!()
    }
}
impl Revertable for VPersp {
    fn checkpoint(&self) -> Checkpoint {
        unreachable!()
    }
    fn revert(&mut self, _: Checkpoint) -> Result<(), StorageError> {
        unreachable!()
    }
}

impl Segment for VSeg {
    type FactIndex = VFacts;
    type Command<'a> = SessionCommand<'a>;
    fn index(&self) -> SegmentIndex {
        unreachable!()
    }
    fn head_id(&self) -> CmdId {
        unreachable!()
    }
    fn policy(&self) -> PolicyId {
        unreachable!()
    }
    fn prior(&self) -> Prior<Location> {
        unreachable!()
    }
    fn get_command(&self, _: Location) -> Option<SessionCommand<'_>> {
        unreachable!()
    }
    fn facts(&self) -> Result<VFacts, StorageError> {
        unreachable!()
    }
    fn shortest_max_cut(&self) -> MaxCut {
        unreachable!()
    }
    fn longest_max_cut(&self) -> Result<MaxCut, StorageError> {
        unreachable!()
    }
    fn skip_list(&self) -> &[Location] {
        unreachable!()
    }
}

impl Storage for VStorage {
    type Perspective = VPersp;
    type FactPerspective = VPersp;
    type Segment = VSeg;
    type FactIndex = VFacts;
    fn get_linear_perspective(&self, _: Location) -> Result<VPersp, StorageError> {
        unreachable!()
    }
    fn get_fact_perspective(&self, _: Location) -> Result<VPersp, StorageError> {
        unreachable!()
    }
    fn new_merge_perspective(
        &self,
        _: Location,
        _: Location,
        _: Location,
        _: PolicyId,
        _: VFacts,
    ) -> Result<VPersp, StorageError> {
        unreachable!()
    }
    fn get_segment(&self, _: Location) -> Result<VSeg, StorageError> {
        unreachable!()
    }
    fn get_heads(&self) -> Result<&HeadSet, StorageError> {
        unreachable!()
    }
    fn heads_offset(&self) -> Result<HeadSetOffset, StorageError> {
        unreachable!()
    }
    fn fact_cache(&self) -> Result<VFacts, StorageError> {
        unreachable!()
    }
    fn commit_heads(&mut self, _: HeadSet, _: VFacts) -> Result<(), StorageError> {
        unreachable!()
    }
    fn write(&mut self, _: VPersp) -> Result<VSeg, StorageError> {
        unreachable!()
    }
    fn write_facts(&mut self, _: VPersp) -> Result<VFacts, StorageError> {
        unreachable!()
    }
}

impl StorageProvider for VProv {
    type Perspective = VPersp;
    type Segment = VSeg;
    type Storage = VStorage;
    fn new_perspective(&mut self, _: PolicyId) -> VPersp {
        unreachable!()
    }
    fn new_storage(&mut self, _: VPersp) -> Result<(GraphId, &mut VStorage), StorageError> {
        unreachable!()
    }
    fn get_storage(&mut self, _: GraphId) -> Result<&mut VStorage, StorageError> {
        unreachable!()
    }
    fn remove_storage(&mut self, _: GraphId) -> Result<(), StorageError> {
        unreachable!()
    }
    fn list_graph_ids(
        &mut self,
    ) -> Result<impl Iterator<Item = Result<GraphId, StorageError>>, StorageError> {
        Ok(core::iter::empty())
    }
}

// ------------------------------------------------------------------------------------------
// harness policy: a rule / action is a script of <= 2 symbolic writes followed by a symbolic
// verdict (accept, or reject AFTER having written = "failing rule")
// ------------------------------------------------------------------------------------------
#[derive(Clone, Copy)]
struct Script {
    n: usize,
    del: [bool; 2],
    code: [u8; 2],
    val: [u8; 2],
    fail: bool,
    publish: bool,
}

fn any_script(n: usize) -> Script {
    let mut s = Script {
        n,
        del: [false; 2],
        code: [0; 2],
        val: [0; 2],
        fail: kani::any(),
        publish: kani::any(),
    };
    let mut i = 0;
    while i < n {
        s.del[i] = kani::any();
        s.code[i] = kani::any();
        s.val[i] = kani::any();
        kani::assume(s.code[i] < ncode());
        i += 1;
    }
    s
}

fn run_script(s: &Script, facts: &mut impl FactPerspective) -> Result<(), PolicyError> {
    let mut i = 0;
    while i < s.n {
        let r = if s.del[i] {
            facts.delete(fname(), mk_key(s.code[i]))
        } else {
            facts.insert(fname(), mk_key(s.code[i]), bx(s.val[i]))
        };
        if r.is_err() {
            return Err(PolicyError::Write);
        }
        i += 1;
    }
    if s.fail { Err(PolicyError::Rejected) } else { Ok(()) }
}

struct VPolicy {
    script: Script,
}
struct VPS {
    policy: VPolicy,
}

struct OutCmd {
    graph_id: GraphId,
}
impl Command for OutCmd {
    fn priority(&self) -> Priority {
        Priority::Basic(0)
    }
    fn id(&self) -> CmdId {
        CmdId::default()
    }
    fn parent(&self) -> Prior<Address> {
        session_parent(self.graph_id)
    }
    fn policy(&self) -> Option<&[u8]> {
        None
    }
    fn bytes(&self) -> &[u8] {
        &[7u8]
    }
}

impl Policy for VPolicy {
    type Action<'a> = GraphId;
    type Effect = u8;
    type Command<'a> = OutCmd;
    fn serial(&self) -> u32 {
        0
    }
    fn call_rule(
        &self,
        _command: &impl Command,
        facts: &mut impl FactPerspective,
        sink: &mut impl Sink<u8>,
        _placement: CommandPlacement,
    ) -> Result<(), PolicyError> {
        sink.consume(1);
        run_script(&self.script, facts)
    }
    fn call_action(
        &self,
        action: GraphId,
        facts: &mut impl Perspective,
        sink: &mut impl Sink<u8>,
        _placement: ActionPlacement,
    ) -> Result<(), PolicyError> {
        sink.consume(1);
        if self.script.publish {
            let c = OutCmd { graph_id: action };
            if facts.add_command(&c).is_err() {
                return Err(PolicyError::Write);
            }
        }
        run_script(&self.script, facts)
    }
    fn merge<'a>(&self, _: &'a mut [u8], _: MergeIds) -> Result<OutCmd, PolicyError> {
        unreachable!()
    }
}

impl PolicyStore for VPS {
    type Policy = VPolicy;
    type Effect = u8;
    fn add_policy(&mut self, _: &[u8]) -> Result<PolicyId, PolicyError> {
        unreachable!()
    }
    fn get_policy(&self, _: PolicyId) -> Result<&VPolicy, PolicyError> {
        Ok(&self.policy)
    }
}

/// Sink that records the begin / consume / commit / rollback protocol.
#[derive(Default)]
struct CountSink {
    begun: u8,
    consumed: u8,
    committed: u8,
    rolled_back: u8,
}
impl<E> Sink<E> for CountSink {
    fn begin(&mut self) {
        self.begun += 1;
    }
    fn consume(&mut self, _: E) {
        self.consumed += 1;
    }
    fn rollback(&mut self) {
        self.rolled_back += 1;
    }
    fn commit(&mut self) {
        self.committed += 1;
    }
}

// ------------------------------------------------------------------------------------------
// model and arbitrary states
// ------------------------------------------------------------------------------------------
const NC: usize = NCODE as usize;
/// flat visible facts
type Flat = [Option<u8>; NC];
/// one overlay level: None = no entry, Some(None) = tombstone, Some(Some(v)) = value
type Level = [Option<Option<u8>>; NC];
type Inner = BTreeMap<Keys, Option<Bytes>>;
type Outer = BTreeMap<String, Inner>;

fn flat_base(base: &VFacts) -> Flat {
    let mut m: Flat = [None; NC];
    let mut i = 0;
    while i < base.n {
        m[base.code[i] as usize] = Some(base.val[i]);
        i += 1;
    }
    m
}

fn overlay(base: &Flat, lvl: &Level) -> Flat {
    let mut f = *base;
    let mut c = 0;
    while c < NC {
        if let Some(x) = lvl[c] {
            f[c] = x;
        }
        c += 1;
    }
    f
}

fn any_code() -> u8 {
    let c: u8 = kani::any();
    kani::assume(c < ncode());
    c
}

#[derive(Clone, Copy)]
struct Upd {
    c: u8,
    v: Option<u8>,
}

fn any_upd() -> Upd {
    let c = any_code();
    let v: u8 = kani::any();
    Upd {
        c,
        v: if kani::any() { Some(v) } else { None },
    }
}

fn mk_log_entry(u: Upd) -> (String, Keys, Option<Bytes>) {
    (fname(), mk_key(u.c), u.v.map(bx))
}

fn same_entry(x: &(String, Keys, Option<Bytes>), u: Upd) -> bool {
    let (n, k, v) = x;
    if !is_f(n) {
        return false;
    }
    if code_of(k) != Some(u.c) {
        return false;
    }
    match (v, u.v) {
        (None, None) => true,
        (Some(b), Some(w)) => b.len() == 1 && b[0] == w,
        _ => false,
    }
}

/// Arbitrary per-name overlay map: entries anywhere in the first `n` slots, distinct keys,
/// values or tombstones.
fn any_inner(n: usize, lvl: &mut Level) -> Inner {
    let mut slots: [Option<(Keys, Option<Bytes>)>; CAP] = [const { None }; CAP];
    let mut j = 0;
    while j < n {
        if kani::any() {
            let c = any_code();
            kani::assume(lvl[c as usize].is_none());
            let v: u8 = kani::any();
            if kani::any() {
                slots[j] = Some((mk_key(c), None));
                lvl[c as usize] = Some(None);
            } else {
                slots[j] = Some((mk_key(c), Some(bx(v))));
                lvl[c as usize] = Some(Some(v));
            }
        }
        j += 1;
    }
    Inner::from_slots(slots)
}

/// Arbitrary session overlay for name "f" (see `any_inner`), or no entry for the name.
fn any_current(n: usize, lvl: &mut Level) -> Outer {
    let inner = any_inner(n, lvl);
    let mut oslots: [Option<(String, Inner)>; CAP] = [const { None }; CAP];
    if n > 0 || kani::any() {
        oslots[0] = Some((fname(), inner));
    }
    Outer::from_slots(oslots)
}

/// A fact log of exactly `len` symbolic entries and the overlay that replaying it produces
/// (entry j sits in slot j unless a later entry overwrites its key): a state satisfying Inv.
fn any_log_state(len: usize, lvl: &mut Level) -> (Vec<(String, Keys, Option<Bytes>)>, Outer, [Upd; 3]) {
    let mut us = [Upd { c: 0, v: None }; 3];
    let mut log = Vec::with_capacity(8);
    let mut j = 0;
    while j < len {
        us[j] = any_upd();
        log.push(mk_log_entry(us[j]));
        lvl[us[j].c as usize] = Some(us[j].v);
        j += 1;
    }
    let mut slots: [Option<(Keys, Option<Bytes>)>; CAP] = [const { None }; CAP];
    let mut j = 0;
    while j < len {
        let mut last = true;
        let mut i = j + 1;
        while i < len {
            if us[i].c == us[j].c {
                last = false;
            }
            i += 1;
        }
        if last {
            slots[j] = Some((mk_key(us[j].c), us[j].v.map(bx)));
        }
        j += 1;
    }
    let inner = Inner::from_slots(slots);
    let mut oslots: [Option<(String, Inner)>; CAP] = [const { None }; CAP];
    if len > 0 {
        oslots[0] = Some((fname(), inner));
    }
    (log, Outer::from_slots(oslots), us)
}

fn new_session(
    base: VFacts,
    fact_log: Vec<(String, Keys, Option<Bytes>)>,
    current: Outer,
) -> Session<VProv, VPS> {
    Session {
        graph_id: GraphId::default(),
        policy_id: PolicyId::new(0),
        base_facts: base,
        fact_log,
        current_facts: Arc::new(current),
        _policy_store: PhantomData,
    }
}

/// Exact query for a universally quantified witness key.
fn check_exact<Q: Query>(p: &Q, m: &Flat) {
    let w = any_code();
    let kw = mk_key(w);
    match p.query("f", &kw) {
        Ok(None) => assert!(m[w as usize].is_none()),
        Ok(Some(v)) => {
            assert!(v.len() == 1);
            assert!(m[w as usize] == Some(v[0]));
            core::mem::forget(v);
        }
        Err(_) => assert!(false),
    }
    core::mem::forget(kw);
}

/// Prefix query for a symbolic prefix: strictly ascending keys, every item is the model's binding
/// of a key under the prefix, and the number of items equals the model's count (so nothing is
/// missing, nothing deleted is emitted, nothing is emitted twice).
fn check_prefix<Q: Query>(p: &Q, m: &Flat, max_items: usize) -> (usize, u8) {
    let pc: u8 = kani::any();
    kani::assume(pc <= ncode());
    let pk = mk_prefix(pc);
    let mut it = match p.query_prefix("f", &pk) {
        Ok(it) => it,
        Err(_) => {
            assert!(false);
            return (0, 0);
        }
    };
    let mut want = 0;
    let mut c = 0;
    while c < NCODE {
        if m[c as usize].is_some() && has_prefix(c, pc) {
            want += 1;
        }
        c += 1;
    }
    let mut last: Option<u8> = None;
    let mut got = 0;
    let mut i = 0;
    while i < max_items {
        match it.next() {
            Some(Ok(f)) => {
                let c = match code_of(&f.key) {
                    Some(c) => c,
                    None => {
                        assert!(false);
                        return (0, 0);
                    }
                };
                assert!(has_prefix(c, pc));
                assert!(f.value.len() == 1);
                assert!(m[c as usize] == Some(f.value[0]));
                if let Some(l) = last {
                    assert!(l < c); // code order == key order
                }
                last = Some(c);
                got += 1;
                core::mem::forget(f);
            }
            Some(Err(_)) => assert!(false),
            None => {}
        }
        i += 1;
    }
    assert!(it.next().is_none());
    assert!(got == want);
    core::mem::forget(it);
    core::mem::forget(pk);
    (got, pc)
}

// ------------------------------------------------------------------------------------------
// C14: queries = base overlaid with the session's current facts
// ------------------------------------------------------------------------------------------
fn overlay_case(nbase: usize, ncur: usize, prefix: bool) -> (usize, u8) {
    let mut listed = (0usize, 0u8);
    let base = any_base(nbase);
    let mut lvl: Level = [None; NC];
    let cur = any_current(ncur, &mut lvl);
    let want = overlay(&flat_base(&base), &lvl);
    let mut s = new_session(base, Vec::new(), cur);
    let mut sink = NullSink;
    {
        let p = SessionPerspective {
            session: &mut s,
            message_sink: &mut sink,
        };
        let mut c = 0;
        let mut shadowed = false;
        let mut deleted = false;
        while c < NC {
            if let Some(x) = lvl[c] {
                if flat_base(&base)[c].is_some() {
                    shadowed = true;
                    if x.is_none() {
                        deleted = true;
                    }
                }
            }
            c += 1;
        }
        kani::cover!(shadowed, "session entry shadows a committed fact");
        kani::cover!(deleted, "session tombstone hides a committed fact");
        if prefix {
            listed = check_prefix(&p, &want, nbase + ncur);
        } else {
            check_exact(&p, &want);
        }
    }
    core::mem::forget(s);
    listed
}




// ------------------------------------------------------------------------------------------
// C14 / C13: one write from any state
// ------------------------------------------------------------------------------------------
fn write_case(nbase: usize, ncur: usize, nlog: usize, prefix: bool) -> (usize, u8) {
    let mut listed = (0usize, 0u8);
    let base = any_base(nbase);
    let mut lvl: Level = [None; NC];
    let cur = any_current(ncur, &mut lvl);
    let mut want = overlay(&flat_base(&base), &lvl);
    let l0 = any_upd();
    let mut log = Vec::with_capacity(8);
    if nlog == 1 {
        log.push(mk_log_entry(l0));
    }
    let mut s = new_session(base, log, cur);
    let mut sink = NullSink;
    {
        let mut p = SessionPerspective {
            session: &mut s,
            message_sink: &mut sink,
        };
        let u = any_upd();
        let r = match u.v {
            Some(v) => p.insert(fname(), mk_key(u.c), bx(v)),
            None => {
                kani::cover!(want[u.c as usize].is_some(), "delete of a visible fact");
                kani::cover!(
                    lvl[u.c as usize].is_none() & want[u.c as usize].is_some(),
                    "delete of a committed fact"
                );
                p.delete(fname(), mk_key(u.c))
            }
        };
        assert!(r.is_ok());
        want[u.c as usize] = u.v;
        assert!(p.session.fact_log.len() == nlog + 1);
        assert!(same_entry(&p.session.fact_log[nlog], u));
        if nlog == 1 {
            assert!(same_entry(&p.session.fact_log[0], l0));
        }
        assert!(p.checkpoint().index == nlog + 1);
        if prefix {
            listed = check_prefix(&p, &want, nbase + ncur + 1);
        } else {
            check_exact(&p, &want);
        }
    }
    core::mem::forget(s);
    listed
}



// ------------------------------------------------------------------------------------------
// C13 (session half): revert(i) from any state
// ------------------------------------------------------------------------------------------
fn revert_case(nbase: usize, nlog: usize, ncur: usize, idx: usize, prefix: bool) -> (usize, u8) {
    let mut listed = (0usize, 0u8);
    let base = any_base(nbase);
    // current_facts is arbitrary garbage: revert must rebuild it from the log alone
    let mut lvl: Level = [None; NC];
    let cur = any_current(ncur, &mut lvl);
    let pre = overlay(&flat_base(&base), &lvl);
    // the checkpoint index is CONCRETE (a symbolic one makes the truncated Vec length symbolic,
    // which CBMC cannot afford); harnesses enumerate it
    assert!(idx <= nlog);
    let mut want = flat_base(&base);
    let mut us = [Upd { c: 0, v: None }; 3];
    let mut j = 0;
    while j < nlog {
        us[j] = any_upd();
        if j < idx {
            want[us[j].c as usize] = us[j].v;
        }
        j += 1;
    }
    // The fact log lives in a STACK buffer (Vec::from_raw_parts over a local array; revert only
    // truncates it, the session is forgotten at the end): when the real code clones log entries
    // it reads back from a HEAP vector, CBMC loses their lengths and the clones become
    // symbolic-size allocations (measured: > 14 GB). See revert.rs.
    let mut lbuf = [mk_log_entry(us[0]), mk_log_entry(us[1]), mk_log_entry(us[2])];
    let log = unsafe { Vec::from_raw_parts(lbuf.as_mut_ptr(), nlog, 3) };
    let mut s = new_session(base, log, cur);
    // a live query iterator keeps the Arc shared: revert must then build a fresh map
    let shared: bool = kani::any();
    let keep = if shared { Some(Arc::clone(&s.current_facts)) } else { None };
    let mut sink = NullSink;
    {
        let mut p = SessionPerspective {
            session: &mut s,
            message_sink: &mut sink,
        };
        assert!(p.revert(Checkpoint { index: idx }).is_ok());
        assert!(p.session.fact_log.len() == idx);
        let mut j = 0;
        while j < nlog {
            if j < idx {
                assert!(same_entry(&p.session.fact_log[j], us[j]));
            }
            j += 1;
        }
        match p.head_address() {
            Ok(Prior::Single(a)) => assert!(a.max_cut == MaxCut::new(0)),
            _ => assert!(false),
        }
        let untouched = idx == nlog;
        kani::cover!(shared, "revert while the overlay Arc is shared (live query iterator)");
        kani::cover!(!shared, "revert with the overlay Arc unshared (allocation reused)");
        let want = if untouched { pre } else { want };
        if prefix {
            listed = check_prefix(&p, &want, nbase + nlog);
        } else {
            check_exact(&p, &want);
        }
    }
    core::mem::forget(keep);
    core::mem::forget(s);
    core::mem::forget(lbuf);
    listed
}




// ------------------------------------------------------------------------------------------
// C14: Session::action / Session::receive with a rule that may fail after writing
// ------------------------------------------------------------------------------------------
fn session_op_case(nbase: usize, nlog: usize, nscript: usize, receive: bool, prefix: bool) -> (usize, u8) {
    let mut listed = (0usize, 0u8);
    let base = any_base(nbase);
    let mut lvl: Level = [None; NC];
    let (log0, cur, us) = any_log_state(nlog, &mut lvl);
    core::mem::forget(log0);
    // stack-backed fact log (see revert_case) with room for the writes of the operation
    let mut lbuf = [
        mk_log_entry(us[0]),
        mk_log_entry(Upd { c: 0, v: None }),
        mk_log_entry(Upd { c: 0, v: None }),
        mk_log_entry(Upd { c: 0, v: None }),
    ];
    assert!(nlog <= 1 && nlog + nscript <= 4);
    let log = unsafe { Vec::from_raw_parts(lbuf.as_mut_ptr(), nlog, 4) };
    let mut want = overlay(&flat_base(&base), &lvl);
    let mut s = new_session(base, log, cur);
    let script = any_script(nscript);
    let client = ClientState {
        policy_store: VPS {
            policy: VPolicy { script },
        },
        provider: VProv,
    };
    let mut eff = CountSink::default();
    let mut msg = CountSink::default();
    let gid = s.graph_id;
    let ok = if receive {
        let bytes = [0u8; 33];
        match s.receive(&client, &mut eff, &bytes) {
            Ok(()) => true,
            Err(_) => false,
        }
    } else {
        match s.action(&client, &mut eff, &mut msg, gid) {
            Ok(()) => true,
            Err(_) => false,
        }
    };
    assert!(ok == !script.fail);
    assert!(eff.begun == 1 && eff.consumed == 1);
    if ok {
        let mut i = 0;
        while i < script.n {
            want[script.code[i] as usize] = if script.del[i] { None } else { Some(script.val[i]) };
            i += 1;
        }
        assert!(eff.committed == 1 && eff.rolled_back == 0);
        assert!(msg.rolled_back == 0);
        assert!(s.fact_log.len() == nlog + nscript);
        kani::cover!(nscript > 0, "successful operation with writes");
    } else {
        // failed operation: observable session state unchanged, sinks rolled back
        assert!(eff.committed == 0 && eff.rolled_back == 1);
        if !receive {
            assert!(msg.rolled_back == 1);
        }
        assert!(s.fact_log.len() == nlog);
        kani::cover!(nscript > 0, "rule wrote facts and then failed");
    }
    if !receive {
        assert!(msg.consumed == if script.publish { 1 } else { 0 });
    }
    {
        let mut sink = NullSink;
        let p = SessionPerspective {
            session: &mut s,
            message_sink: &mut sink,
        };
        if prefix {
            listed = check_prefix(&p, &want, nbase + nlog + nscript);
        } else {
            check_exact(&p, &want);
        }
    }
    core::mem::forget(s);
    core::mem::forget(lbuf);
    listed
}






// ------------------------------------------------------------------------------------------
// C13 (session half): direct history cross-check
// ------------------------------------------------------------------------------------------
fn session_history(n: usize, nbase: usize) {
    let base = any_base(nbase);
    let mut m = flat_base(&base);
    let mut s = new_session(base, Vec::with_capacity(8), Outer::new());
    let mut sink = NullSink;
    {
        let mut p = SessionPerspective {
            session: &mut s,
            message_sink: &mut sink,
        };
        let mut snap_index = 0usize;
        let mut snap_model = m;
        let mut snap_writes = 0usize;
        let mut taken = false;
        let mut writes = 0usize;
        let len: usize = kani::any();
        kani::assume(len <= n);
        let mut i = 0;
        while i < n {
            if i < len {
                let op: u8 = kani::any();
                kani::assume(op < 3);
                if op == 0 {
                    let u = any_upd();
                    let r = match u.v {
                        Some(v) => p.insert(fname(), mk_key(u.c), bx(v)),
                        None => p.delete(fname(), mk_key(u.c)),
                    };
                    assert!(r.is_ok());
                    m[u.c as usize] = u.v;
                    writes += 1;
                } else if op == 1 {
                    snap_index = p.checkpoint().index;
                    snap_model = m;
                    snap_writes = writes;
                    taken = true;
                    kani::cover!(writes > 0, "checkpoint after earlier session writes");
                } else if taken {
                    kani::cover!(writes > snap_writes, "revert discards later writes");
                    assert!(p.revert(Checkpoint { index: snap_index }).is_ok());
                    m = snap_model;
                    writes = snap_writes;
                }
            }
            i += 1;
        }
        check_exact(&p, &m);
    }
    core::mem::forget(s);
}

// ------------------------------------------------------------------------------------------
// C14, iterator level: the sorted merge and the prefix scan on their own (no Arc / Yoke / nested
// maps around them, so larger sizes are affordable)
// ------------------------------------------------------------------------------------------
/// Iterators that hand out PRE-BUILT items (no allocation while the merge runs, which keeps
/// CBMC's pointer sets small): committed side and session side.
struct PIter {
    items: [Option<Fact>; 3],
    pos: usize,
}
impl Iterator for PIter {
    type Item = Result<Fact, StorageError>;
    fn next(&mut self) -> Option<Self::Item> {
        if self.pos >= 3 {
            return None;
        }
        let i = self.pos;
        self.pos += 1;
        self.items[i].take().map(Ok)
    }
}
struct CIter {
    items: [Option<(Keys, Option<Bytes>)>; 3],
    pos: usize,
}
impl Iterator for CIter {
    type Item = (Keys, Option<Bytes>);
    fn next(&mut self) -> Option<Self::Item> {
        if self.pos >= 3 {
            return None;
        }
        let i = self.pos;
        self.pos += 1;
        self.items[i].take()
    }
}

/// The real `QueryIterator` over ANY sorted committed facts and ANY sorted session entries.
fn merge_case(np: usize, ncur: usize) -> (usize, u8) {
    let base = any_base(np);
    let mut prior = PIter {
        items: [None, None, None],
        pos: 0,
    };
    let mut i = 0;
    while i < np {
        prior.items[i] = Some(Fact {
            key: mk_key(base.code[i]),
            value: bx(base.val[i]),
        });
        i += 1;
    }
    let mut cur = CIter {
        items: [None, None, None],
        pos: 0,
    };
    let mut lvl: Level = [None; NC];
    let mut shadow = false;
    let mut hide = false;
    let mut prev: Option<u8> = None;
    let mut i = 0;
    while i < ncur {
        let c = any_code();
        if let Some(p) = prev {
            kani::assume(p < c);
        }
        prev = Some(c);
        let v: u8 = kani::any();
        let val = if kani::any() { Some(v) } else { None };
        cur.items[i] = Some((mk_key(c), val.map(bx)));
        lvl[c as usize] = Some(val);
        if flat_base(&base)[c as usize].is_some() {
            shadow = true;
            if val.is_none() {
                hide = true;
            }
        }
        i += 1;
    }
    let want = overlay(&flat_base(&base), &lvl);
    let mut it = QueryIterator::new(prior, cur);
    let mut n_want = 0;
    let mut c = 0;
    while c < NC {
        if want[c].is_some() {
            n_want += 1;
        }
        c += 1;
    }
    let mut last: Option<u8> = None;
    let mut got = 0;
    let mut i = 0;
    while i < np + ncur {
        match it.next() {
            Some(Ok(f)) => {
                let c = match code_of(&f.key) {
                    Some(c) => c,
                    None => {
                        assert!(false);
                        return (0, 0);
                    }
                };
                assert!(f.value.len() == 1);
                assert!(want[c as usize] == Some(f.value[0])); // newest value, never a tombstone
                if let Some(l) = last {
                    assert!(l < c); // strictly ascending: sorted, no duplicates
                }
                last = Some(c);
                got += 1;
                core::mem::forget(f);
            }
            Some(Err(_)) => assert!(false),
            None => {}
        }
        i += 1;
    }
    assert!(it.next().is_none());
    assert!(got == n_want);
    kani::cover!(shadow, "session entry overrides a committed fact with the same key");
    kani::cover!(hide, "session tombstone hides a committed fact");
    core::mem::forget(it);
    (got, 0)
}

/// The real `PrefixIter` over ANY per-name overlay map and ANY prefix: exactly the entries under
/// the prefix (tombstones included, they are the merge's business), ascending.
fn prefix_iter_case(n: usize) -> (usize, u8) {
    let mut lvl: Level = [None; NC];
    let inner = any_inner(n, &mut lvl);
    let pc: u8 = kani::any();
    kani::assume(pc <= ncode());
    let mut it = PrefixIter::new(&inner, mk_prefix(pc));
    let mut n_want = 0;
    let mut c = 0;
    while c < NCODE {
        if lvl[c as usize].is_some() && has_prefix(c, pc) {
            n_want += 1;
        }
        c += 1;
    }
    let mut last: Option<u8> = None;
    let mut got = 0;
    let mut i = 0;
    while i < n {
        if let Some((k, v)) = it.next() {
            let c = match code_of(&k) {
                Some(c) => c,
                None => {
                    assert!(false);
                    return (0, 0);
                }
            };
            assert!(has_prefix(c, pc));
            match (lvl[c as usize], &v) {
                (Some(None), None) => {}
                (Some(Some(x)), Some(b)) => assert!(b.len() == 1 && b[0] == x),
                _ => assert!(false),
            }
            if let Some(l) = last {
                assert!(l < c);
            }
            last = Some(c);
            got += 1;
            core::mem::forget(k);
            core::mem::forget(v);
        }
        i += 1;
    }
    assert!(it.next().is_none());
    assert!(got == n_want);
    assert!(PrefixIter::default().next().is_none());
    core::mem::forget(it);
    core::mem::forget(inner);
    (got, pc)
}

// ------------------------------------------------------------------------------------------
// proof harnesses (sizes: see checks/C13.json, checks/C14.json)
// ------------------------------------------------------------------------------------------
macro_rules! harness {
    ($name:ident, $mixed:expr, $body:expr) => {
        #[kani::proof]
        #[kani::unwind(7)]
        fn $name() {
            set_mixed($mixed);
            let _ = $body;
        }
    };
    ($name:ident, $mixed:expr, $body:expr, $min:expr, $text:expr) => {
        #[kani::proof]
        #[kani::unwind(7)]
        fn $name() {
            set_mixed($mixed);
            let (got, _pc) = $body;
            kani::cover!(got >= $min, $text);
        }
    };
}

// C14 overlay
harness!(c14_overlay_exact_small, false, overlay_case(2, 2, false));
harness!(c14_overlay_exact_full, false, overlay_case(3, 3, false));
harness!(c14_overlay_exact_mixed, true, overlay_case(2, 2, false));
harness!(c14_overlay_prefix_small, false, overlay_case(2, 2, true), 2, "prefix query with two or more results");
harness!(c14_overlay_prefix_full, false, overlay_case(3, 3, true), 3, "prefix query with three results");
harness!(c14_overlay_prefix_mixed, true, overlay_case(2, 2, true), 2, "prefix query with two or more results");
// C14 writes
harness!(c14_write_step_small, false, write_case(1, 1, 1, false));
harness!(c14_write_step_full, false, write_case(2, 2, 1, false));
harness!(c14_write_step_prefix, false, write_case(2, 1, 0, true), 2, "prefix query with two or more results");
harness!(c14_write_step_mixed, true, write_case(1, 1, 0, false));
// C13 session revert
harness!(c13_session_revert_step_small, false, revert_case(1, 2, 1, 1, false));
harness!(c13_session_revert_step_to_empty, false, revert_case(1, 2, 1, 0, false));
harness!(c13_session_revert_step_noop, false, revert_case(1, 2, 1, 2, false));
harness!(c13_session_revert_step_full, false, revert_case(2, 3, 2, 2, false));
harness!(c13_session_revert_step_prefix, false, revert_case(2, 2, 1, 1, true), 2, "prefix query with two or more results");
harness!(c13_session_history3, false, session_history(3, 1));
// C14 action / receive
harness!(c14_action_step_small, false, session_op_case(1, 1, 1, false, false));
harness!(c14_action_step_full, false, session_op_case(2, 1, 2, false, false));
harness!(c14_action_step_prefix, false, session_op_case(2, 1, 1, false, true), 2, "prefix query with two or more results");
harness!(c14_receive_step_small, false, session_op_case(1, 1, 1, true, false));
harness!(c14_receive_step_full, false, session_op_case(2, 1, 2, true, false));
// C14 iterator level
harness!(c14_merge_iter_small, false, merge_case(2, 2), 2, "merge with two or more results");
harness!(c14_merge_iter_full, false, merge_case(3, 3), 3, "merge with three or more results");
harness!(c14_merge_iter_mixed, true, merge_case(3, 3), 4, "compound keys: merge with four or more results");
harness!(c14_prefix_iter_small, false, prefix_iter_case(3), 2, "two or more entries under the prefix");
harness!(c14_prefix_iter_mixed, true, prefix_iter_case(3), 2, "compound keys: two or more entries under the prefix");
// minimal full-stack variants
harness!(c14_overlay_prefix_min, false, overlay_case(1, 1, true), 1, "prefix query with a result");
harness!(c14_write_step_min, false, write_case(1, 0, 0, false));
harness!(c14_action_step_min, false, session_op_case(1, 0, 1, false, false));
harness!(c14_receive_step_min, false, session_op_case(1, 0, 1, true, false));
