// C02 kernels — ConvergenceMap pieces, one step each from an arbitrary state.
// Child module of aranya_runtime::client::convergence_map (sees private fields).
// Built on the scaled-capacity group (BLOCK_ENTRIES = 2, ROOT_CAPACITY = 4).
use super::*;
use crate::{SegmentIndex, storage::TraversalBuffer};

pub struct ArrSpill {
    pub buf: [u8; 256],
}
impl Spill for ArrSpill {
    fn write_at(&mut self, offset: usize, data: &[u8]) -> Result<(), StorageError> {
        let end = offset.checked_add(data.len()).ok_or(StorageError::IoError)?;
        if end > 256 {
            return Err(StorageError::IoError);
        }
        self.buf[offset..end].copy_from_slice(data);
        Ok(())
    }
    fn read_at(&mut self, offset: usize, data: &mut [u8]) -> Result<(), StorageError> {
        let end = offset.checked_add(data.len()).ok_or(StorageError::IoError)?;
        if end > 256 {
            return Err(StorageError::IoError);
        }
        data.copy_from_slice(&self.buf[offset..end]);
        Ok(())
    }
}

fn any_entry() -> Entry {
    let s: u64 = kani::any();
    let m: u64 = kani::any();
    let c: usize = kani::any();
    kani::assume(c >= 1);
    Entry { location: Location::new(SegmentIndex::new(s), MaxCut::new(m)), count: c }
}

/// Entry byte encoding round-trips for every location and count.
#[kani::proof]
#[kani::unwind(26)]
fn convk_entry_bytes_roundtrip() {
    let e = any_entry();
    let b = e.to_bytes();
    let d = Entry::from_bytes(&b);
    assert!(d.location == e.location);
    assert!(d.count == e.count);
}

/// consume_entry: an entry with count > 1 is decremented and the strand is dropped (false);
/// the last arrival removes the entry and continues (true).  Other entries are untouched.
#[kani::proof]
#[kani::unwind(6)]
fn convk_consume_entry() {
    let mut storage = ConvergenceStorage::new();
    let e0 = any_entry();
    let e1 = any_entry();
    kani::assume(e0.location != e1.location);
    storage.blocks[1].insert(e0);
    storage.blocks[1].insert(e1);
    let mut tb = TraversalBuffer::new();
    let mut map = ConvergenceMap {
        storage: &mut storage,
        active_block: 0,
        queue: tb.get(),
        lca: Location::new(SegmentIndex::new(0), MaxCut::new(0)),
        access_counter: 7,
        spill_file: ArrSpill { buf: [0; 256] },
        next_file_offset: 0,
    };
    let which: usize = kani::any();
    kani::assume(which < 2);
    let target = if which == 0 { e0 } else { e1 };
    let other = if which == 0 { e1 } else { e0 };
    let (bi, ei) = match map.find_in_memory(target.location) {
        Some(x) => x,
        None => panic!("inserted entry not found"),
    };
    assert!(bi == 1);
    let r = match map.consume_entry(bi, ei) {
        Ok(r) => r,
        Err(_) => panic!("consume failed"),
    };
    if target.count > 1 {
        assert!(!r);
        match map.find_in_memory(target.location) {
            Some((b2, i2)) => assert!(map.storage.blocks[b2].entries[i2].count == target.count - 1),
            None => panic!("entry with remaining arrivals disappeared"),
        }
        kani::cover!(target.count == 2, "second-to-last arrival dropped");
    } else {
        assert!(r);
        assert!(map.find_in_memory(target.location).is_none());
        kani::cover!(true, "last arrival continues");
    }
    match map.find_in_memory(other.location) {
        Some((b2, i2)) => assert!(map.storage.blocks[b2].entries[i2].count == other.count),
        None => panic!("unrelated entry lost"),
    }
    assert!(map.storage.blocks[1].last_accessed == 7);
}

/// spill_lru followed by load_block_from_disk gives back the same entries; the root index entry
/// is consumed; min/max range of the spilled block covers its entries.
#[kani::proof]
#[kani::unwind(50)]
fn convk_spill_load_roundtrip() {
    let mut storage = ConvergenceStorage::new();
    let e0 = any_entry();
    let e1 = any_entry();
    kani::assume(e0.location != e1.location);
    // block 0 is the LRU (last_accessed 0 < others) and full
    storage.blocks[0].insert(e0);
    storage.blocks[0].insert(e1);
    storage.blocks[1].last_accessed = 3;
    storage.blocks[2].last_accessed = 5;
    let x = any_entry();
    storage.blocks[1].insert(x);
    let mut tb = TraversalBuffer::new();
    let mut map = ConvergenceMap {
        storage: &mut storage,
        active_block: 0,
        queue: tb.get(),
        lca: Location::new(SegmentIndex::new(0), MaxCut::new(0)),
        access_counter: 9,
        spill_file: ArrSpill { buf: [0; 256] },
        next_file_offset: 0,
    };
    match map.spill_lru() {
        Ok(()) => {}
        Err(_) => panic!("spill failed"),
    }
    assert!(map.active_block == 0);
    assert!(map.storage.blocks[0].is_empty());
    assert!(map.storage.root.len() == 1);
    let node = map.storage.root[0];
    assert!(node.num_entries == 2);
    assert!(node.min_max_cut <= e0.location.max_cut && e0.location.max_cut <= node.max_max_cut);
    assert!(node.min_max_cut <= e1.location.max_cut && e1.location.max_cut <= node.max_max_cut);
    assert!(map.next_file_offset == 2 * ENTRY_BYTES);
    // the spilled entries are not in memory any more, the unrelated one is
    assert!(map.find_in_memory(x.location).is_some() || x.location == e0.location || x.location == e1.location);
    let bi = match map.load_block_from_disk(0) {
        Ok(b) => b,
        Err(_) => panic!("load failed"),
    };
    assert!(map.storage.root.is_empty());
    let blk = &map.storage.blocks[bi];
    assert!(blk.entries.len() == 2);
    let i0 = match blk.find(e0.location) { Some(i) => i, None => panic!("e0 lost") };
    let i1 = match blk.find(e1.location) { Some(i) => i, None => panic!("e1 lost") };
    assert!(blk.entries[i0].count == e0.count);
    assert!(blk.entries[i1].count == e1.count);
    assert!(blk.last_accessed == 9);
    kani::cover!(e0.location.max_cut > e1.location.max_cut, "entries out of order");
}

#[path = "vstore.rs"]
mod vstore;

/// State with one spilled block of two symbolic entries: root node range [min,max] is any range
/// that covers both entries (what `spill_lru` guarantees, see convk_spill_load_roundtrip), file
/// holds the two encoded entries, all in-memory blocks empty.
/// entry in a concrete segment (keeps `Block::find`'s result index concrete: a symbolic index
/// into the heapless Vec in `consume_entry` costs > 10 GB), symbolic max cut and count
fn any_entry_in(seg: u64) -> Entry {
    let mut e = any_entry();
    e.location = Location::new(SegmentIndex::new(seg), e.location.max_cut);
    e
}

fn spilled_state(storage: &mut ConvergenceStorage, e0: Entry, e1: Entry) -> ArrSpill {
    let min: u64 = kani::any();
    let max: u64 = kani::any();
    kani::assume(min <= e0.location.max_cut.get() && e0.location.max_cut.get() <= max);
    kani::assume(min <= e1.location.max_cut.get() && e1.location.max_cut.get() <= max);
    let _ = storage.root.push(NodeEntry {
        min_max_cut: MaxCut::new(min),
        max_max_cut: MaxCut::new(max),
        file_offset: 0,
        num_entries: 2,
    });
    let mut sp = ArrSpill { buf: [0; 256] };
    sp.buf[0..ENTRY_BYTES].copy_from_slice(&e0.to_bytes());
    sp.buf[ENTRY_BYTES..2 * ENTRY_BYTES].copy_from_slice(&e1.to_bytes());
    sp
}

/// should_continue on a convergence point that lives in a spilled block: the entry — also when
/// it has the lowest or the highest max cut of the block's range — is found through the root
/// index, reloaded, and its arrival count consumed (all but the last arrival are dropped).
// unwind 4: the root-index loop runs at most twice here (1 node); after the symbolic range test
// CBMC no longer knows `ri`/`root.len()` concretely and would unroll to the bound (50 -> > 7 GB).
// The unwinding assertions show 4 is enough for every loop reached.
#[kani::proof]
#[kani::unwind(4)]
fn convk_should_continue_spilled_hit() {
    let mut storage = ConvergenceStorage::new();
    let e0 = any_entry_in(1);
    let e1 = any_entry_in(2);
    let sp = spilled_state(&mut storage, e0, e1);
    let min = storage.root[0].min_max_cut;
    let max = storage.root[0].max_max_cut;
    let mut tb = TraversalBuffer::new();
    let mut map = ConvergenceMap {
        storage: &mut storage,
        active_block: 0,
        queue: tb.get(),
        lca: Location::new(SegmentIndex::new(0), MaxCut::new(0)),
        access_counter: 9,
        spill_file: sp,
        next_file_offset: 2 * ENTRY_BYTES,
    };
    let mut st = vstore::VStore::new();
    let r = match map.should_continue(&mut st, e0.location) {
        Ok(r) => r,
        Err(_) => panic!("should_continue failed"),
    };
    assert!(r == (e0.count == 1));
    assert!(st.get_segment_calls == 0);
    match map.find_in_memory(e0.location) {
        Some((b, i)) => {
            assert!(e0.count > 1);
            assert!(map.storage.blocks[b].entries[i].count == e0.count - 1);
        }
        None => assert!(e0.count == 1),
    }
    match map.find_in_memory(e1.location) {
        Some((b, i)) => assert!(map.storage.blocks[b].entries[i].count == e1.count),
        None => panic!("other spilled entry lost"),
    }
    kani::cover!(e0.location.max_cut == min, "target at the low end of the block range");
    kani::cover!(e0.location.max_cut == max, "target at the high end of the block range");
    kani::cover!(e0.count > 1, "dropped arrival");
}

/// should_continue on a location that is in no block continues (true), whether or not its max
/// cut falls into a spilled block's range.
// unwind 4: the root-index loop runs at most twice here (1 node); after the symbolic range test
// CBMC no longer knows `ri`/`root.len()` concretely and would unroll to the bound (50 -> > 7 GB).
// The unwinding assertions show 4 is enough for every loop reached.
#[kani::proof]
#[kani::unwind(4)]
fn convk_should_continue_spilled_miss() {
    let mut storage = ConvergenceStorage::new();
    let e0 = any_entry_in(1);
    let e1 = any_entry_in(2);
    let sp = spilled_state(&mut storage, e0, e1);
    let min = storage.root[0].min_max_cut;
    let max = storage.root[0].max_max_cut;
    let mut tb = TraversalBuffer::new();
    let mut map = ConvergenceMap {
        storage: &mut storage,
        active_block: 0,
        queue: tb.get(),
        lca: Location::new(SegmentIndex::new(0), MaxCut::new(0)),
        access_counter: 9,
        spill_file: sp,
        next_file_offset: 2 * ENTRY_BYTES,
    };
    let mut st = vstore::VStore::new();
    let xs: u64 = kani::any();
    kani::assume(xs <= 3);
    let x = any_entry_in(xs);
    kani::assume(x.location != e0.location && x.location != e1.location);
    match map.should_continue(&mut st, x.location) {
        Ok(r) => assert!(r),
        Err(_) => panic!("should_continue failed"),
    }
    kani::cover!((x.location.max_cut >= min) & (x.location.max_cut <= max), "miss inside the spilled range");
    kani::cover!(x.location.max_cut > max, "miss outside the spilled range");
}

