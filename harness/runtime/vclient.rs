// Audit substrate for the Transaction / ClientState one-step harnesses (C06, C07, C08, C09, C10):
// a StorageProvider / Storage / Perspective / PolicyStore / Policy / Sink that RECORD what the real
// client code does to them.  Everything here is trait-level environment (no #[kani::stub]).
#![allow(dead_code)]

use alloc::string::String;

use crate::{
    Address, Checkpoint, CmdId, Command, CommandPlacement, Fact, FactIndex, FactPerspective, GraphId,
    HeadSet, HeadSetOffset, Keys, LocatedAddress, Location, MaxCut, MergeIds, Perspective, Policy,
    PolicyError, PolicyId, PolicyStore, Prior, Priority, Query, QueryMut, Revertable, Segment,
    SegmentIndex, Sink, Storage, StorageError, StorageProvider,
    policy::ActionPlacement,
    storage::Bytes,
};

pub fn loc(seg: u64, mc: u64) -> Location {
    Location::new(SegmentIndex::new(seg), MaxCut::new(mc))
}
pub fn cid(b: u8) -> CmdId {
    let mut bytes = [0u8; 32];
    bytes[0] = b;
    CmdId::from_bytes(bytes)
}
pub fn gid(b: u8) -> GraphId {
    GraphId::transmute(cid(b))
}
pub fn id_byte(id: CmdId) -> u8 {
    id.as_array()[0]
}
pub fn addr(b: u8, mc: u64) -> Address {
    Address { id: cid(b), max_cut: MaxCut::new(mc) }
}

static POLICY_BYTES: [u8; 1] = [7];

/// A command: id byte, parent, whether it carries policy bytes, whether the rule rejects it.
#[derive(Clone, Copy)]
pub struct ACmd {
    pub id: u8,
    pub parent: Prior<Address>,
    pub has_policy: bool,
    pub merge: bool,
}
impl Command for ACmd {
    fn priority(&self) -> Priority {
        if self.merge {
            Priority::Merge
        } else if matches!(self.parent, Prior::None) {
            Priority::Init
        } else {
            Priority::Basic(0)
        }
    }
    fn id(&self) -> CmdId {
        cid(self.id)
    }
    fn parent(&self) -> Prior<Address> {
        self.parent
    }
    fn policy(&self) -> Option<&[u8]> {
        if self.has_policy { Some(&POLICY_BYTES) } else { None }
    }
    fn bytes(&self) -> &[u8] {
        &[]
    }
}

// ---- perspective ------------------------------------------------------------------------------

pub const PMAX: usize = 4;

/// Records commands added and fact writes, with exact checkpoint / revert semantics.
#[derive(Clone, Copy)]
pub struct APersp {
    pub parent: Prior<Address>,
    pub parent_loc: Prior<Location>,
    pub base_mc: u64, // max_cut of the first command that will be added
    pub cmds: [u8; PMAX],
    pub ncmd: usize,
    /// fact writes per slot: writes[i] = number of writes made while ncmd == i
    pub writes: [u8; PMAX + 1],
    pub reverts: u8,
    pub checkpoints: u8,
    pub last_revert_index: usize,
}
impl APersp {
    pub fn new(parent: Prior<Address>, parent_loc: Prior<Location>, base_mc: u64) -> Self {
        Self {
            parent,
            parent_loc,
            base_mc,
            cmds: [0; PMAX],
            ncmd: 0,
            writes: [0; PMAX + 1],
            reverts: 0,
            checkpoints: 0,
            last_revert_index: usize::MAX,
        }
    }
    pub fn pending_writes(&self) -> u8 {
        self.writes[self.ncmd]
    }
}
impl FactPerspective for APersp {}
impl Query for APersp {
    fn query(&self, _name: &str, _keys: &[Bytes]) -> Result<Option<Bytes>, StorageError> {
        Ok(None)
    }
    type QueryIterator = core::iter::Empty<Result<Fact, StorageError>>;
    fn query_prefix(&self, _n: &str, _p: &[Bytes]) -> Result<Self::QueryIterator, StorageError> {
        Ok(core::iter::empty())
    }
}
impl QueryMut for APersp {
    fn insert(&mut self, _name: String, _keys: Keys, _value: Bytes) -> Result<(), StorageError> {
        self.writes[self.ncmd] += 1;
        Ok(())
    }
    fn delete(&mut self, _name: String, _keys: Keys) -> Result<(), StorageError> {
        self.writes[self.ncmd] += 1;
        Ok(())
    }
}
impl Perspective for APersp {
    fn policy(&self) -> PolicyId {
        PolicyId::new(0)
    }
    fn add_command(&mut self, command: &impl Command) -> Result<usize, StorageError> {
        if self.ncmd >= PMAX {
            return Err(StorageError::IoError);
        }
        self.cmds[self.ncmd] = id_byte(command.id());
        self.ncmd += 1;
        Ok(self.ncmd)
    }
    fn includes(&self, id: CmdId) -> bool {
        let b = id_byte(id);
        let mut i = 0;
        while i < self.ncmd {
            if self.cmds[i] == b {
                return true;
            }
            i += 1;
        }
        false
    }
    fn head_address(&self) -> Result<Prior<Address>, buggy::Bug> {
        if self.ncmd == 0 {
            Ok(self.parent)
        } else {
            Ok(Prior::Single(addr(self.cmds[self.ncmd - 1], self.base_mc + self.ncmd as u64 - 1)))
        }
    }
}
impl Revertable for APersp {
    fn checkpoint(&self) -> Checkpoint {
        // (interior mutability avoided: the count is reconstructed by the harness)
        Checkpoint { index: self.ncmd }
    }
    fn revert(&mut self, checkpoint: Checkpoint) -> Result<(), StorageError> {
        self.reverts += 1;
        self.last_revert_index = checkpoint.index;
        // exact semantics: drop commands after the checkpoint and every write made after it
        let mut i = checkpoint.index;
        while i <= PMAX {
            self.writes[i] = 0;
            i += 1;
        }
        if checkpoint.index < self.ncmd {
            self.ncmd = checkpoint.index;
        }
        Ok(())
    }
}

#[derive(Clone, Copy)]
pub struct AFacts {
    pub tag: u8,
}
impl FactIndex for AFacts {}
impl FactPerspective for AFacts {}
impl Query for AFacts {
    fn query(&self, _name: &str, _keys: &[Bytes]) -> Result<Option<Bytes>, StorageError> {
        Ok(None)
    }
    type QueryIterator = core::iter::Empty<Result<Fact, StorageError>>;
    fn query_prefix(&self, _n: &str, _p: &[Bytes]) -> Result<Self::QueryIterator, StorageError> {
        Ok(core::iter::empty())
    }
}
impl QueryMut for AFacts {
    fn insert(&mut self, _name: String, _keys: Keys, _value: Bytes) -> Result<(), StorageError> {
        Ok(())
    }
    fn delete(&mut self, _name: String, _keys: Keys) -> Result<(), StorageError> {
        Ok(())
    }
}

// ---- segments / storage -----------------------------------------------------------------------

pub const SMAX: usize = 4;

#[derive(Clone, Copy)]
pub struct ASeg {
    pub index: u64,
    pub prior: Prior<Location>,
    pub first_mc: u64,
    pub len: usize,
    pub ids: [u8; PMAX],
    pub writes: u8, // fact writes that were persisted with this segment
}
impl ASeg {
    pub const fn empty() -> Self {
        Self {
            index: 0,
            prior: Prior::None,
            first_mc: 0,
            len: 0,
            ids: [0; PMAX],
            writes: 0,
        }
    }
}
impl Segment for ASeg {
    type FactIndex = AFacts;
    type Command<'a> = ACmd;
    fn index(&self) -> SegmentIndex {
        SegmentIndex::new(self.index)
    }
    fn head_id(&self) -> CmdId {
        cid(self.ids[self.len - 1])
    }
    fn policy(&self) -> PolicyId {
        PolicyId::new(0)
    }
    fn prior(&self) -> Prior<Location> {
        self.prior
    }
    fn get_command(&self, location: Location) -> Option<ACmd> {
        if location.segment.get() != self.index {
            return None;
        }
        let mc = location.max_cut.get();
        if mc < self.first_mc {
            return None;
        }
        let off = (mc - self.first_mc) as usize;
        if off >= self.len {
            return None;
        }
        Some(ACmd { id: self.ids[off], parent: Prior::None, has_policy: false, merge: false })
    }
    fn facts(&self) -> Result<AFacts, StorageError> {
        Ok(AFacts { tag: self.index as u8 })
    }
    fn shortest_max_cut(&self) -> MaxCut {
        MaxCut::new(self.first_mc)
    }
    fn longest_max_cut(&self) -> Result<MaxCut, StorageError> {
        Ok(MaxCut::new(self.first_mc + self.len as u64 - 1))
    }
    fn skip_list(&self) -> &[Location] {
        &[]
    }
}

pub struct AStore {
    pub segs: [ASeg; SMAX],
    pub nseg: usize,
    pub heads: HeadSet,
    pub offset: u64,
    pub commit_calls: u8,
    pub write_calls: u8,
    pub last_fact_tag: u8,
}
impl AStore {
    pub fn new() -> Self {
        Self {
            segs: [ASeg::empty(); SMAX],
            nseg: 0,
            heads: HeadSet::default(),
            offset: 0,
            commit_calls: 0,
            write_calls: 0,
            last_fact_tag: 0,
        }
    }
    /// a committed chain: one segment with `len` commands ids[..len], single head at its end
    pub fn with_chain(ids: &[u8]) -> Self {
        let mut s = Self::new();
        let mut seg = ASeg::empty();
        seg.len = ids.len();
        let mut i = 0;
        while i < ids.len() {
            seg.ids[i] = ids[i];
            i += 1;
        }
        s.segs[0] = seg;
        s.nseg = 1;
        let last = ids.len() - 1;
        s.heads = HeadSet::single(LocatedAddress {
            id: cid(ids[last]),
            segment: SegmentIndex::new(0),
            max_cut: MaxCut::new(last as u64),
        });
        s
    }
    fn push_seg(&mut self, p: &APersp) -> Result<ASeg, StorageError> {
        if p.ncmd == 0 {
            return Err(StorageError::EmptyPerspective);
        }
        if self.nseg >= SMAX {
            return Err(StorageError::IoError);
        }
        let mut seg = ASeg::empty();
        seg.index = self.nseg as u64;
        seg.prior = p.parent_loc;
        seg.first_mc = p.base_mc;
        seg.len = p.ncmd;
        seg.ids = p.cmds;
        let mut w = 0u8;
        let mut i = 0;
        while i <= PMAX {
            w = w.wrapping_add(p.writes[i]);
            i += 1;
        }
        seg.writes = w;
        self.segs[self.nseg] = seg;
        self.nseg += 1;
        Ok(seg)
    }
}
impl Storage for AStore {
    type Perspective = APersp;
    type FactPerspective = AFacts;
    type Segment = ASeg;
    type FactIndex = AFacts;

    fn get_linear_perspective(&self, parent: Location) -> Result<APersp, StorageError> {
        let seg = self.get_segment(parent)?;
        let cmd = seg.get_command(parent).ok_or(StorageError::CommandOutOfBounds(parent))?;
        Ok(APersp::new(
            Prior::Single(Address { id: cmd.id(), max_cut: parent.max_cut }),
            Prior::Single(parent),
            parent.max_cut.get() + 1,
        ))
    }
    fn get_fact_perspective(&self, first: Location) -> Result<AFacts, StorageError> {
        Ok(AFacts { tag: first.segment.get() as u8 })
    }
    fn new_merge_perspective(
        &self,
        left: Location,
        right: Location,
        _lca: Location,
        _policy_id: PolicyId,
        _braid: AFacts,
    ) -> Result<APersp, StorageError> {
        let l = self.get_segment(left)?.get_command(left).ok_or(StorageError::CommandOutOfBounds(left))?;
        let r = self.get_segment(right)?.get_command(right).ok_or(StorageError::CommandOutOfBounds(right))?;
        let mc = if left.max_cut > right.max_cut { left.max_cut } else { right.max_cut };
        Ok(APersp::new(
            Prior::Merge(
                Address { id: l.id(), max_cut: left.max_cut },
                Address { id: r.id(), max_cut: right.max_cut },
            ),
            Prior::Merge(left, right),
            mc.get() + 1,
        ))
    }
    fn get_segment(&self, location: Location) -> Result<ASeg, StorageError> {
        let i = location.segment.get() as usize;
        if i >= self.nseg {
            return Err(StorageError::SegmentOutOfBounds(location));
        }
        Ok(self.segs[i])
    }
    fn get_heads(&self) -> Result<&HeadSet, StorageError> {
        Ok(&self.heads)
    }
    fn heads_offset(&self) -> Result<HeadSetOffset, StorageError> {
        Ok(HeadSetOffset::new(self.offset))
    }
    fn fact_cache(&self) -> Result<AFacts, StorageError> {
        Ok(AFacts { tag: self.last_fact_tag })
    }
    fn commit_heads(&mut self, heads: HeadSet, fact_cache: AFacts) -> Result<(), StorageError> {
        self.heads = heads;
        self.offset += 1;
        self.commit_calls += 1;
        self.last_fact_tag = fact_cache.tag;
        Ok(())
    }
    fn write(&mut self, perspective: APersp) -> Result<ASeg, StorageError> {
        self.write_calls += 1;
        self.push_seg(&perspective)
    }
    fn write_facts(&mut self, f: AFacts) -> Result<AFacts, StorageError> {
        Ok(f)
    }
}

pub struct AProvider {
    pub store: AStore,
    pub exists: bool,
    pub graph: u8,
    pub new_storage_calls: u8,
}
impl AProvider {
    pub fn empty() -> Self {
        Self { store: AStore::new(), exists: false, graph: 0, new_storage_calls: 0 }
    }
    pub fn with(store: AStore, graph: u8) -> Self {
        Self { store, exists: true, graph, new_storage_calls: 0 }
    }
}
impl StorageProvider for AProvider {
    type Perspective = APersp;
    type Segment = ASeg;
    type Storage = AStore;
    fn new_perspective(&mut self, _policy_id: PolicyId) -> APersp {
        APersp::new(Prior::None, Prior::None, 0)
    }
    fn new_storage(&mut self, init: APersp) -> Result<(GraphId, &mut AStore), StorageError> {
        self.new_storage_calls += 1;
        if self.exists {
            return Err(StorageError::StorageExists);
        }
        if init.ncmd == 0 {
            return Err(StorageError::EmptyPerspective);
        }
        let seg = self.store.push_seg(&init)?;
        self.store.heads = HeadSet::single(LocatedAddress {
            id: seg.head_id(),
            segment: seg.index(),
            max_cut: MaxCut::new(seg.first_mc + seg.len as u64 - 1),
        });
        self.exists = true;
        self.graph = init.cmds[0];
        Ok((gid(self.graph), &mut self.store))
    }
    fn get_storage(&mut self, graph: GraphId) -> Result<&mut AStore, StorageError> {
        if self.exists && graph.as_base() == gid(self.graph).as_base() {
            Ok(&mut self.store)
        } else {
            Err(StorageError::NoSuchStorage)
        }
    }
    fn remove_storage(&mut self, _graph: GraphId) -> Result<(), StorageError> {
        self.exists = false;
        Ok(())
    }
    fn list_graph_ids(
        &mut self,
    ) -> Result<impl Iterator<Item = Result<GraphId, StorageError>>, StorageError> {
        Ok(core::iter::empty())
    }
}

// ---- policy / sink ----------------------------------------------------------------------------

/// Rule: writes one fact, then rejects iff the command id equals `reject_id` (writes BEFORE
/// failing: the worst case for C06); otherwise emits the id as effect.
/// Action: publishes `publish` commands (ids act0, act0+1, ...) on the perspective, each with a
/// fact write and an effect, then fails iff `action_fails`.
pub struct APolicy {
    pub reject_id: Option<u8>,
    pub publish: u8,
    pub act0: u8,
    pub action_fails: bool,
}
impl Policy for APolicy {
    type Action<'a> = ();
    type Effect = u8;
    type Command<'a> = ACmd;
    fn serial(&self) -> u32 {
        0
    }
    fn call_rule(
        &self,
        command: &impl Command,
        facts: &mut impl FactPerspective,
        sink: &mut impl Sink<u8>,
        _placement: CommandPlacement,
    ) -> Result<(), PolicyError> {
        let b = id_byte(command.id());
        if facts.insert(String::new(), Keys::default(), Bytes::default()).is_err() {
            return Err(PolicyError::Write);
        }
        if self.reject_id == Some(b) {
            return Err(PolicyError::Rejected);
        }
        sink.consume(b);
        Ok(())
    }
    fn call_action(
        &self,
        _action: (),
        facts: &mut impl Perspective,
        sink: &mut impl Sink<u8>,
        _placement: ActionPlacement,
    ) -> Result<(), PolicyError> {
        let mut k = 0u8;
        while k < self.publish {
            let parent = match facts.head_address() {
                Ok(p) => p,
                Err(_) => return Err(PolicyError::InternalError),
            };
            let c = ACmd { id: self.act0 + k, parent, has_policy: false, merge: false };
            if facts.insert(String::new(), Keys::default(), Bytes::default()).is_err() {
                return Err(PolicyError::Write);
            }
            if facts.add_command(&c).is_err() {
                return Err(PolicyError::Write);
            }
            sink.consume(self.act0 + k);
            k += 1;
        }
        if self.action_fails {
            return Err(PolicyError::Rejected);
        }
        Ok(())
    }
    fn merge<'a>(&self, _target: &'a mut [u8], ids: MergeIds) -> Result<ACmd, PolicyError> {
        let (l, r): (Address, Address) = ids.into();
        Ok(ACmd {
            id: id_byte(l.id) ^ id_byte(r.id) ^ 0x80,
            parent: Prior::Merge(l, r),
            has_policy: false,
            merge: true,
        })
    }
}

pub struct AStoreOfPolicies {
    pub policy: APolicy,
    pub add_calls: u8,
}
impl PolicyStore for AStoreOfPolicies {
    type Policy = APolicy;
    type Effect = u8;
    fn add_policy(&mut self, _policy: &[u8]) -> Result<PolicyId, PolicyError> {
        self.add_calls += 1;
        Ok(PolicyId::new(0))
    }
    fn get_policy(&self, _id: PolicyId) -> Result<&APolicy, PolicyError> {
        Ok(&self.policy)
    }
}

pub const EMAX: usize = 6;

/// Transactional effect sink: `pending` since the last begin, `committed` after commit.
pub struct ASink {
    pub pending: [u8; EMAX],
    pub npending: usize,
    pub committed: [u8; EMAX],
    pub ncommitted: usize,
    pub begins: u8,
    pub commits: u8,
    pub rollbacks: u8,
}
impl ASink {
    pub fn new() -> Self {
        Self {
            pending: [0; EMAX],
            npending: 0,
            committed: [0; EMAX],
            ncommitted: 0,
            begins: 0,
            commits: 0,
            rollbacks: 0,
        }
    }
}
impl Sink<u8> for ASink {
    fn begin(&mut self) {
        self.begins += 1;
        self.npending = 0;
    }
    fn consume(&mut self, effect: u8) {
        if self.npending < EMAX {
            self.pending[self.npending] = effect;
            self.npending += 1;
        }
    }
    fn rollback(&mut self) {
        self.rollbacks += 1;
        self.npending = 0;
    }
    fn commit(&mut self) {
        self.commits += 1;
        let mut i = 0;
        while i < self.npending {
            if self.ncommitted < EMAX {
                self.committed[self.ncommitted] = self.pending[i];
                self.ncommitted += 1;
            }
            i += 1;
        }
        self.npending = 0;
    }
}
