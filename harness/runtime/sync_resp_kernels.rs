// C16 / C17 (kernels) — one-step checks of the responder's session machinery.
// Child module of aranya_runtime::sync::responder: sees push_bounded, skip_jump, the private
// fields of SyncResponder, get_next and get_commands.
//
//  1. push_bounded: one step from an arbitrary (non-)full buffer.
//  2. skip_jump on a concrete 7-segment graph (chain + side branch + merge) with symbolic skip-list
//     presence, symbolic start location and symbolic target.
//  3. get_commands / get_next: response building from a to_send list built directly over a concrete
//     two-segment chain: commands in order without skipping, message_index + 1 per response,
//     next_send never decreases, the remaining-work measure strictly decreases, SyncEnd when
//     exhausted; and the documented "retry with a larger buffer without losing commands".
//
// Delivery completeness over graphs (find_needed_segments) is NOT decided here.
use super::*;
use crate::{Command, HeadSet, Priority, Segment, SegmentIndex};

#[path = "vstore.rs"]
mod vstore;
use vstore::{VSeg, VStore};

#[path = "vclient.rs"]
mod vclient;
use vclient::{AFacts, APersp, gid, id_byte};

fn loc(seg: u64, mc: u64) -> Location {
    Location::new(SegmentIndex::new(seg), MaxCut::new(mc))
}

// ---------------------------------------------------------------------------------------------
// 1. push_bounded
// ---------------------------------------------------------------------------------------------

fn any_loc() -> Location {
    let s: u64 = kani::any();
    let m: u64 = kani::any();
    loc(s, m)
}

/// From any buffer of `len` entries (concrete count, symbolic contents) push any location.
///  * not full: appended, nothing else changes;
///  * full: unchanged unless the new max cut is strictly below the buffer's maximum M; then
///    exactly one entry is replaced, that entry had max cut M, and it is replaced by the new
///    location. Hence every entry below the kept maximum survives, and the buffer always holds
///    the SEGMENT_BUFFER_MAX lowest max cuts seen.
fn push_bounded_case(len: usize) -> u8 {
    let mut v: Vec<Location, SEGMENT_BUFFER_MAX> = Vec::new();
    let mut pre = [loc(0, 0); SEGMENT_BUFFER_MAX];
    let mut i = 0;
    while i < len {
        pre[i] = any_loc();
        if v.push(pre[i]).is_err() {
            panic!("len <= capacity");
        }
        i += 1;
    }
    let new = any_loc();
    push_bounded(&mut v, new);

    if len < SEGMENT_BUFFER_MAX {
        assert!(v.len() == len + 1);
        assert!(v[len] == new);
        let mut i = 0;
        while i < len {
            assert!(v[i] == pre[i]);
            i += 1;
        }
        0
    } else {
        assert!(v.len() == SEGMENT_BUFFER_MAX);
        // M = highest max cut before the push
        let mut m = pre[0].max_cut;
        let mut i = 1;
        while i < len {
            if pre[i].max_cut > m {
                m = pre[i].max_cut;
            }
            i += 1;
        }
        let mut changed = 0;
        let mut i = 0;
        while i < len {
            if v[i] != pre[i] {
                changed += 1;
                // only a maximal entry is ever evicted, and only by the new location
                assert!(pre[i].max_cut == m);
                assert!(v[i] == new);
            }
            i += 1;
        }
        // the maximum never grows
        let mut i = 0;
        while i < len {
            assert!(v[i].max_cut <= m);
            i += 1;
        }
        if new.max_cut < m {
            assert!(changed == 1);
            1
        } else {
            assert!(changed == 0);
            if new.max_cut == m { 2 } else { 3 }
        }
    }
}

#[kani::proof]
#[kani::unwind(13)]
fn c16_push_bounded_not_full() {
    let a = push_bounded_case(0);
    let b = push_bounded_case(SEGMENT_BUFFER_MAX - 1);
    assert!(a == 0 && b == 0);
    kani::cover!(true, "appended to a non-full buffer");
}

#[kani::proof]
#[kani::unwind(13)]
fn c16_push_bounded_full() {
    let o = push_bounded_case(SEGMENT_BUFFER_MAX);
    kani::cover!(o == 1, "highest entry replaced by a lower one");
    kani::cover!(o == 2, "equal max cut does not replace");
    kani::cover!(o == 3, "higher max cut dropped");
}

// ---------------------------------------------------------------------------------------------
// 2. skip_jump
// ---------------------------------------------------------------------------------------------

// Graph (segment: commands by max cut; prior; optional skip entry):
//   s0: 0 1 2          prior None
//   s1: 3 4 5          prior s0@2
//   s2: 6 7 8          prior s1@5          skip (s0,1)
//   s3: 9 10 11        prior s2@8          skip (s1,4)
//   s4: 3 4            prior s0@2                          (side branch)
//   s5: 12 13 14       prior Merge(s3@11, s4@4)  skip (s0,2) = the common ancestor
//   s6: 15 16 17       prior s5@14         skip (s2,7)
// Whether a segment carries its skip entry is symbolic.
const NS: usize = 7;
const FIRST: [u64; NS] = [0, 3, 6, 9, 3, 12, 15];
const LEN: [u64; NS] = [3, 3, 3, 3, 2, 3, 3];
/// ANC[a][b]: segment a is a proper ancestor segment of segment b (every command of a is an
/// ancestor of every command of b: all priors point at the last command of the prior segment).
const ANC: [[bool; NS]; NS] = [
    [false, true, true, true, true, true, true],
    [false, false, true, true, false, true, true],
    [false, false, false, true, false, true, true],
    [false, false, false, false, false, true, true],
    [false, false, false, false, false, true, true],
    [false, false, false, false, false, false, true],
    [false, false, false, false, false, false, false],
];

fn skip_graph() -> VStore {
    let mut s = VStore::new();
    s.add_seg(Prior::None, 0, 3);
    s.add_seg(Prior::Single(loc(0, 2)), 3, 3);
    s.add_seg(Prior::Single(loc(1, 5)), 6, 3);
    s.add_seg(Prior::Single(loc(2, 8)), 9, 3);
    s.add_seg(Prior::Single(loc(0, 2)), 3, 2);
    s.add_seg(Prior::Merge(loc(3, 11), loc(4, 4)), 12, 3);
    s.add_seg(Prior::Single(loc(5, 14)), 15, 3);
    let skips: [(usize, Location); 4] =
        [(2, loc(0, 1)), (3, loc(1, 4)), (5, loc(0, 2)), (6, loc(2, 7))];
    let mut i = 0;
    while i < 4 {
        let (seg, target) = skips[i];
        if kani::any() {
            s.segs[seg].nskip = 1;
            s.segs[seg].skip[0] = target;
        }
        i += 1;
    }
    s
}

fn valid_location(l: Location) -> bool {
    let s = l.segment.get();
    if s >= NS as u64 {
        return false;
    }
    let f = FIRST[s as usize];
    l.max_cut.get() >= f && l.max_cut.get() < f + LEN[s as usize]
}

/// a is an ancestor-or-self of b (both valid locations of the graph above)
fn anc_or_self(a: Location, b: Location) -> bool {
    let (sa, sb) = (a.segment.get() as usize, b.segment.get() as usize);
    if sa == sb {
        a.max_cut <= b.max_cut
    } else {
        ANC[sa][sb]
    }
}

/// skip_jump(storage, head, target):
///  * never fails on a well-formed graph and terminates within the number of segments (unwind);
///  * the result is a command of the graph that is an ancestor-or-self of `head`;
///  * head.max_cut <= target: the result is `head`; otherwise result.max_cut >= target (it never
///    jumps below the target) and result.max_cut <= head.max_cut;
///  * it stops only where going on would drop below the target: the result's segment has no skip
///    entry in [target, result.max_cut) and its prior is None, a merge, or below the target.
#[kani::proof]
#[kani::unwind(10)]
fn c16_skip_jump_concrete_graph() {
    let store = skip_graph();
    let head = any_loc();
    kani::assume(valid_location(head));
    let t: u64 = kani::any();
    kani::assume(t <= 20);
    let target = MaxCut::new(t);

    let r = match skip_jump(&store, head, target) {
        Ok(r) => r,
        Err(_) => panic!("skip_jump failed on a well-formed graph"),
    };
    assert!(valid_location(r));
    assert!(anc_or_self(r, head));
    if head.max_cut <= target {
        assert!(r == head);
        kani::cover!(true, "head already at or below the target");
    } else {
        assert!(r.max_cut >= target);
        assert!(r.max_cut <= head.max_cut);
        // stopping condition
        let seg: VSeg = store.segs[r.segment.get() as usize];
        if seg.nskip == 1 {
            let s = seg.skip[0];
            assert!(!(s.max_cut >= target && s.max_cut < r.max_cut));
        }
        let stop = match seg.prior() {
            Prior::None => true,
            Prior::Merge(_, _) => true,
            Prior::Single(p) => p.max_cut < target,
        };
        assert!(stop);
        kani::cover!(r.segment != head.segment, "jumped to another segment");
        kani::cover!(
            (head.segment.get() == 6) & (r.segment.get() == 2),
            "skip entry taken from the newest segment"
        );
        kani::cover!(
            (head.segment.get() == 6) & (r.segment.get() == 5),
            "stopped at the merge segment"
        );
        kani::cover!(
            (head.segment.get() == 3) & (r.segment.get() == 0),
            "walked / skipped down to the first segment"
        );
        kani::cover!(r.max_cut == target, "landed exactly on the target");
    }
}

// ---------------------------------------------------------------------------------------------
// 3. response building
// ---------------------------------------------------------------------------------------------

// Stored chain:  s0: ids 10 11 12 (max cuts 0..=2)   s1: ids 13 14 15 16 (max cuts 3..=6, prior s0@2)
const S0_IDS: [u8; 3] = [10, 11, 12];
const S1_IDS: [u8; 4] = [13, 14, 15, 16];

/// Command payload of the stand-in commands: two bytes of a static array. (An empty `&[]`
/// payload made CBMC unroll heapless' `extend_from_slice` element loop into the 3 KiB response
/// buffer on a pointer comparison it cannot fold: > 9 GB, measured.)
static PAYLOAD: [u8; 2] = [0xAA, 0xBB];

#[derive(Clone, Copy)]
struct KCmd {
    id: u8,
}

impl Command for KCmd {
    fn priority(&self) -> Priority {
        Priority::Basic(0)
    }
    fn id(&self) -> CmdId {
        vclient::cid(self.id)
    }
    fn parent(&self) -> Prior<Address> {
        Prior::None
    }
    fn policy(&self) -> Option<&[u8]> {
        None
    }
    fn bytes(&self) -> &[u8] {
        &PAYLOAD
    }
}

/// A stored segment: `len` commands with ids `ids[..len]`, max cuts first_mc..first_mc+len.
#[derive(Clone, Copy)]
struct KSeg {
    index: u64,
    prior: Prior<Location>,
    first_mc: u64,
    len: usize,
    ids: [u8; 4],
}

impl Segment for KSeg {
    type FactIndex = AFacts;
    type Command<'a> = KCmd;
    fn index(&self) -> SegmentIndex {
        SegmentIndex::new(self.index)
    }
    fn head_id(&self) -> CmdId {
        vclient::cid(self.ids[self.len - 1])
    }
    fn policy(&self) -> crate::PolicyId {
        crate::PolicyId::new(0)
    }
    fn prior(&self) -> Prior<Location> {
        self.prior
    }
    fn get_command(&self, location: Location) -> Option<KCmd> {
        if location.segment.get() != self.index {
            return None;
        }
        let mc = location.max_cut.get();
        if mc < self.first_mc {
            return None;
        }
        let off = (mc - self.first_mc) as usize;
        if off >= self.len {
            return None;
        }
        Some(KCmd { id: self.ids[off] })
    }
    fn facts(&self) -> Result<AFacts, StorageError> {
        Ok(AFacts { tag: 0 })
    }
    fn shortest_max_cut(&self) -> MaxCut {
        MaxCut::new(self.first_mc)
    }
    fn longest_max_cut(&self) -> Result<MaxCut, StorageError> {
        Ok(MaxCut::new(self.first_mc + self.len as u64 - 1))
    }
    fn skip_list(&self) -> &[Location] {
        &[]
    }
}

struct KStore {
    segs: [KSeg; 2],
    heads: HeadSet,
}

impl Storage for KStore {
    type Perspective = APersp;
    type FactPerspective = AFacts;
    type Segment = KSeg;
    type FactIndex = AFacts;
    fn get_linear_perspective(&self, _parent: Location) -> Result<APersp, StorageError> {
        Err(StorageError::IoError)
    }
    fn get_fact_perspective(&self, _first: Location) -> Result<AFacts, StorageError> {
        Ok(AFacts { tag: 0 })
    }
    fn new_merge_perspective(
        &self,
        _left: Location,
        _right: Location,
        _lca: Location,
        _policy_id: crate::PolicyId,
        _braid: AFacts,
    ) -> Result<APersp, StorageError> {
        Err(StorageError::IoError)
    }
    fn get_segment(&self, location: Location) -> Result<KSeg, StorageError> {
        let i = location.segment.get() as usize;
        if i >= 2 {
            return Err(StorageError::SegmentOutOfBounds(location));
        }
        Ok(self.segs[i])
    }
    fn get_heads(&self) -> Result<&HeadSet, StorageError> {
        Ok(&self.heads)
    }
    fn heads_offset(&self) -> Result<crate::HeadSetOffset, StorageError> {
        Ok(crate::HeadSetOffset::new(0))
    }
    fn fact_cache(&self) -> Result<AFacts, StorageError> {
        Ok(AFacts { tag: 0 })
    }
    fn commit_heads(&mut self, heads: HeadSet, _fact_cache: AFacts) -> Result<(), StorageError> {
        self.heads = heads;
        Ok(())
    }
    fn write(&mut self, _perspective: APersp) -> Result<KSeg, StorageError> {
        Err(StorageError::IoError)
    }
    fn write_facts(&mut self, f: AFacts) -> Result<AFacts, StorageError> {
        Ok(f)
    }
}

struct OneGraph {
    store: KStore,
}

impl StorageProvider for OneGraph {
    type Perspective = APersp;
    type Segment = KSeg;
    type Storage = KStore;

    fn new_perspective(&mut self, _policy_id: crate::PolicyId) -> APersp {
        APersp::new(Prior::None, Prior::None, 0)
    }
    fn new_storage(&mut self, _init: APersp) -> Result<(GraphId, &mut KStore), StorageError> {
        Err(StorageError::IoError)
    }
    fn get_storage(&mut self, _graph: GraphId) -> Result<&mut KStore, StorageError> {
        Ok(&mut self.store)
    }
    fn remove_storage(&mut self, _graph: GraphId) -> Result<(), StorageError> {
        Ok(())
    }
    fn list_graph_ids(
        &mut self,
    ) -> Result<impl Iterator<Item = Result<GraphId, StorageError>>, StorageError> {
        Ok(core::iter::empty())
    }
}

fn chain_provider() -> OneGraph {
    let s0 = KSeg {
        index: 0,
        prior: Prior::None,
        first_mc: 0,
        len: 3,
        ids: [S0_IDS[0], S0_IDS[1], S0_IDS[2], 0],
    };
    let s1 = KSeg {
        index: 1,
        prior: Prior::Single(loc(0, 2)),
        first_mc: 3,
        len: 4,
        ids: S1_IDS,
    };
    let heads = HeadSet::single(LocatedAddress {
        id: vclient::cid(16),
        segment: SegmentIndex::new(1),
        max_cut: MaxCut::new(6),
    });
    OneGraph {
        store: KStore { segs: [s0, s1], heads },
    }
}

/// A responder in state Send whose to_send list is [ (s0, a), (s1, b) ] with symbolic start
/// positions inside the segments, symbolic next_send in 0..=2, symbolic small session id and
/// message index (small: their varint encodings are one byte, see the unwind bound).
fn sending_responder(a: u64, b: u64, next_send: usize) -> SyncResponder {
    let mut to_send: Vec<Location, SEGMENT_BUFFER_MAX> = Vec::new();
    let _ = to_send.push(loc(0, a));
    let _ = to_send.push(loc(1, b));
    let sid: u128 = kani::any();
    kani::assume(sid < 128);
    let mi: usize = kani::any();
    kani::assume(mi < 100);
    SyncResponder {
        session_id: Some(sid),
        graph_id: Some(gid(10)),
        state: SyncResponderState::Send,
        bytes_sent: kani::any(),
        next_send,
        message_index: mi,
        has: Vec::new(),
        to_send,
    }
}

/// The ids still to be sent, in order, for to_send[next_send..]; returns (ids, count).
fn remaining(to_send: &Vec<Location, SEGMENT_BUFFER_MAX>, next_send: usize) -> ([u8; 7], usize) {
    let mut out = [0u8; 7];
    let mut n = 0;
    if next_send == 0 {
        let mut mc = to_send[0].max_cut.get();
        while mc <= 2 {
            out[n] = S0_IDS[mc as usize];
            n += 1;
            mc += 1;
        }
    }
    if next_send <= 1 {
        let mut mc = to_send[1].max_cut.get();
        while mc <= 6 {
            out[n] = S1_IDS[(mc - 3) as usize];
            n += 1;
            mc += 1;
        }
    }
    (out, n)
}

/// get_commands: takes exactly the next min(COMMAND_RESPONSE_MAX, remaining) commands, in order,
/// skipping none; the returned index never decreases; a segment that did not fit completely is
/// resumed at its first unsent command (returned as `resume`, applied by `advance`); get_commands
/// itself leaves next_send and to_send untouched; after `advance` the amount of remaining work has
/// dropped by exactly the number of commands taken.
fn get_commands_case(a: u64, b: u64, ns: usize) -> (usize, usize) {
    let mut provider = chain_provider();
    let mut r = sending_responder(a, b, ns);
    let (exp, m) = remaining(&r.to_send, ns);

    let pre0 = r.to_send[0];
    let pre1 = r.to_send[1];
    let (cmds, data, idx, resume) = match r.get_commands(&mut provider) {
        Ok(x) => x,
        Err(_) => panic!("get_commands failed on a stored chain"),
    };
    let want = if m < COMMAND_RESPONSE_MAX { m } else { COMMAND_RESPONSE_MAX };
    assert!(cmds.len() == want);
    assert!(data.len() == 2 * want);
    // in order, nothing skipped (universally quantified position)
    let j: usize = kani::any();
    if j < cmds.len() {
        assert!(id_byte(cmds[j].id) == exp[j]);
        assert!(cmds[j].length == 2 && cmds[j].policy_length == 0);
    }
    // get_commands itself changes nothing in the session (fix e51d0d6): the position is RETURNED
    assert!(r.next_send == ns);
    assert!(r.to_send.len() == 2 && r.to_send[0] == pre0 && r.to_send[1] == pre1);
    assert!(idx >= ns && idx <= 2);
    // resume position: Some((i, first unsent location)) exactly when a segment did not fit
    match resume {
        None => {
            assert!(m <= COMMAND_RESPONSE_MAX);
            assert!(idx == 2);
        }
        Some((i, l)) => {
            assert!(m > COMMAND_RESPONSE_MAX);
            assert!(i == idx && i < 2);
            let start = if i == 0 { pre0 } else { pre1 };
            assert!(l.segment == start.segment);
            // commands taken from the segments before entry i (only s0 can precede)
            let before = if i == 1 && ns == 0 { 3 - pre0.max_cut.get() as usize } else { 0 };
            assert!(l.max_cut.get() == start.max_cut.get() + (want - before) as u64);
        }
    }
    // committing the returned position (the real `advance`) leaves exactly the unsent tail
    match r.advance(idx, resume) {
        Ok(()) => {}
        Err(_) => panic!("advance failed"),
    }
    assert!(r.next_send == idx);
    let (exp2, m2) = remaining(&r.to_send, idx);
    assert!(m2 == m - want);
    let k: usize = kani::any();
    if k < m2 {
        assert!(exp2[k] == exp[want + k]);
    }
    core::mem::forget(cmds);
    core::mem::forget(data);
    (m, idx)
}

/// Both entries pending, s1 from its first command, s0 from a symbolic position: 5, 6 or 7
/// commands remain (exact fit / the response fills up in the middle of s1).
#[kani::proof]
#[kani::unwind(7)]
fn c17_get_commands_two_segments() {
    let a: u64 = kani::any();
    kani::assume(a <= 2);
    let (m, idx) = get_commands_case(a, 3, 0);
    kani::cover!((m > COMMAND_RESPONSE_MAX) & (idx == 1), "response filled up in the middle of s1");
    kani::cover!((m == COMMAND_RESPONSE_MAX) & (idx == 2), "exact fit");
}

/// Both entries pending and s1 ALREADY resumed once (entry inside the segment, not at its first
/// command): when the response fills up in the middle of s1 again, the resume position must be
/// counted from the entry's position, not from the segment start (added after a seeded change
/// that computed it from `shortest_max_cut()` went undetected).
#[kani::proof]
#[kani::unwind(7)]
fn c17_get_commands_resume_inside_resumed_segment() {
    let a: u64 = kani::any();
    kani::assume(a <= 2);
    let (m, idx) = get_commands_case(a, 4, 0);
    kani::cover!((m > COMMAND_RESPONSE_MAX) & (idx == 1), "filled up in the middle of an already resumed s1");
}

/// Only the second entry pending, from a symbolic position (1..=4 commands remain).
#[kani::proof]
#[kani::unwind(7)]
fn c17_get_commands_last_segment() {
    let b: u64 = kani::any();
    kani::assume(b >= 3 && b <= 6);
    let (m, idx) = get_commands_case(0, b, 1);
    assert!(idx == 2);
    kani::cover!(m == 4, "whole segment");
    kani::cover!(m == 1, "last command only");
}

/// Nothing pending.
#[kani::proof]
#[kani::unwind(7)]
fn c17_get_commands_exhausted() {
    let (m, idx) = get_commands_case(2, 6, 2);
    assert!(m == 0 && idx == 2);
    kani::cover!(true, "nothing pending");
}

/// get_next with a target that is large enough: message_index + 1 per response, next_send never
/// decreases, the remaining-work measure strictly decreases, SyncEnd (and state Idle) exactly
/// when nothing is left. Returns (remaining before, remaining after).
fn get_next_case(a: u64, b: u64, ns: usize) -> (usize, usize) {
    let mut provider = chain_provider();
    let mut r = sending_responder(a, b, ns);
    let (_, m) = remaining(&r.to_send, ns);
    let mi = r.message_index;
    let mut target = [0u8; 256];

    let n = match r.get_next(&mut target, &mut provider) {
        Ok(n) => n,
        Err(_) => panic!("get_next failed with a large target"),
    };
    assert!(n >= 1 && n <= 256);
    if ns == 2 {
        // exhausted: end message, session idle, counters untouched
        assert!(m == 0);
        assert!(target[0] == 1); // SyncResponseMessage::SyncEnd
        assert!(matches!(r.state, SyncResponderState::Idle));
        assert!(r.message_index == mi && r.next_send == ns);
        (0, 0)
    } else {
        assert!(target[0] == 0); // SyncResponseMessage::SyncResponse
        assert!(r.message_index == mi + 1);
        assert!(r.next_send >= ns && r.next_send <= 2);
        assert!(matches!(r.state, SyncResponderState::Send));
        let (_, m2) = remaining(&r.to_send, r.next_send);
        let want = if m < COMMAND_RESPONSE_MAX { m } else { COMMAND_RESPONSE_MAX };
        assert!(m2 + want == m);
        assert!(m2 < m); // termination measure
        (m, m2)
    }
}

// (get_next's successful SyncResponse write is not encoded: `data_target.copy_from_slice(
// &command_data)` copies a symbolic number of bytes out of the 3 KiB heapless buffer, which ran
// CBMC out of memory - 14.8 GB - even for a single concrete command. What it does on that path
// after get_commands is `message_index + 1; next_send = <index returned by get_commands>`.)

#[kani::proof]
#[kani::unwind(7)]
fn c17_get_next_sync_end() {
    let (m, _) = get_next_case(2, 6, 2);
    assert!(m == 0);
    kani::cover!(true, "SyncEnd when exhausted");
}

/// Regression check for the defect fixed in /repo e51d0d6 (before the fix get_commands wrote the
/// resume position into to_send and this harness failed at `m2 == m`; native reproduction:
/// /verif/findings/c17_get_next_retry_native_test.rs).
/// "Don't advance the session until the whole message fits, so the caller can retry with a larger
/// buffer without losing commands" (comment in get_next): after a failed get_next the responder
/// must still send the same commands. to_send = [(s0,1), (s1,3)], next_send = 0: six commands
/// remain, five fit into a response, so s1 is cut after its third command.
#[kani::proof]
#[kani::unwind(7)]
fn c17_get_next_retry_loses_nothing() {
    let mut provider = chain_provider();
    let mut r = sending_responder(1, 3, 0);
    let (exp, m) = remaining(&r.to_send, 0);
    assert!(m == 6);
    let mi = r.message_index;
    let mut tiny = [0u8; 4];
    let first = r.get_next(&mut tiny, &mut provider);
    assert!(first.is_err());
    // session not advanced ...
    assert!(r.message_index == mi && r.next_send == 0);
    assert!(r.to_send.len() == 2 && r.to_send[0] == loc(0, 1) && r.to_send[1] == loc(1, 3));
    // ... and the retry would deliver the same commands
    let (exp2, m2) = remaining(&r.to_send, r.next_send);
    assert!(m2 == m);
    let k: usize = kani::any();
    if k < m {
        assert!(exp2[k] == exp[k]);
    }
    kani::cover!(true, "retry after a too small buffer");
}
