// Harness storage substrate (DESIGN §3): a `Storage` implementation over fixed arrays so that
// the real, generic graph algorithms (braid, LCA, convergence map, traversal, sync) run
// unmodified under CBMC.  Graph SHAPES are concrete skeleton tables; ids, priorities, finalize
// flags and queries are symbolic.
//
// Included with `#[path = "vstore.rs"] mod vstore;` from the harness modules.
#![allow(dead_code)]

use alloc::{string::String, vec::Vec};

use crate::{
    Address, Checkpoint, CmdId, Command, Fact, FactIndex, FactPerspective, GraphId, HeadSet,
    HeadSetOffset, Keys, Location, MaxCut, Perspective, PolicyId, Prior, Priority, Query, QueryMut,
    Revertable, Segment, SegmentIndex, Storage, StorageError,
    storage::{Bytes, Spill},
};

pub const NSEG: usize = 8;
pub const MAXLEN: usize = 3;
pub const NSKIP: usize = 1;

pub fn loc(seg: u64, mc: u64) -> Location {
    Location::new(SegmentIndex::new(seg), MaxCut::new(mc))
}

pub fn cmd_id(b: u8) -> CmdId {
    let mut bytes = [0u8; 32];
    bytes[0] = b;
    CmdId::from_bytes(bytes)
}

/// Priority encoded as (kind, n, hi): 0 = Merge, 1 = Basic(v), 2 = Finalize, 3 = Init, where
/// v = n (hi == false) or u32::MAX - n (hi == true): both ends of the u32 range in two bytes.
#[derive(Clone, Copy, PartialEq, Eq)]
pub struct VPrio {
    pub kind: u8,
    pub n: u8,
    pub hi: bool,
}

impl VPrio {
    pub const MERGE: Self = Self { kind: 0, n: 0, hi: false };
    pub const INIT: Self = Self { kind: 3, n: 0, hi: false };
    pub const FINALIZE: Self = Self { kind: 2, n: 0, hi: false };
    pub fn basic(n: u8) -> Self {
        Self { kind: 1, n, hi: false }
    }
    pub fn value(self) -> u32 {
        if self.hi { u32::MAX - self.n as u32 } else { self.n as u32 }
    }
    pub fn get(self) -> Priority {
        match self.kind {
            0 => Priority::Merge,
            1 => Priority::Basic(self.value()),
            2 => Priority::Finalize,
            _ => Priority::Init,
        }
    }
    /// total order key matching `Priority`'s derived Ord
    pub fn key(self) -> (u8, u32) {
        (self.kind, if self.kind == 1 { self.value() } else { 0 })
    }
}

#[derive(Clone, Copy)]
pub struct VCmd {
    pub id: u8,
    pub prio: VPrio,
    pub parent: Prior<Address>,
}

impl Command for VCmd {
    fn priority(&self) -> Priority {
        self.prio.get()
    }
    fn id(&self) -> CmdId {
        cmd_id(self.id)
    }
    fn parent(&self) -> Prior<Address> {
        self.parent
    }
    fn policy(&self) -> Option<&[u8]> {
        None
    }
    fn bytes(&self) -> &[u8] {
        &[]
    }
}

/// Compact on purpose: strands carry a whole segment by value through `BinaryHeap` moves, and
/// CBMC pays per byte moved at a symbolic position.
#[derive(Clone, Copy)]
pub struct VSeg {
    pub index: u8,
    pub pk: u8, // 0 = Prior::None, 1 = Single, 2 = Merge
    pub p1: (u8, u8), // (segment, max_cut)
    pub p2: (u8, u8),
    pub first_mc: u8,
    pub len: u8,
    pub ids: [u8; MAXLEN],
    pub prios: [VPrio; MAXLEN],
    pub nskip: u8,
    pub skip: [Location; NSKIP],
}

impl VSeg {
    pub const fn empty() -> Self {
        Self {
            index: 0,
            pk: 0,
            p1: (0, 0),
            p2: (0, 0),
            first_mc: 0,
            len: 0,
            ids: [0; MAXLEN],
            prios: [VPrio { kind: 1, n: 0, hi: false }; MAXLEN],
            nskip: 0,
            skip: [Location {
                max_cut: MaxCut::new(0),
                segment: SegmentIndex::new(0),
            }; NSKIP],
        }
    }
    pub fn set_prior(&mut self, p: Prior<Location>) {
        match p {
            Prior::None => self.pk = 0,
            Prior::Single(a) => {
                self.pk = 1;
                self.p1 = (a.segment.get() as u8, a.max_cut.get() as u8);
            }
            Prior::Merge(a, b) => {
                self.pk = 2;
                self.p1 = (a.segment.get() as u8, a.max_cut.get() as u8);
                self.p2 = (b.segment.get() as u8, b.max_cut.get() as u8);
            }
        }
    }
}

impl Segment for VSeg {
    type FactIndex = VFactIndex;
    type Command<'a> = VCmd;

    fn index(&self) -> SegmentIndex {
        SegmentIndex::new(self.index as u64)
    }
    fn head_id(&self) -> CmdId {
        cmd_id(self.ids[self.len as usize - 1])
    }
    fn policy(&self) -> PolicyId {
        PolicyId::new(0)
    }
    fn prior(&self) -> Prior<Location> {
        match self.pk {
            0 => Prior::None,
            1 => Prior::Single(loc(self.p1.0 as u64, self.p1.1 as u64)),
            _ => Prior::Merge(
                loc(self.p1.0 as u64, self.p1.1 as u64),
                loc(self.p2.0 as u64, self.p2.1 as u64),
            ),
        }
    }
    fn get_command(&self, location: Location) -> Option<VCmd> {
        if location.segment.get() != self.index as u64 {
            return None;
        }
        let mc = location.max_cut.get();
        if mc < self.first_mc as u64 {
            return None;
        }
        let off = (mc - self.first_mc as u64) as usize;
        if off >= self.len as usize {
            return None;
        }
        Some(VCmd {
            id: self.ids[off],
            prio: self.prios[off],
            parent: Prior::None,
        })
    }
    fn facts(&self) -> Result<VFactIndex, StorageError> {
        Ok(VFactIndex)
    }
    fn shortest_max_cut(&self) -> MaxCut {
        MaxCut::new(self.first_mc as u64)
    }
    fn longest_max_cut(&self) -> Result<MaxCut, StorageError> {
        Ok(MaxCut::new(self.first_mc as u64 + self.len as u64 - 1))
    }
    fn skip_list(&self) -> &[Location] {
        &self.skip[..self.nskip as usize]
    }
}

// ---- fact side: placeholders for the braid-level harnesses -----------------------------------

#[derive(Clone, Copy)]
pub struct VFactIndex;
impl FactIndex for VFactIndex {}
impl Query for VFactIndex {
    fn query(&self, _name: &str, _keys: &[Bytes]) -> Result<Option<Bytes>, StorageError> {
        Ok(None)
    }
    type QueryIterator = core::iter::Empty<Result<Fact, StorageError>>;
    fn query_prefix(&self, _n: &str, _p: &[Bytes]) -> Result<Self::QueryIterator, StorageError> {
        Ok(core::iter::empty())
    }
}

pub struct VFacts;
impl FactPerspective for VFacts {}
impl Query for VFacts {
    fn query(&self, _name: &str, _keys: &[Bytes]) -> Result<Option<Bytes>, StorageError> {
        Ok(None)
    }
    type QueryIterator = core::iter::Empty<Result<Fact, StorageError>>;
    fn query_prefix(&self, _n: &str, _p: &[Bytes]) -> Result<Self::QueryIterator, StorageError> {
        Ok(core::iter::empty())
    }
}
impl QueryMut for VFacts {
    fn insert(&mut self, _name: String, _keys: Keys, _value: Bytes) -> Result<(), StorageError> {
        Ok(())
    }
    fn delete(&mut self, _name: String, _keys: Keys) -> Result<(), StorageError> {
        Ok(())
    }
}

pub struct VPersp;
impl FactPerspective for VPersp {}
impl Query for VPersp {
    fn query(&self, _name: &str, _keys: &[Bytes]) -> Result<Option<Bytes>, StorageError> {
        Ok(None)
    }
    type QueryIterator = core::iter::Empty<Result<Fact, StorageError>>;
    fn query_prefix(&self, _n: &str, _p: &[Bytes]) -> Result<Self::QueryIterator, StorageError> {
        Ok(core::iter::empty())
    }
}
impl QueryMut for VPersp {
    fn insert(&mut self, _name: String, _keys: Keys, _value: Bytes) -> Result<(), StorageError> {
        Ok(())
    }
    fn delete(&mut self, _name: String, _keys: Keys) -> Result<(), StorageError> {
        Ok(())
    }
}
impl Perspective for VPersp {
    fn policy(&self) -> PolicyId {
        PolicyId::new(0)
    }
    fn add_command(&mut self, _command: &impl Command) -> Result<usize, StorageError> {
        Ok(0)
    }
    fn includes(&self, _id: CmdId) -> bool {
        false
    }
    fn head_address(&self) -> Result<Prior<Address>, buggy::Bug> {
        Ok(Prior::None)
    }
}
impl Revertable for VPersp {
    fn checkpoint(&self) -> Checkpoint {
        Checkpoint { index: 0 }
    }
    fn revert(&mut self, _checkpoint: Checkpoint) -> Result<(), StorageError> {
        Ok(())
    }
}

// ---- the store --------------------------------------------------------------------------------

pub struct VStore {
    pub segs: [VSeg; NSEG],
    pub nseg: usize,
    pub heads: HeadSet,
    pub get_segment_calls: usize,
}

impl VStore {
    pub fn new() -> Self {
        Self {
            segs: [VSeg::empty(); NSEG],
            nseg: 0,
            heads: HeadSet::default(),
            get_segment_calls: 0,
        }
    }
    pub fn add_seg(&mut self, prior: Prior<Location>, first_mc: u64, len: usize) -> u64 {
        let i = self.nseg;
        self.segs[i] = VSeg::empty();
        self.segs[i].index = i as u8;
        self.segs[i].set_prior(prior);
        self.segs[i].first_mc = first_mc as u8;
        self.segs[i].len = len as u8;
        self.nseg += 1;
        i as u64
    }
}

impl Storage for VStore {
    type Perspective = VPersp;
    type FactPerspective = VFacts;
    type Segment = VSeg;
    type FactIndex = VFactIndex;

    fn get_linear_perspective(&self, _parent: Location) -> Result<VPersp, StorageError> {
        Ok(VPersp)
    }
    fn get_fact_perspective(&self, _first: Location) -> Result<VFacts, StorageError> {
        Ok(VFacts)
    }
    fn new_merge_perspective(
        &self,
        _left: Location,
        _right: Location,
        _lca: Location,
        _policy_id: PolicyId,
        _braid: VFactIndex,
    ) -> Result<VPersp, StorageError> {
        Ok(VPersp)
    }
    fn get_segment(&self, location: Location) -> Result<VSeg, StorageError> {
        let i = location.segment.get() as usize;
        if i >= self.nseg {
            return Err(StorageError::SegmentOutOfBounds(location));
        }
        Ok(self.segs[i])
    }
    fn get_heads(&self) -> Result<&HeadSet, StorageError> {
        Ok(&self.heads)
    }
    fn heads_offset(&self) -> Result<HeadSetOffset, StorageError> {
        Ok(HeadSetOffset::new(0))
    }
    fn fact_cache(&self) -> Result<VFactIndex, StorageError> {
        Ok(VFactIndex)
    }
    fn commit_heads(&mut self, heads: HeadSet, _fact_cache: VFactIndex) -> Result<(), StorageError> {
        self.heads = heads;
        Ok(())
    }
    fn write(&mut self, _perspective: VPersp) -> Result<VSeg, StorageError> {
        Err(StorageError::EmptyPerspective)
    }
    fn write_facts(&mut self, _fact_perspective: VFacts) -> Result<VFactIndex, StorageError> {
        Ok(VFactIndex)
    }
}

// ---- spill: small byte array with bounds-checked access ---------------------------------------

pub const SPILL_BYTES: usize = 256;

pub struct VSpill {
    pub buf: [u8; SPILL_BYTES],
    pub writes: usize,
    pub reads: usize,
}

impl VSpill {
    pub fn new() -> Self {
        Self {
            buf: [0; SPILL_BYTES],
            writes: 0,
            reads: 0,
        }
    }
}

impl Spill for VSpill {
    fn write_at(&mut self, offset: usize, data: &[u8]) -> Result<(), StorageError> {
        let end = offset.checked_add(data.len()).ok_or(StorageError::IoError)?;
        if end > SPILL_BYTES {
            return Err(StorageError::IoError);
        }
        self.buf[offset..end].copy_from_slice(data);
        self.writes += 1;
        Ok(())
    }
    fn read_at(&mut self, offset: usize, data: &mut [u8]) -> Result<(), StorageError> {
        let end = offset.checked_add(data.len()).ok_or(StorageError::IoError)?;
        if end > SPILL_BYTES {
            return Err(StorageError::IoError);
        }
        data.copy_from_slice(&self.buf[offset..end]);
        self.reads += 1;
        Ok(())
    }
}

// ---- reference DAG (oracle) -------------------------------------------------------------------

pub const NCMD: usize = 10;

/// Commands numbered 0..n; parents by command number. Built alongside the VStore by skeletons.
#[derive(Clone, Copy)]
pub struct RefDag {
    pub n: usize,
    pub p1: [usize; NCMD], // usize::MAX = none
    pub p2: [usize; NCMD],
    pub loc: [Location; NCMD],
    pub is_merge: [bool; NCMD],
}

pub const NONE: usize = usize::MAX;

impl RefDag {
    pub fn new() -> Self {
        Self {
            n: 0,
            p1: [NONE; NCMD],
            p2: [NONE; NCMD],
            loc: [loc(0, 0); NCMD],
            is_merge: [false; NCMD],
        }
    }
    pub fn add(&mut self, p1: usize, p2: usize, l: Location) -> usize {
        let i = self.n;
        self.p1[i] = p1;
        self.p2[i] = p2;
        self.loc[i] = l;
        self.is_merge[i] = p2 != NONE;
        self.n += 1;
        i
    }
    /// anc[i][j] == j is a proper ancestor of i. Commands are added parents-first, so one pass.
    pub fn ancestors(&self) -> [[bool; NCMD]; NCMD] {
        let mut anc = [[false; NCMD]; NCMD];
        let mut i = 0;
        while i < self.n {
            let mut k = 0;
            while k < 2 {
                let p = if k == 0 { self.p1[i] } else { self.p2[i] };
                if p != NONE {
                    anc[i][p] = true;
                    let mut j = 0;
                    while j < self.n {
                        if anc[p][j] {
                            anc[i][j] = true;
                        }
                        j += 1;
                    }
                }
                k += 1;
            }
            i += 1;
        }
        anc
    }
    pub fn find(&self, l: Location) -> usize {
        let mut i = 0;
        while i < self.n {
            if self.loc[i] == l {
                return i;
            }
            i += 1;
        }
        NONE
    }
}

pub fn _unused(_: GraphId, _: Vec<u8>) {}
