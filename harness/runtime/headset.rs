// C09 (kernel) — HeadSet::push keeps the head set sorted and duplicate-free.
// Child module of aranya_runtime::storage::head_set (sees the private field `heads`).
//
// One inductive step: from an ARBITRARY head set that satisfies the representation invariant
// (strictly ascending in the derived order of LocatedAddress = (id, segment, max_cut)), push one
// arbitrary element and compare with the mathematical "sorted set insert".
// A universally quantified witness `w` stands for "every element".
use alloc::vec::Vec;

use super::*;
use crate::{
    CmdId,
    storage::{MaxCut, SegmentIndex},
};


/// Arbitrary element. The command id is symbolic in its first and last byte only (the other 30
/// bytes are zero): the 32-byte lexicographic comparison is still the real one, but fully
/// symbolic ids made CBMC time out (measured: > 10 min for <= 2 elements).
fn any_la() -> LocatedAddress {
    let mut id = [0u8; 32];
    id[0] = kani::any();
    id[31] = kani::any();
    let s: u64 = kani::any();
    let m: u64 = kani::any();
    LocatedAddress {
        id: CmdId::from_bytes(id),
        segment: SegmentIndex::new(s),
        max_cut: MaxCut::new(m),
    }
}

/// Arbitrary head set of exactly `len` elements (`len` concrete, contents symbolic) that satisfies
/// the representation invariant.
fn any_head_set(len: usize) -> HeadSet {
    let mut heads: Vec<LocatedAddress> = Vec::with_capacity(len + 2);
    let mut i = 0;
    while i < len {
        heads.push(any_la());
        i += 1;
    }
    let mut i = 0;
    while i + 1 < len {
        kani::assume(heads[i] < heads[i + 1]);
        i += 1;
    }
    HeadSet { heads }
}

fn strictly_sorted(h: &HeadSet) -> bool {
    let s = h.as_slice();
    let mut i = 0;
    while i + 1 < s.len() {
        if !(s[i] < s[i + 1]) {
            return false;
        }
        i += 1;
    }
    true
}

/// Strictly ascending by command id alone (implies: no two heads share an id).
fn strictly_sorted_by_id(h: &HeadSet) -> bool {
    let s = h.as_slice();
    let mut i = 0;
    while i + 1 < s.len() {
        if !(s[i].id < s[i + 1].id) {
            return false;
        }
        i += 1;
    }
    true
}

fn count(h: &HeadSet, w: &LocatedAddress) -> usize {
    let s = h.as_slice();
    let mut c = 0;
    let mut i = 0;
    while i < s.len() {
        if s[i] == *w {
            c += 1;
        }
        i += 1;
    }
    c
}

fn has_id(h: &HeadSet, id: &CmdId) -> bool {
    let s = h.as_slice();
    let mut i = 0;
    while i < s.len() {
        if s[i].id == *id {
            return true;
        }
        i += 1;
    }
    false
}

fn push_step(len: usize) {
    let mut set = any_head_set(len);
    let x = any_la();
    let w = any_la();
    let pre_w = count(&set, &w);
    let pre_x = count(&set, &x);
    let pre_len = set.len();
    let pre_by_id = strictly_sorted_by_id(&set);
    let x_id_known = has_id(&set, &x.id);
    assert!(pre_w <= 1 && pre_x <= 1);

    set.push(x);

    // sorted + duplicate-free (representation invariant re-established)
    assert!(strictly_sorted(&set));
    // contains x exactly once
    assert!(count(&set, &x) == 1);
    // every other element is kept, nothing else appears
    if w != x {
        assert!(count(&set, &w) == pre_w);
    }
    // size: grows by one exactly when x was new
    assert!(set.len() == pre_len + 1 - pre_x);
    assert!(set.is_empty() == false);
    // "sorted by command id": if the pre-state was strictly ascending by id and x is either
    // already present or carries an id not yet in the set (one command = one location), the
    // post-state is strictly ascending by id.
    if pre_by_id && (pre_x == 1 || !x_id_known) {
        assert!(strictly_sorted_by_id(&set));
        kani::cover!((pre_x == 0) & (pre_len >= 1), "new id inserted into id-sorted set");
    }
    kani::cover!((pre_x == 1) & (pre_len >= 1), "duplicate push ignored");
    let at_front = set.as_slice()[0] == x;
    let at_back = set.len() == pre_len + 1 && set.as_slice()[pre_len] == x;
    let at_mid = set.len() >= 3 && set.as_slice()[1] == x;
    let _ = at_mid;
    kani::cover!((pre_x == 0) & (pre_len >= 1) & at_front, "inserted at the front");
    kani::cover!((pre_x == 0) & (pre_len >= 1) & at_back, "inserted at the back");
    kani::cover!((pre_w == 1) & (w != x), "witness is another element of the set");
    core::mem::forget(set);
}

// NOTE on cost: Vec::insert is a memmove whose byte count depends on the (symbolic) insertion
// index; CBMC models it with byte arrays of symbolic size, which dominates these harnesses
// (measured: 4 elements -> >12 GB). Hence the small bounds.
#[kani::proof]
#[kani::unwind(34)]
fn c09_headset_push_step_le1() {
    push_step(0);
    push_step(1);
}

#[kani::proof]
#[kani::unwind(34)]
fn c09_headset_push_step_n2() {
    push_step(2);
}

#[kani::proof]
#[kani::unwind(34)]
fn c09_headset_push_step_n3() {
    push_step(3);
}

/// The public constructors establish the invariant assumed above: `single`, `default`, and two
/// pushes onto the empty set (the Vec grows here at concrete lengths only).
#[kani::proof]
#[kani::unwind(34)]
fn c09_headset_from_constructors() {
    let a = any_la();
    let b = any_la();
    let set = HeadSet::single(a);
    assert!(strictly_sorted(&set) && set.len() == 1 && count(&set, &a) == 1);
    let mut d = HeadSet::default();
    assert!(d.is_empty() && d.len() == 0 && strictly_sorted(&d));
    d.push(a);
    assert!(d.len() == 1 && count(&d, &a) == 1);
    d.push(b);
    assert!(strictly_sorted(&d));
    assert!(count(&d, &a) == 1 && count(&d, &b) == 1);
    if a == b {
        assert!(d.len() == 1);
        kani::cover!(true, "same head twice");
    } else {
        assert!(d.len() == 2);
        kani::cover!(d.as_slice()[0] == b, "second push sorted before the first");
        kani::cover!(d.as_slice()[0] == a, "second push sorted after the first");
    }
    core::mem::forget(set);
    core::mem::forget(d);
}
