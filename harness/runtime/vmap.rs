// Solver-friendly stand-in for `alloc::collections::BTreeMap` (group `runtime_vmap` only).
//
// WHY: std's B-tree (MaybeUninit node arrays, u16 `len`, leaf/internal pointer casts) cannot be
// constant-folded by CBMC; a single `insert` explores node splitting and nested 8x8x8 unwindings
// (measured: 3 inserts + 1 query on the real LinearPerspective did not leave symbolic execution in
// 5 minutes). The properties checked with this stand-in (C12/C13/C14) are about aranya's own logic
// on top of an ordered map (tombstones, prior chains, revert replay, sorted merge), not about the
// B-tree itself, so std's BTreeMap is taken as trusted ("implements an ordered map").
//
// WHAT: a fixed-capacity SLAB of `Option<(K, V)>`; entries sit in arbitrary slots (slot indices
// stay concrete for CBMC), key uniqueness is maintained by `insert`/`entry`, and every ordered
// view (`range`, `iter`, `into_iter`) is produced by ranking the live keys with `Ord::cmp`
// (selection order). Observable behaviour = std BTreeMap for the API subset below, for maps of at
// most `CAP` entries; exceeding `CAP` panics (reported by Kani as a failed check, never silent).
// The only deliberate difference: `clear`, `retain` and `remove` LEAK the removed keys/values
// instead of dropping them (destructors of nested boxes dominate CBMC's cost; memory reclamation
// is not observable by the checked properties).
//
// API subset (signatures as in std so that the real aranya code compiles unchanged):
//   new, default, is_empty, len, clear, get, get_mut, contains_key, insert, remove, retain,
//   entry (+ Entry::{or_default, or_insert}, VacantEntry::insert, OccupiedEntry::into_mut),
//   range, iter, IntoIterator (owned and by reference), Clone, Debug, serde.
#![allow(dead_code)]
use core::{
    borrow::Borrow,
    cmp::Ordering,
    fmt,
    marker::PhantomData,
    ops::{Bound, RangeBounds},
};

pub const CAP: usize = 3;

pub struct BTreeMap<K, V> {
    slots: [Option<(K, V)>; CAP],
}

impl<K, V> BTreeMap<K, V> {
    /// Harness-only (not part of std's API): a map with an explicit slot layout, used to build
    /// ARBITRARY map states directly. The caller must keep live keys pairwise distinct.
    pub(crate) fn from_slots(slots: [Option<(K, V)>; CAP]) -> Self {
        Self { slots }
    }

    pub const fn new() -> Self {
        Self {
            slots: [const { None }; CAP],
        }
    }

    pub fn is_empty(&self) -> bool {
        let mut j = 0;
        while j < CAP {
            if self.slots[j].is_some() {
                return false;
            }
            j += 1;
        }
        true
    }

    pub fn len(&self) -> usize {
        let mut n = 0;
        let mut j = 0;
        while j < CAP {
            if self.slots[j].is_some() {
                n += 1;
            }
            j += 1;
        }
        n
    }

    pub fn clear(&mut self) {
        let mut j = 0;
        while j < CAP {
            // LEAK instead of drop: destructors of nested boxes are very expensive for CBMC and
            // memory reclamation is not observable by any checked property.
            core::mem::forget(self.slots[j].take());
            j += 1;
        }
    }

    pub fn retain<F>(&mut self, mut f: F)
    where
        F: FnMut(&K, &mut V) -> bool,
    {
        let mut j = 0;
        while j < CAP {
            let keep = match &mut self.slots[j] {
                Some((k, v)) => f(k, v),
                None => true,
            };
            if !keep {
                core::mem::forget(self.slots[j].take());
            }
            j += 1;
        }
    }
}

impl<K, V> Default for BTreeMap<K, V> {
    fn default() -> Self {
        Self::new()
    }
}

impl<K: Clone, V: Clone> Clone for BTreeMap<K, V> {
    fn clone(&self) -> Self {
        let mut m = Self::new();
        let mut j = 0;
        while j < CAP {
            m.slots[j] = self.slots[j].clone();
            j += 1;
        }
        m
    }
}

impl<K, V> fmt::Debug for BTreeMap<K, V> {
    fn fmt(&self, f: &mut fmt::Formatter<'_>) -> fmt::Result {
        f.write_str("VMap")
    }
}

/// Ascending order of the live slots whose key lies within the bounds.
fn order_of<K, V, Q>(
    slots: &[Option<(K, V)>; CAP],
    lo: Bound<&Q>,
    hi: Bound<&Q>,
) -> ([usize; CAP], usize)
where
    K: Borrow<Q> + Ord,
    Q: Ord + ?Sized,
{
    let mut inc = [false; CAP];
    let mut j = 0;
    while j < CAP {
        if let Some((k, _)) = &slots[j] {
            let k: &Q = k.borrow();
            let lo_ok = match lo {
                Bound::Unbounded => true,
                Bound::Included(b) => k.cmp(b) != Ordering::Less,
                Bound::Excluded(b) => k.cmp(b) == Ordering::Greater,
            };
            let hi_ok = match hi {
                Bound::Unbounded => true,
                Bound::Included(b) => k.cmp(b) != Ordering::Greater,
                Bound::Excluded(b) => k.cmp(b) == Ordering::Less,
            };
            inc[j] = lo_ok && hi_ok;
        }
        j += 1;
    }
    let mut rank = [0usize; CAP];
    let mut n = 0;
    let mut i = 0;
    while i < CAP {
        if inc[i] {
            n += 1;
            let mut j = i + 1;
            while j < CAP {
                if inc[j] {
                    if let (Some((ki, _)), Some((kj, _))) = (&slots[i], &slots[j]) {
                        if ki.cmp(kj) == Ordering::Less {
                            rank[j] += 1;
                        } else {
                            rank[i] += 1;
                        }
                    }
                }
                j += 1;
            }
        }
        i += 1;
    }
    let mut order = [0usize; CAP];
    let mut j = 0;
    while j < CAP {
        if inc[j] {
            order[rank[j]] = j;
        }
        j += 1;
    }
    (order, n)
}

impl<K: Ord, V> BTreeMap<K, V> {
    pub fn get<Q>(&self, key: &Q) -> Option<&V>
    where
        K: Borrow<Q>,
        Q: Ord + ?Sized,
    {
        let mut j = 0;
        while j < CAP {
            if let Some((k, v)) = &self.slots[j] {
                if k.borrow().cmp(key) == Ordering::Equal {
                    return Some(v);
                }
            }
            j += 1;
        }
        None
    }

    pub fn get_mut<Q>(&mut self, key: &Q) -> Option<&mut V>
    where
        K: Borrow<Q>,
        Q: Ord + ?Sized,
    {
        let mut j = 0;
        while j < CAP {
            let hit = match &self.slots[j] {
                Some((k, _)) => k.borrow().cmp(key) == Ordering::Equal,
                None => false,
            };
            if hit {
                return match &mut self.slots[j] {
                    Some((_, v)) => Some(v),
                    None => None,
                };
            }
            j += 1;
        }
        None
    }

    pub fn contains_key<Q>(&self, key: &Q) -> bool
    where
        K: Borrow<Q>,
        Q: Ord + ?Sized,
    {
        self.get(key).is_some()
    }

    pub fn insert(&mut self, key: K, value: V) -> Option<V> {
        let mut j = 0;
        while j < CAP {
            if let Some((k, v)) = &mut self.slots[j] {
                if (*k).cmp(&key) == Ordering::Equal {
                    return Some(core::mem::replace(v, value));
                }
            }
            j += 1;
        }
        let mut j = 0;
        while j < CAP {
            if self.slots[j].is_none() {
                // the slot is empty: plain overwrite, no destructor to run
                unsafe { core::ptr::write(&mut self.slots[j], Some((key, value))) };
                return None;
            }
            j += 1;
        }
        panic!("vmap: capacity exceeded (bound too small)");
    }

    pub fn remove<Q>(&mut self, key: &Q) -> Option<V>
    where
        K: Borrow<Q>,
        Q: Ord + ?Sized,
    {
        let mut j = 0;
        while j < CAP {
            let hit = match &self.slots[j] {
                Some((k, _)) => k.borrow().cmp(key) == Ordering::Equal,
                None => false,
            };
            if hit {
                return match self.slots[j].take() {
                    Some((k, v)) => {
                        core::mem::forget(k); // leak the key (see `clear`)
                        Some(v)
                    }
                    None => None,
                };
            }
            j += 1;
        }
        None
    }

    pub fn entry(&mut self, key: K) -> Entry<'_, K, V> {
        let mut j = 0;
        while j < CAP {
            let hit = match &self.slots[j] {
                Some((k, _)) => k.cmp(&key) == Ordering::Equal,
                None => false,
            };
            if hit {
                return Entry::Occupied(OccupiedEntry {
                    slot: &mut self.slots[j],
                });
            }
            j += 1;
        }
        let mut j = 0;
        while j < CAP {
            if self.slots[j].is_none() {
                return Entry::Vacant(VacantEntry {
                    key,
                    slot: &mut self.slots[j],
                });
            }
            j += 1;
        }
        panic!("vmap: capacity exceeded (bound too small)");
    }

    pub fn range<T, R>(&self, range: R) -> Range<'_, K, V>
    where
        T: Ord + ?Sized,
        K: Borrow<T>,
        R: RangeBounds<T>,
    {
        let (order, n) = order_of::<K, V, T>(&self.slots, range.start_bound(), range.end_bound());
        Range {
            slots: Some(&self.slots),
            order,
            pos: 0,
            n,
        }
    }

    pub fn iter(&self) -> Range<'_, K, V> {
        let (order, n) = order_of::<K, V, K>(&self.slots, Bound::Unbounded, Bound::Unbounded);
        Range {
            slots: Some(&self.slots),
            order,
            pos: 0,
            n,
        }
    }
}

pub enum Entry<'a, K, V> {
    Vacant(VacantEntry<'a, K, V>),
    Occupied(OccupiedEntry<'a, K, V>),
}

pub struct VacantEntry<'a, K, V> {
    key: K,
    slot: &'a mut Option<(K, V)>,
}

pub struct OccupiedEntry<'a, K, V> {
    slot: &'a mut Option<(K, V)>,
}

impl<'a, K, V> VacantEntry<'a, K, V> {
    pub fn insert(self, value: V) -> &'a mut V {
        // a vacant entry always points at an empty slot: plain overwrite, no destructor to run
        unsafe { core::ptr::write(self.slot, Some((self.key, value))) };
        match self.slot {
            Some((_, v)) => v,
            None => unreachable!(),
        }
    }
}

impl<'a, K, V> OccupiedEntry<'a, K, V> {
    pub fn into_mut(self) -> &'a mut V {
        match self.slot {
            Some((_, v)) => v,
            None => unreachable!(),
        }
    }
    pub fn get(&self) -> &V {
        match &*self.slot {
            Some((_, v)) => v,
            None => unreachable!(),
        }
    }
}

impl<'a, K, V> Entry<'a, K, V> {
    pub fn or_insert(self, default: V) -> &'a mut V {
        match self {
            Entry::Occupied(o) => o.into_mut(),
            Entry::Vacant(v) => v.insert(default),
        }
    }
    pub fn or_default(self) -> &'a mut V
    where
        V: Default,
    {
        match self {
            Entry::Occupied(o) => o.into_mut(),
            Entry::Vacant(v) => v.insert(V::default()),
        }
    }
}

/// Borrowing iterator in ascending key order (`range`, `iter`).
pub struct Range<'a, K, V> {
    slots: Option<&'a [Option<(K, V)>; CAP]>,
    order: [usize; CAP],
    pos: usize,
    n: usize,
}

pub type Iter<'a, K, V> = Range<'a, K, V>;

impl<K, V> Default for Range<'_, K, V> {
    fn default() -> Self {
        Self {
            slots: None,
            order: [0; CAP],
            pos: 0,
            n: 0,
        }
    }
}

impl<'a, K, V> Iterator for Range<'a, K, V> {
    type Item = (&'a K, &'a V);
    fn next(&mut self) -> Option<Self::Item> {
        if self.pos >= self.n {
            return None;
        }
        let slots = self.slots?;
        let j = self.order[self.pos];
        self.pos += 1;
        match &slots[j] {
            Some((k, v)) => Some((k, v)),
            None => None,
        }
    }
}

/// Owning iterator in ascending key order.
pub struct IntoIter<K, V> {
    slots: [Option<(K, V)>; CAP],
    order: [usize; CAP],
    pos: usize,
    n: usize,
}

impl<K, V> Iterator for IntoIter<K, V> {
    type Item = (K, V);
    fn next(&mut self) -> Option<Self::Item> {
        if self.pos >= self.n {
            return None;
        }
        let j = self.order[self.pos];
        self.pos += 1;
        self.slots[j].take()
    }
}

impl<K: Ord, V> IntoIterator for BTreeMap<K, V> {
    type Item = (K, V);
    type IntoIter = IntoIter<K, V>;
    fn into_iter(self) -> IntoIter<K, V> {
        let (order, n) = order_of::<K, V, K>(&self.slots, Bound::Unbounded, Bound::Unbounded);
        IntoIter {
            slots: self.slots,
            order,
            pos: 0,
            n,
        }
    }
}

impl<'a, K: Ord, V> IntoIterator for &'a BTreeMap<K, V> {
    type Item = (&'a K, &'a V);
    type IntoIter = Range<'a, K, V>;
    fn into_iter(self) -> Range<'a, K, V> {
        self.iter()
    }
}

impl<K, V> serde::Serialize for BTreeMap<K, V>
where
    K: serde::Serialize + Ord,
    V: serde::Serialize,
{
    fn serialize<S: serde::Serializer>(&self, serializer: S) -> Result<S::Ok, S::Error> {
        serializer.collect_map(self.iter())
    }
}

struct MapVisitor<K, V>(PhantomData<(K, V)>);

impl<'de, K, V> serde::de::Visitor<'de> for MapVisitor<K, V>
where
    K: serde::Deserialize<'de> + Ord,
    V: serde::Deserialize<'de>,
{
    type Value = BTreeMap<K, V>;
    fn expecting(&self, f: &mut fmt::Formatter<'_>) -> fmt::Result {
        f.write_str("a map")
    }
    fn visit_map<A: serde::de::MapAccess<'de>>(self, mut access: A) -> Result<Self::Value, A::Error> {
        let mut m = BTreeMap::new();
        while let Some((k, v)) = access.next_entry()? {
            m.insert(k, v);
        }
        Ok(m)
    }
}

impl<'de, K, V> serde::Deserialize<'de> for BTreeMap<K, V>
where
    K: serde::Deserialize<'de> + Ord,
    V: serde::Deserialize<'de>,
{
    fn deserialize<D: serde::Deserializer<'de>>(deserializer: D) -> Result<Self, D::Error> {
        deserializer.deserialize_map(MapVisitor(PhantomData))
    }
}

// ---------------------------------------------------------------------------------------------
// Self-check of the stand-in against the ordered-map specification (so the substitution is not
// blind). Inductive steps from an ARBITRARY valid slab (live keys pairwise distinct, any slot
// layout, holes anywhere) over u8 keys/values:
//   * point operations change exactly the binding of their key (witness key `w`), keep the
//     invariant, and return what std's BTreeMap returns;
//   * ordered views (`range` with arbitrary Bound kinds, `iter`, owned `into_iter`) yield exactly
//     the live bindings inside the bounds, in strictly ascending key order.
// ---------------------------------------------------------------------------------------------
#[cfg(kani)]
mod check {
    use super::*;

    const KA: u8 = 5; // key alphabet 0..5 (> CAP so an absent key always exists)

    fn any_map() -> BTreeMap<u8, u8> {
        let mut m: BTreeMap<u8, u8> = BTreeMap::new();
        let mut j = 0;
        while j < CAP {
            if kani::any() {
                let k: u8 = kani::any();
                kani::assume(k < KA);
                m.slots[j] = Some((k, kani::any()));
            }
            j += 1;
        }
        kani::assume(distinct(&m));
        m
    }

    fn distinct(m: &BTreeMap<u8, u8>) -> bool {
        let mut i = 0;
        while i < CAP {
            let mut j = i + 1;
            while j < CAP {
                if let (Some((a, _)), Some((b, _))) = (&m.slots[i], &m.slots[j]) {
                    if *a == *b {
                        return false;
                    }
                }
                j += 1;
            }
            i += 1;
        }
        true
    }

    /// Abstraction function: the binding of `k`.
    fn abs(m: &BTreeMap<u8, u8>, k: u8) -> Option<u8> {
        let mut j = 0;
        while j < CAP {
            if let Some((kk, v)) = &m.slots[j] {
                if *kk == k {
                    return Some(*v);
                }
            }
            j += 1;
        }
        None
    }

    fn count(m: &BTreeMap<u8, u8>) -> usize {
        let mut n = 0;
        let mut j = 0;
        while j < CAP {
            if m.slots[j].is_some() {
                n += 1;
            }
            j += 1;
        }
        n
    }

    fn any_key() -> u8 {
        let k: u8 = kani::any();
        kani::assume(k < KA);
        k
    }

    #[kani::proof]
    #[kani::unwind(6)]
    fn vmap_point_ops_step() {
        let mut m = any_map();
        let pre = m.clone();
        let k = any_key();
        let v: u8 = kani::any();
        let w = any_key();
        let full = count(&pre) == CAP;
        let op: u8 = kani::any();
        kani::assume(op < 8);
        // expected new binding of k (None = removed); other keys unchanged
        let mut exp_k = abs(&pre, k);
        if op == 0 {
            kani::assume(!full || abs(&pre, k).is_some());
            let r = m.insert(k, v);
            assert!(r == abs(&pre, k));
            exp_k = Some(v);
            kani::cover!(r.is_some(), "insert replaces");
            kani::cover!(r.is_none() & (count(&pre) == CAP - 1), "insert fills the last slot");
        } else if op == 1 {
            let r = m.remove(&k);
            assert!(r == abs(&pre, k));
            exp_k = None;
            kani::cover!(r.is_some(), "remove hits");
        } else if op == 2 {
            kani::assume(!full || abs(&pre, k).is_some());
            let r = m.entry(k).or_insert(v);
            let want = match abs(&pre, k) {
                Some(old) => old,
                None => v,
            };
            assert!(*r == want);
            exp_k = Some(want);
        } else if op == 3 {
            kani::assume(!full || abs(&pre, k).is_some());
            let r = m.entry(k).or_default();
            let want = match abs(&pre, k) {
                Some(old) => old,
                None => 0,
            };
            assert!(*r == want);
            *r = v;
            exp_k = Some(v);
        } else if op == 4 {
            match m.get_mut(&k) {
                Some(r) => {
                    assert!(Some(*r) == abs(&pre, k));
                    *r = v;
                    exp_k = Some(v);
                }
                None => assert!(abs(&pre, k).is_none()),
            }
        } else if op == 5 {
            kani::assume(!full || abs(&pre, k).is_some());
            match m.entry(k) {
                Entry::Occupied(o) => {
                    assert!(Some(*o.get()) == abs(&pre, k));
                    *o.into_mut() = v;
                }
                Entry::Vacant(e) => {
                    assert!(abs(&pre, k).is_none());
                    e.insert(v);
                }
            }
            exp_k = Some(v);
        } else if op == 6 {
            // retain: drop bindings whose value equals v, bump the others
            m.retain(|_, x| {
                if *x == v {
                    false
                } else {
                    *x = x.wrapping_add(1);
                    true
                }
            });
            assert!(distinct(&m));
            let want = match abs(&pre, w) {
                Some(x) if x != v => Some(x.wrapping_add(1)),
                _ => None,
            };
            assert!(abs(&m, w) == want);
            return;
        } else {
            m.clear();
            assert!(m.is_empty() && m.len() == 0 && abs(&m, w).is_none());
            return;
        }
        assert!(distinct(&m));
        let want_w = if w == k { exp_k } else { abs(&pre, w) };
        assert!(abs(&m, w) == want_w);
        // the read API agrees with the abstraction
        assert!(m.get(&w).copied() == want_w);
        assert!(m.contains_key(&w) == want_w.is_some());
        assert!(m.len() == count(&m));
        assert!(m.is_empty() == (count(&m) == 0));
    }

    fn any_bound(b: &u8) -> Bound<&u8> {
        let kind: u8 = kani::any();
        kani::assume(kind < 3);
        if kind == 0 {
            Bound::Unbounded
        } else if kind == 1 {
            Bound::Included(b)
        } else {
            Bound::Excluded(b)
        }
    }

    fn within(k: u8, lo: Bound<&u8>, hi: Bound<&u8>) -> bool {
        let a = match lo {
            Bound::Unbounded => true,
            Bound::Included(b) => k >= *b,
            Bound::Excluded(b) => k > *b,
        };
        let b = match hi {
            Bound::Unbounded => true,
            Bound::Included(b) => k <= *b,
            Bound::Excluded(b) => k < *b,
        };
        a && b
    }

    #[kani::proof]
    #[kani::unwind(6)]
    fn vmap_ordered_views() {
        let m = any_map();
        let lo_v = any_key();
        let hi_v = any_key();
        let lo = any_bound(&lo_v);
        let hi = any_bound(&hi_v);
        // number of live bindings inside the bounds
        let mut want_n = 0;
        let mut k = 0;
        while k < KA {
            if abs(&m, k).is_some() && within(k, lo, hi) {
                want_n += 1;
            }
            k += 1;
        }
        // range: strictly ascending, every item is a live binding inside the bounds, count exact
        let mut it = m.range::<u8, _>((lo, hi));
        let mut last: Option<u8> = None;
        let mut n = 0;
        let mut i = 0;
        while i < CAP + 1 {
            if let Some((k, v)) = it.next() {
                assert!(abs(&m, *k) == Some(*v));
                assert!(within(*k, lo, hi));
                if let Some(l) = last {
                    assert!(l < *k);
                }
                last = Some(*k);
                n += 1;
            }
            i += 1;
        }
        assert!(it.next().is_none());
        assert!(n == want_n);
        kani::cover!(n == 3, "three keys in range");
        kani::cover!((n == 1) & (count(&m) == CAP), "full map, one key in range");
        // iter (= unbounded range) and owned into_iter
        let total = count(&m);
        let mut it = m.iter();
        let mut last: Option<u8> = None;
        let mut n = 0;
        let mut i = 0;
        while i < CAP + 1 {
            if let Some((k, v)) = it.next() {
                assert!(abs(&m, *k) == Some(*v));
                if let Some(l) = last {
                    assert!(l < *k);
                }
                last = Some(*k);
                n += 1;
            }
            i += 1;
        }
        assert!(n == total);
        let pre = m.clone();
        let mut it = m.into_iter();
        let mut last: Option<u8> = None;
        let mut n = 0;
        let mut i = 0;
        while i < CAP + 1 {
            if let Some((k, v)) = it.next() {
                assert!(abs(&pre, k) == Some(v));
                if let Some(l) = last {
                    assert!(l < k);
                }
                last = Some(k);
                n += 1;
            }
            i += 1;
        }
        assert!(n == total);
        assert!(Range::<u8, u8>::default().next().is_none());
    }
}

// --- added by the lead for client/transaction.rs (group runtime_vmap_txn): `values()` -----------
pub struct Values<'a, K, V>(Range<'a, K, V>);
impl<'a, K, V> Iterator for Values<'a, K, V> {
    type Item = &'a V;
    fn next(&mut self) -> Option<&'a V> {
        self.0.next().map(|(_, v)| v)
    }
}
impl<K: Ord, V> BTreeMap<K, V> {
    /// Values in ascending key order (std semantics).
    pub fn values(&self) -> Values<'_, K, V> {
        Values(self.iter())
    }
}
