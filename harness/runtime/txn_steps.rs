// C06 / C07 / C08 / C09 / C10 — one-step harnesses of the real Transaction / ClientState code over
// the recording substrate `vclient.rs`.  Child module of aranya_runtime::client::transaction.
// Single-head flows only: anything that needs a braid is outside these harnesses (DESIGN §4).
use super::*;
use crate::{ClientState, MaxCut, MemSpill, SegmentIndex};

#[path = "vclient.rs"]
mod vclient;
use vclient::*;

type Trx = Transaction<AProvider, AStoreOfPolicies>;

fn policies(reject: Option<u8>) -> AStoreOfPolicies {
    AStoreOfPolicies {
        policy: APolicy { reject_id: reject, publish: 0, act0: 0, action_fails: false },
        add_calls: 0,
    }
}

/// Concrete, pairwise distinct ids.  Measured: with symbolic ids every `phead == parent.id`,
/// `get_by_address` and map lookup in Transaction::add_commands becomes a symbolic branch and
/// CBMC walks the graph search and the merge/braid path from each of them (no result in 35 min,
/// 7 GB).  The symbolic inputs of these harnesses are therefore the DECISIONS (which command the
/// rule rejects, whether another commit intervenes, batching, duplicates), not the id bytes.
fn any_distinct3(not: u8) -> (u8, u8, u8) {
    let base = if not >= 200 { 20 } else { not + 1 };
    (base, base + 1, base + 2)
}

// ------------------------------------------------------------------------------------------ C10

/// Receiving into a graph that does not exist: created iff the first command is parentless, has
/// the graph's id and carries a policy (and its rule accepts it); otherwise InitError / policy
/// error and NOTHING is created and no effects are committed.
#[kani::proof]
#[kani::unwind(6)]
fn c10_init_decision_table() {
    // the parent KIND is looped over concretely: with a symbolic kind CBMC drags the merge path
    // (add_merge -> evaluate_braid -> braid) into every case and runs out of memory.
    c10_init_case(0);
    c10_init_case(1);
    c10_init_case(2);
}

fn c10_init_case(pk: u8) {
    let g: u8 = kani::any();
    let id: u8 = kani::any();
    let has_policy: bool = kani::any();
    let rejected: bool = kani::any();
    let parent = match pk {
        0 => Prior::None,
        1 => Prior::Single(addr(kani::any(), 0)),
        _ => Prior::Merge(addr(kani::any(), 0), addr(kani::any(), 0)),
    };
    let cmd = ACmd { id, parent, has_policy, merge: pk == 2 };
    let mut prov = AProvider::empty();
    let mut ps = policies(if rejected { Some(id) } else { None });
    let mut sink = ASink::new();
    let mut bufs: RuntimeBuffers<ASeg> = RuntimeBuffers::new();
    let mut trx: Trx = Transaction::new(gid(g));
    let r = trx.add_commands(&[cmd], &mut prov, &mut ps, &mut sink, &mut bufs, &MemSpill::new);
    let well_formed = (id == g) & (pk == 0) & has_policy;
    match r {
        Ok(n) => {
            assert!(well_formed && !rejected);
            assert!(n == 1);
            assert!(prov.exists && prov.graph == g && prov.new_storage_calls == 1);
            assert!(prov.store.nseg == 1 && prov.store.segs[0].len == 1 && prov.store.segs[0].ids[0] == id);
            assert!(sink.commits == 1 && sink.rollbacks == 0);
            kani::cover!(true, "graph created");
        }
        Err(e) => {
            assert!(!(well_formed && !rejected));
            assert!(!prov.exists && prov.new_storage_calls == 0 && prov.store.nseg == 0);
            assert!(sink.commits == 0 && sink.ncommitted == 0);
            if !well_formed {
                assert!(matches!(e, ClientError::InitError));
                assert!(ps.add_calls == 0);
                kani::cover!((id != g) & (pk == 0) & has_policy, "wrong id refused");
                kani::cover!((id == g) & (pk == 1) & has_policy, "parented first command refused");
                kani::cover!((id == g) & (pk == 0) & !has_policy, "policy-less init refused");
            } else {
                assert!(matches!(e, ClientError::PolicyError(_)));
                assert!(sink.rollbacks == 1);
                kani::cover!(true, "init rejected by its own policy");
            }
            core::mem::forget(e);
        }
    }
    core::mem::forget(trx);
    core::mem::forget(bufs);
}

/// Receiving a parentless command into an EXISTING graph: the graph's own init is a no-op, any
/// other parentless command is InitError; in both cases nothing is written or committed.  The
/// parentless command sits at a symbolic position of a 2-command batch.
#[kani::proof]
#[kani::unwind(6)]
fn c10_parentless_into_existing_graph() {
    let g: u8 = 10;
    let (c1, x0, _) = any_distinct3(g);
    let same: bool = kani::any();
    let x = if same { g } else { x0 };
    let has_policy: bool = kani::any();
    let first: bool = kani::any(); // parentless command first or second in the batch
    let child = ACmd { id: c1, parent: Prior::Single(addr(g, 0)), has_policy: false, merge: false };
    let orphan = ACmd { id: x, parent: Prior::None, has_policy, merge: false };
    let batch = if first { [orphan, child] } else { [child, orphan] };
    let mut prov = AProvider::with(AStore::with_chain(&[g]), g);
    let mut ps = policies(None);
    let mut sink = ASink::new();
    let mut bufs: RuntimeBuffers<ASeg> = RuntimeBuffers::new();
    let mut trx: Trx = Transaction::new(gid(g));
    let r = trx.add_commands(&batch, &mut prov, &mut ps, &mut sink, &mut bufs, &MemSpill::new);
    assert!(prov.store.commit_calls == 0 && prov.new_storage_calls == 0);
    assert!(prov.store.heads.len() == 1 && prov.store.nseg == 1);
    match r {
        Ok(n) => {
            assert!(same);
            assert!(n == 1); // only the child counts; the re-received init is a no-op
            kani::cover!(first, "own init re-received first, then a child accepted");
        }
        Err(e) => {
            assert!(!same);
            assert!(matches!(e, ClientError::InitError));
            kani::cover!(!first, "foreign init after an accepted child");
            core::mem::forget(e);
        }
    }
    core::mem::forget(trx);
    core::mem::forget(bufs);
}

// ------------------------------------------------------------------------------------------ C08

/// commit(): no stamp => Ok(false), nothing committed; stamp differs from the storage's current
/// one => ConcurrentTransaction, nothing committed; equal => the transaction's tips are committed.
#[kani::proof]
#[kani::unwind(6)]
fn c08_commit_checks_stamp() {
    let g: u8 = kani::any();
    let (a, _, _) = any_distinct3(g);
    let has: bool = kani::any();
    let x: u64 = kani::any();
    let y: u64 = kani::any();
    // the recording store's stamp is a counter (`offset += 1` per commit_heads)
    kani::assume(y < u64::MAX);
    let mut store = AStore::with_chain(&[g, a]);
    store.offset = y;
    let mut prov = AProvider::with(store, g);
    let mut ps = policies(None);
    let mut sink = ASink::new();
    let mut bufs: RuntimeBuffers<ASeg> = RuntimeBuffers::new();
    let mut trx: Trx = Transaction::new(gid(g));
    trx.original_heads_offset = if has { Some(HeadSetOffset::new(x)) } else { None };
    // the transaction's only tip: command `a` at (segment 0, max cut 1)
    trx.heads.insert(cid(a), loc(0, 1));
    let r = trx.commit(&mut prov, &mut ps, &mut sink, &mut bufs, &MemSpill::new);
    match r {
        Ok(false) => {
            assert!(!has);
            assert!(prov.store.commit_calls == 0 && prov.store.offset == y);
        }
        Ok(true) => {
            assert!(has && x == y);
            assert!(prov.store.commit_calls == 1);
            assert!(prov.store.heads.len() == 1);
            let h = prov.store.heads.as_slice()[0];
            assert!(id_byte(h.id) == a && h.segment.get() == 0 && h.max_cut.get() == 1);
            kani::cover!(true, "commit with matching stamp");
        }
        Err(e) => {
            assert!(has && x != y);
            assert!(matches!(e, ClientError::ConcurrentTransaction));
            assert!(prov.store.commit_calls == 0 && prov.store.offset == y && prov.store.write_calls == 0);
            kani::cover!(true, "stale stamp refused");
            core::mem::forget(e);
        }
    }
    core::mem::forget(bufs);
}

/// The stamp is captured when the transaction FIRST reads the heads, not later: a commit by
/// somebody else between two add_commands calls is detected; with no such commit the
/// transaction's commands are committed as one segment on top of the old head.
#[kani::proof]
#[kani::unwind(6)]
fn c08_stamp_captured_at_first_read() {
    let g: u8 = 10;
    let (a, c1, c2) = any_distinct3(g);
    let other_commit_between: bool = kani::any();
    let other_commit_before: bool = kani::any();
    let mut prov = AProvider::with(AStore::with_chain(&[g, a]), g);
    let mut ps = policies(None);
    let mut sink = ASink::new();
    let mut bufs: RuntimeBuffers<ASeg> = RuntimeBuffers::new();
    let mut trx: Trx = Transaction::new(gid(g));
    if other_commit_before {
        // before the transaction has read anything: must NOT be counted against it
        prov.store.offset += 1;
    }
    let k1 = ACmd { id: c1, parent: Prior::Single(addr(a, 1)), has_policy: false, merge: false };
    let k2 = ACmd { id: c2, parent: Prior::Single(addr(c1, 2)), has_policy: false, merge: false };
    let r1 = trx.add_commands(&[k1], &mut prov, &mut ps, &mut sink, &mut bufs, &MemSpill::new);
    assert!(matches!(r1, Ok(1)));
    if other_commit_between {
        prov.store.offset += 1;
    }
    let r2 = trx.add_commands(&[k2], &mut prov, &mut ps, &mut sink, &mut bufs, &MemSpill::new);
    assert!(matches!(r2, Ok(1)));
    // the stamp the later commit() will compare is the one read at the FIRST add_commands
    let first_read = if other_commit_before { 1 } else { 0 };
    assert!(trx.original_heads_offset == Some(HeadSetOffset::new(first_read)));
    let now = prov.store.offset;
    assert!((HeadSetOffset::new(now) != HeadSetOffset::new(first_read)) == other_commit_between);
    kani::cover!(other_commit_before & !other_commit_between, "commit before the first read does not disturb");
    kani::cover!(other_commit_between, "intervening commit leaves a stale stamp");
    core::mem::forget(trx);
    core::mem::forget(r1);
    core::mem::forget(r2);
    core::mem::forget(bufs);
}

// ------------------------------------------------------------------------------------------ C06

/// Three received commands c1 <- c2 <- c3 on top of the head; the rule of one of them (symbolic)
/// writes a fact and then rejects.  The rejected command is reverted to the checkpoint taken
/// before its rule, its effects are rolled back, it is not stored; commands accepted before it
/// commit with exactly their own fact writes and effects; a later command naming the rejected
/// one as parent is refused with NoSuchParent.
#[kani::proof]
#[kani::unwind(6)]
fn c06_rejected_in_chain() {
    let g: u8 = 10;
    let (c1, c2, c3) = any_distinct3(g);
    let late: u8 = 99;
    let k: u8 = kani::any(); // 0,1,2 = index of the rejected command; 3 = none
    kani::assume(k <= 3);
    let ids = [c1, c2, c3];
    let reject = if k < 3 { Some(ids[k as usize]) } else { None };
    let cmds = [
        ACmd { id: c1, parent: Prior::Single(addr(g, 0)), has_policy: false, merge: false },
        ACmd { id: c2, parent: Prior::Single(addr(c1, 1)), has_policy: false, merge: false },
        ACmd { id: c3, parent: Prior::Single(addr(c2, 2)), has_policy: false, merge: false },
    ];
    let mut prov = AProvider::with(AStore::with_chain(&[g]), g);
    let mut ps = policies(reject);
    let mut sink = ASink::new();
    let mut bufs: RuntimeBuffers<ASeg> = RuntimeBuffers::new();
    let mut trx: Trx = Transaction::new(gid(g));
    let r = trx.add_commands(&cmds, &mut prov, &mut ps, &mut sink, &mut bufs, &MemSpill::new);
    let accepted = k as usize; // number of commands accepted (k == 3: all)
    match r {
        Ok(n) => {
            assert!(k == 3 && n == 3);
        }
        Err(e) => {
            assert!(k < 3);
            assert!(matches!(e, ClientError::PolicyError(PolicyError::Rejected)));
            assert!(sink.rollbacks == 1);
            core::mem::forget(e);
        }
    }
    // the in-flight perspective holds exactly the accepted commands and their writes
    match &trx.perspective {
        Some(p) => {
            assert!(p.ncmd == accepted);
            let mut i = 0;
            while i < accepted {
                assert!(p.cmds[i] == ids[i] && p.writes[i] == 1);
                i += 1;
            }
            assert!(p.pending_writes() == 0); // the rejected rule's write is gone
            if k < 3 {
                assert!(p.reverts == 1 && p.last_revert_index == accepted);
            }
        }
        None => panic!("no perspective after add_commands"),
    }
    assert!(sink.ncommitted == accepted);
    if k < 3 {
        // a child of the rejected command is refused: its parent does not exist
        let child = ACmd { id: late, parent: Prior::Single(addr(ids[k as usize], k as u64 + 1)), has_policy: false, merge: false };
        let r2 = trx.add_commands(&[child], &mut prov, &mut ps, &mut sink, &mut bufs, &MemSpill::new);
        match r2 {
            Err(ClientError::NoSuchParent(p)) => assert!(id_byte(p) == ids[k as usize]),
            _ => panic!("child of a rejected command was not refused with NoSuchParent"),
        }
        kani::cover!(k == 1, "middle command rejected, child refused");
    }
    if accepted >= 1 {
        // commit() starts by flushing the perspective into a segment; do exactly that step
        // (the rest of commit needs the braid machinery, which is outside these harnesses).
        match trx.flush(&mut prov.store) {
            Ok(()) => {}
            Err(_) => panic!("flush of accepted commands failed"),
        }
        assert!(prov.store.nseg == 2);
        let s = prov.store.segs[1];
        assert!(s.len == accepted && s.writes as usize == accepted);
        let mut i = 0;
        while i < accepted {
            assert!(s.ids[i] == ids[i]);
            assert!(sink.committed[i] == ids[i]);
            i += 1;
        }
        // the only tip of the transaction is the last accepted command
        assert!(trx.heads.len() == 1);
        assert!(trx.heads.get(&cid(ids[accepted - 1])) == Some(&loc(1, accepted as u64)));
        kani::cover!(k == 2, "two accepted commands persist, third rejected");
    }
    core::mem::forget(trx);
    core::mem::forget(bufs);
}

/// An accepted command followed by a rejected command that starts a NEW perspective (its parent
/// is an older command, not the transaction's current tip): the accepted command must still
/// commit.
#[kani::proof]
#[kani::unwind(6)]
fn c06_rejected_on_new_branch_keeps_earlier() {
    let g: u8 = 10;
    let (a, c1, x) = any_distinct3(g);
    let mut prov = AProvider::with(AStore::with_chain(&[g, a]), g);
    let mut ps = policies(Some(x));
    let mut sink = ASink::new();
    let mut bufs: RuntimeBuffers<ASeg> = RuntimeBuffers::new();
    let mut trx: Trx = Transaction::new(gid(g));
    let k1 = ACmd { id: c1, parent: Prior::Single(addr(a, 1)), has_policy: false, merge: false };
    // x branches off the older command g
    let kx = ACmd { id: x, parent: Prior::Single(addr(g, 0)), has_policy: false, merge: false };
    let r1 = trx.add_commands(&[k1], &mut prov, &mut ps, &mut sink, &mut bufs, &MemSpill::new);
    assert!(matches!(r1, Ok(1)));
    let r2 = trx.add_commands(&[kx], &mut prov, &mut ps, &mut sink, &mut bufs, &MemSpill::new);
    assert!(matches!(r2, Err(ClientError::PolicyError(PolicyError::Rejected))));
    // commit() = stamp check, then flush(), then head-set rebuild.  The flush is where an empty
    // in-flight perspective (left behind by the rejected branch start) would make the whole
    // commit fail and lose c1.
    let rf = trx.flush(&mut prov.store);
    assert!(rf.is_ok());
    // c1 was accepted: it must be a written tip, with its effect committed; x must not exist
    assert!(trx.heads.contains_key(&cid(c1)));
    assert!(!trx.heads.contains_key(&cid(x)));
    assert!(sink.ncommitted == 1 && sink.committed[0] == c1);
    let mut i = 0;
    while i < prov.store.nseg {
        let s = prov.store.segs[i];
        let mut j = 0;
        while j < s.len {
            assert!(s.ids[j] != x);
            j += 1;
        }
        i += 1;
    }
    kani::cover!(true, "accepted command survives a later rejected branch start");
    core::mem::forget(r1);
    core::mem::forget(r2);
    core::mem::forget(rf);
    core::mem::forget(trx);
    core::mem::forget(bufs);
}

// ------------------------------------------------------------------------------------------ C07

/// ClientState::action on a single-head graph: the action publishes 0..=2 commands (each with a
/// fact write and an effect) and then succeeds or fails (symbolic).  Success: one new head whose
/// segment holds exactly the published commands on top of the old head, effects committed after
/// the heads.  Failure: heads, stamp, stored segments unchanged; effects rolled back.
#[kani::proof]
#[kani::unwind(6)]
fn c07_action_atomic_single_head() {
    let g: u8 = 10;
    let (a, p0, _) = any_distinct3(g);
    kani::assume(p0 < 250);
    let publish: u8 = kani::any();
    kani::assume(publish <= 2);
    let fails: bool = kani::any();
    let prov = AProvider::with(AStore::with_chain(&[g, a]), g);
    let ps = AStoreOfPolicies {
        policy: APolicy { reject_id: None, publish, act0: p0, action_fails: fails },
        add_calls: 0,
    };
    let mut client = ClientState::new(ps, prov);
    let mut sink = ASink::new();
    let mut bufs: RuntimeBuffers<ASeg> = RuntimeBuffers::new();
    let r = client.action(gid(g), &mut sink, (), &mut bufs, MemSpill::new);
    let st = &client.provider.store;
    match r {
        Ok(()) => {
            assert!(!fails);
            if publish == 0 {
                // nothing published: the real storage refuses an empty perspective, so this is
                // not reachable with Ok; the audit store mirrors that.
                panic!("action that published nothing reported success");
            }
            assert!(st.commit_calls == 1 && st.offset == 1 && st.nseg == 2);
            let s = st.segs[1];
            assert!(s.len == publish as usize && s.first_mc == 2 && s.writes == publish);
            assert!(matches!(s.prior, Prior::Single(l) if l == loc(0, 1)));
            assert!(s.ids[0] == p0);
            assert!(st.heads.len() == 1);
            let h = st.heads.as_slice()[0];
            assert!(id_byte(h.id) == p0 + publish - 1 && h.segment.get() == 1 && h.max_cut.get() == 1 + publish as u64);
            assert!(sink.commits == 1 && sink.rollbacks == 0 && sink.ncommitted == publish as usize);
            kani::cover!(publish == 2, "two commands published atomically");
        }
        Err(e) => {
            assert!(fails || publish == 0);
            assert!(st.commit_calls == 0 && st.offset == 0);
            assert!(st.heads.len() == 1 && id_byte(st.heads.as_slice()[0].id) == a);
            assert!(sink.commits == 0 && sink.ncommitted == 0);
            if fails {
                assert!(st.nseg == 1 && st.write_calls == 0);
                assert!(sink.rollbacks == 1);
                kani::cover!(publish == 2, "failed after publishing two commands: nothing kept");
            }
            core::mem::forget(e);
        }
    }
    core::mem::forget(bufs);
    core::mem::forget(client);
}

// ------------------------------------------------------------------------------------------ C09

/// Tip bookkeeping without merges: receiving a chain c1 <- c2 on top of head `a` (optionally split
/// over two add_commands calls, optionally with a duplicate delivery) leaves exactly one tip, the
/// last command; the old head is no longer a tip; the committed head set is that single tip.
#[kani::proof]
#[kani::unwind(6)]
fn c09_chain_extension_replaces_tip() {
    let g: u8 = 10;
    let (a, c1, c2) = any_distinct3(g);
    let split: bool = kani::any();
    let dup: bool = kani::any();
    let mut prov = AProvider::with(AStore::with_chain(&[g, a]), g);
    let mut ps = policies(None);
    let mut sink = ASink::new();
    let mut bufs: RuntimeBuffers<ASeg> = RuntimeBuffers::new();
    let mut trx: Trx = Transaction::new(gid(g));
    let k1 = ACmd { id: c1, parent: Prior::Single(addr(a, 1)), has_policy: false, merge: false };
    let k2 = ACmd { id: c2, parent: Prior::Single(addr(c1, 2)), has_policy: false, merge: false };
    let total = if split {
        let r1 = trx.add_commands(&[k1], &mut prov, &mut ps, &mut sink, &mut bufs, &MemSpill::new);
        let r2 = if dup {
            trx.add_commands(&[k1, k2], &mut prov, &mut ps, &mut sink, &mut bufs, &MemSpill::new)
        } else {
            trx.add_commands(&[k2], &mut prov, &mut ps, &mut sink, &mut bufs, &MemSpill::new)
        };
        match (r1, r2) {
            (Ok(x), Ok(y)) => x + y,
            _ => panic!("valid chain refused"),
        }
    } else {
        let r = if dup {
            trx.add_commands(&[k1, k1, k2], &mut prov, &mut ps, &mut sink, &mut bufs, &MemSpill::new)
        } else {
            trx.add_commands(&[k1, k2], &mut prov, &mut ps, &mut sink, &mut bufs, &MemSpill::new)
        };
        match r {
            Ok(x) => x,
            Err(_) => panic!("valid chain refused"),
        }
    };
    assert!(total == 2); // duplicates are not counted and not applied twice
    assert!(sink.ncommitted == 2);
    match trx.flush(&mut prov.store) {
        Ok(()) => {}
        Err(_) => panic!("flush failed"),
    }
    assert!(trx.heads.len() == 1);
    assert!(trx.heads.get(&cid(c2)) == Some(&loc(1, 3)));
    assert!(!trx.heads.contains_key(&cid(a)));
    assert!(prov.store.nseg == 2 && prov.store.segs[1].len == 2);
    kani::cover!(split & dup, "duplicate delivery across batches");
    core::mem::forget(trx);
    core::mem::forget(bufs);
}

// ------------------------------------------------------------------------------------------ C19

/// should_sync_on_hello on a single-head graph g <- a <- b: answers "no sync needed" exactly
/// when the advertised address (symbolic id and max cut) is a command of the local graph;
/// a replica that lacks the graph always syncs.
#[kani::proof]
#[kani::unwind(6)]
fn c19_should_sync_single_head() {
    let g: u8 = 10;
    let (a, b, _) = any_distinct3(g);
    let exists: bool = kani::any();
    let id: u8 = kani::any();
    let mc: u64 = kani::any();
    kani::assume(mc < 4);
    let prov = if exists { AProvider::with(AStore::with_chain(&[g, a, b]), g) } else { AProvider::empty() };
    let mut client = ClientState::new(policies(None), prov);
    let mut tb = TraversalBuffer::new();
    let r = client.should_sync_on_hello(gid(g), addr(id, mc), &mut tb);
    let has = exists & (((id == g) & (mc == 0)) | ((id == a) & (mc == 1)) | ((id == b) & (mc == 2)));
    match r {
        Ok(sync) => assert!(sync == !has),
        Err(_) => panic!("should_sync_on_hello failed"),
    }
    kani::cover!(exists & (id == a) & (mc == 1), "interior command: no sync");
    kani::cover!(exists & (id == a) & (mc == 2), "right id, wrong max cut: sync");
    kani::cover!(!exists, "graph missing: sync");
    core::mem::forget(client);
}

/// hello_head of a two-head graph does not depend on the order in which the heads were inserted
/// nor on which segment index each head lives in; it is the address of the merge command the
/// policy builds for the id-ordered pair, one above the higher head.
#[kani::proof]
#[kani::unwind(6)]
fn c19_hello_head_two_heads_layout_independent() {
    // concrete ids: HeadSet::push with symbolic ids is a Vec::insert at a symbolic index, which
    // CBMC does not get through; the symbolic part here is layout and insertion order.
    let g: u8 = 10;
    let (a, b) = (11u8, 12u8);
    let swap_layout: bool = kani::any();
    let swap_insert: bool = kani::any();
    let mk = |first: u8, second: u8, ins_rev: bool| {
        let mut s = AStore::with_chain(&[g]);
        let mut s1 = ASeg::empty();
        s1.index = 1;
        s1.prior = Prior::Single(loc(0, 0));
        s1.first_mc = 1;
        s1.len = 1;
        s1.ids[0] = first;
        let mut s2 = s1;
        s2.index = 2;
        s2.ids[0] = second;
        s.segs[1] = s1;
        s.segs[2] = s2;
        s.nseg = 3;
        let h1 = LocatedAddress { id: cid(first), segment: SegmentIndex::new(1), max_cut: MaxCut::new(1) };
        let h2 = LocatedAddress { id: cid(second), segment: SegmentIndex::new(2), max_cut: MaxCut::new(1) };
        let mut hs = HeadSet::default();
        if ins_rev {
            hs.push(h2);
            hs.push(h1);
        } else {
            hs.push(h1);
            hs.push(h2);
        }
        s.heads = hs;
        s
    };
    let s_ref = mk(a, b, false);
    let s_var = if swap_layout { mk(b, a, swap_insert) } else { mk(a, b, swap_insert) };
    let mut c1 = ClientState::new(policies(None), AProvider::with(s_ref, g));
    let mut c2 = ClientState::new(policies(None), AProvider::with(s_var, g));
    let h1 = match c1.hello_head(gid(g)) { Ok(h) => h, Err(_) => panic!("hello_head") };
    let h2 = match c2.hello_head(gid(g)) { Ok(h) => h, Err(_) => panic!("hello_head") };
    assert!(id_byte(h1.id) == id_byte(h2.id) && h1.max_cut == h2.max_cut);
    assert!(h1.max_cut.get() == 2);
    assert!(id_byte(h1.id) == (a ^ b ^ 0x80));
    kani::cover!(swap_layout & swap_insert, "other layout and other insertion order");
    core::mem::forget(c1);
    core::mem::forget(c2);
}

// ------------------------------------------------------------------ smaller kernels (no graph search)

/// C10 kernel: Transaction::init directly (no search, no loop): created iff id == graph id, no
/// parent, policy present, rule accepts; otherwise nothing is created and nothing committed.
#[kani::proof]
#[kani::unwind(6)]
fn c10_init_direct() {
    c10_init_direct_case(0);
    c10_init_direct_case(1);
    c10_init_direct_case(2);
}

fn c10_init_direct_case(pk: u8) {
    let g: u8 = kani::any();
    let id: u8 = kani::any();
    let has_policy: bool = kani::any();
    let rejected: bool = kani::any();
    let parent = match pk {
        0 => Prior::None,
        1 => Prior::Single(addr(kani::any(), 0)),
        _ => Prior::Merge(addr(kani::any(), 0), addr(kani::any(), 0)),
    };
    let cmd = ACmd { id, parent, has_policy, merge: pk == 2 };
    let mut prov = AProvider::empty();
    let mut ps = policies(if rejected { Some(id) } else { None });
    let mut sink = ASink::new();
    let mut trx: Trx = Transaction::new(gid(g));
    let ok = trx.init(&cmd, &mut ps, &mut prov, &mut sink).is_ok();
    let well_formed = (id == g) & (pk == 0) & has_policy;
    assert!(ok == (well_formed & !rejected));
    if ok {
        assert!(prov.exists && prov.graph == g && prov.new_storage_calls == 1);
        assert!(prov.store.nseg == 1 && prov.store.segs[0].len == 1 && prov.store.segs[0].ids[0] == id);
        assert!(sink.commits == 1 && sink.rollbacks == 0 && sink.ncommitted == 1);
        kani::cover!(true, "graph created");
    } else {
        assert!(!prov.exists && prov.new_storage_calls == 0 && prov.store.nseg == 0);
        assert!(sink.commits == 0 && sink.ncommitted == 0);
        if !well_formed {
            assert!(ps.add_calls == 0 && sink.begins == 0);
        } else {
            assert!(sink.rollbacks == 1);
        }
        kani::cover!((id != g) & has_policy, "wrong id refused");
        kani::cover!((id == g) & !has_policy, "policy-less init refused");
        kani::cover!(well_formed & rejected, "init rejected by its own rule");
    }
    core::mem::forget(trx);
}

/// C08 kernel: commit() on a transaction with no tips: a stale stamp is refused with
/// ConcurrentTransaction BEFORE anything is flushed or committed; no stamp => Ok(false).
#[kani::proof]
#[kani::unwind(6)]
fn c08_commit_stale_stamp_refused_early() {
    let (g, a) = (10u8, 11u8);
    let has: bool = kani::any();
    // CONCRETE distinct stamps: with symbolic stamps CBMC also walks the matching-stamp
    // continuation (flush, head-set rebuild, braid), which does not finish.
    let x: u64 = 5;
    let y: u64 = 9;
    let mut store = AStore::with_chain(&[g, a]);
    store.offset = y;
    let mut prov = AProvider::with(store, g);
    let mut ps = policies(None);
    let mut sink = ASink::new();
    let mut bufs: RuntimeBuffers<ASeg> = RuntimeBuffers::new();
    let mut trx: Trx = Transaction::new(gid(g));
    trx.original_heads_offset = if has { Some(HeadSetOffset::new(x)) } else { None };
    // an in-flight perspective with one accepted command: commit must not even flush it when the
    // stamp is stale
    let mut p = APersp::new(Prior::Single(addr(a, 1)), Prior::Single(loc(0, 1)), 2);
    p.cmds[0] = 77;
    p.ncmd = 1;
    trx.perspective = Some(p);
    trx.phead = Some(cid(77));
    let stale = has & (x != y);
    let r = trx.commit(&mut prov, &mut ps, &mut sink, &mut bufs, &MemSpill::new);
    match r {
        Ok(b) => {
            assert!(!has && !b);
        }
        Err(e) => {
            assert!(stale);
            assert!(matches!(e, ClientError::ConcurrentTransaction));
            core::mem::forget(e);
        }
    }
    assert!(prov.store.commit_calls == 0 && prov.store.write_calls == 0 && prov.store.offset == y);
    assert!(prov.store.heads.len() == 1);
    kani::cover!(stale, "stale stamp refused before flush");
    kani::cover!(!has, "nothing read, nothing to commit");
    core::mem::forget(bufs);
}

/// C06 kernel: add_single onto the transaction's CURRENT perspective (parent == phead, so no
/// graph search): the rule writes a fact and then accepts or rejects (symbolic).  Rejected:
/// perspective reverted to the checkpoint taken before the rule, effects rolled back, command not
/// added, phead unchanged.  Accepted: command appended after its own write, effect committed.
#[kani::proof]
#[kani::unwind(6)]
fn c06_add_single_current_perspective() {
    c06_add_single_case(0);
    c06_add_single_case(1);
}

fn c06_add_single_case(pre: usize) {
    // concrete ids: with symbolic ids CBMC cannot fold `phead == Some(parent.id)` and walks the
    // graph-search path as well, which does not finish.  Symbolic: rule outcome, perspective fill.
    let (g, a, c0, c1) = (10u8, 11u8, 12u8, 13u8);
    let rejected: bool = kani::any();
    // `pre` = commands already in the perspective (concrete per case)
    let mut store = AStore::with_chain(&[g, a]);
    let mut ps = policies(if rejected { Some(c1) } else { None });
    let mut sink = ASink::new();
    let mut tb = TraversalBuffer::new();
    let mut trx: Trx = Transaction::new(gid(g));
    let mut p = APersp::new(Prior::Single(addr(a, 1)), Prior::Single(loc(0, 1)), 2);
    let parent_id = if pre == 1 {
        p.cmds[0] = c0;
        p.ncmd = 1;
        p.writes[0] = 1;
        c0
    } else {
        a
    };
    trx.perspective = Some(p);
    trx.phead = Some(cid(parent_id));
    let cmd = ACmd { id: c1, parent: Prior::Single(addr(parent_id, 1 + pre as u64)), has_policy: false, merge: false };
    let r = trx.add_single(&mut store, &mut ps, &mut sink, &cmd, addr(parent_id, 1 + pre as u64), &mut tb);
    let p2 = match &trx.perspective {
        Some(p) => *p,
        None => panic!("perspective vanished"),
    };
    assert!(store.write_calls == 0 && store.commit_calls == 0);
    match r {
        Ok(()) => {
            assert!(!rejected);
            assert!(p2.ncmd == pre + 1 && p2.cmds[pre] == c1);
            assert!(p2.writes[pre] == 1 && p2.reverts == 0);
            assert!(sink.commits == 1 && sink.rollbacks == 0 && sink.ncommitted == 1 && sink.committed[0] == c1);
            assert!(trx.phead == Some(cid(c1)));
            kani::cover!(pre == 1, "accepted onto a non-empty perspective");
        }
        Err(e) => {
            assert!(rejected);
            assert!(matches!(e, ClientError::PolicyError(PolicyError::Rejected)));
            assert!(p2.ncmd == pre && p2.reverts == 1 && p2.last_revert_index == pre);
            assert!(p2.pending_writes() == 0); // the write the rule made before failing is gone
            if pre == 1 {
                assert!(p2.cmds[0] == c0 && p2.writes[0] == 1); // the earlier command keeps its own write
            }
            assert!(sink.commits == 0 && sink.rollbacks == 1 && sink.ncommitted == 0);
            assert!(trx.phead == Some(cid(parent_id)));
            kani::cover!(pre == 1, "rejected after an accepted command");
            core::mem::forget(e);
        }
    }
    core::mem::forget(trx);
}


/// C09/C02 (duplicate delivery): b1 <- init, c1 <- init, b2 <- b1 are received in one
/// transaction, then ONE of the three (symbolic choice) is delivered again.  The duplicate must
/// not be applied again: the count does not grow, no effect is emitted twice, and the tips stay
/// {b2, c1}.
#[kani::proof]
#[kani::unwind(6)]
fn c09_duplicate_redelivery_is_ignored() {
    let (g, b1, c1, b2) = (10u8, 11u8, 12u8, 13u8);
    let which: u8 = kani::any();
    kani::assume(which < 3);
    let mut prov = AProvider::with(AStore::with_chain(&[g]), g);
    let mut ps = policies(None);
    let mut sink = ASink::new();
    let mut bufs: RuntimeBuffers<ASeg> = RuntimeBuffers::new();
    let mut trx: Trx = Transaction::new(gid(g));
    let kb1 = ACmd { id: b1, parent: Prior::Single(addr(g, 0)), has_policy: false, merge: false };
    let kc1 = ACmd { id: c1, parent: Prior::Single(addr(g, 0)), has_policy: false, merge: false };
    let kb2 = ACmd { id: b2, parent: Prior::Single(addr(b1, 1)), has_policy: false, merge: false };
    let r1 = trx.add_commands(&[kb1, kc1, kb2], &mut prov, &mut ps, &mut sink, &mut bufs, &MemSpill::new);
    assert!(matches!(r1, Ok(3)));
    assert!(sink.ncommitted == 3);
    let dup = if which == 0 { kb1 } else if which == 1 { kc1 } else { kb2 };
    let r2 = trx.add_commands(&[dup], &mut prov, &mut ps, &mut sink, &mut bufs, &MemSpill::new);
    match r2 {
        Ok(n) => assert!(n == 0, "C09: a re-delivered command was ingested a second time"),
        Err(_) => panic!("re-delivery of a known command failed"),
    }
    assert!(sink.ncommitted == 3, "C02: a re-delivered command's rule ran a second time");
    match trx.flush(&mut prov.store) {
        Ok(()) => {}
        Err(_) => panic!("flush failed"),
    }
    assert!(trx.heads.len() == 2);
    assert!(trx.heads.contains_key(&cid(b2)) && trx.heads.contains_key(&cid(c1)));
    kani::cover!(which == 1, "duplicate of a written tip");
    kani::cover!(which == 2, "duplicate of the in-flight command");
    core::mem::forget(r1);
    core::mem::forget(trx);
    core::mem::forget(bufs);
}

// ---------------------------------------------------------------- kernels for the two findings

/// C06 (finding B): the state add_single leaves behind when the FIRST command of a new
/// perspective is rejected is (empty in-flight perspective, phead = its parent) — shown by
/// c06_add_single_current_perspective with pre = 0.  From that state, with an earlier accepted
/// command `c1` already written as a tip, the flush that commit() starts with must succeed,
/// otherwise the accepted command can never commit.
#[kani::proof]
#[kani::unwind(6)]
fn c06_flush_after_rejected_branch_start() {
    let (g, a, c1) = (10u8, 11u8, 12u8);
    let mut store = AStore::with_chain(&[g, a]);
    // c1 <- a was accepted earlier in this transaction and written out as segment 1
    let mut s1 = ASeg::empty();
    s1.index = 1;
    s1.prior = Prior::Single(loc(0, 1));
    s1.first_mc = 2;
    s1.len = 1;
    s1.ids[0] = c1;
    store.segs[1] = s1;
    store.nseg = 2;
    let mut trx: Trx = Transaction::new(gid(g));
    trx.original_heads_offset = Some(HeadSetOffset::new(0));
    trx.heads.insert(cid(c1), loc(1, 2));
    // a command branching off `g` was rejected: empty perspective at g, phead = g
    let with_pending: bool = kani::any();
    let mut p = APersp::new(Prior::Single(addr(g, 0)), Prior::Single(loc(0, 0)), 1);
    if with_pending {
        // (cannot happen after a correct revert; included to show the verdict does not depend on it)
        p.writes[0] = 0;
    }
    trx.perspective = Some(p);
    trx.phead = Some(cid(g));
    let r = trx.flush(&mut store);
    assert!(r.is_ok(), "C06: flush after a rejected branch start fails, the accepted command cannot commit");
    assert!(trx.heads.contains_key(&cid(c1)));
    core::mem::forget(trx);
}

/// C09/C02 (finding A): while b2 <- b1 sits in the in-flight perspective (its parent tip b1 was
/// taken out of the tip map), the transaction must still be able to locate b1 — otherwise a
/// re-delivered b1 is ingested a second time.
#[kani::proof]
#[kani::unwind(6)]
fn c09_locate_parent_of_inflight_perspective() {
    let (g, b1, c1, b2) = (10u8, 11u8, 12u8, 13u8);
    let mut store = AStore::with_chain(&[g]);
    let mk = |idx: u64, id: u8| {
        let mut s = ASeg::empty();
        s.index = idx;
        s.prior = Prior::Single(loc(0, 0));
        s.first_mc = 1;
        s.len = 1;
        s.ids[0] = id;
        s
    };
    store.segs[1] = mk(1, b1);
    store.segs[2] = mk(2, c1);
    store.nseg = 3;
    let mut trx: Trx = Transaction::new(gid(g));
    trx.original_heads_offset = Some(HeadSetOffset::new(0));
    // state after receiving b1, c1, b2: tips = {c1}; b1 was removed when b2's perspective was created
    trx.heads.insert(cid(c1), loc(2, 1));
    let mut p = APersp::new(Prior::Single(addr(b1, 1)), Prior::Single(loc(1, 1)), 2);
    p.cmds[0] = b2;
    p.ncmd = 1;
    p.writes[0] = 1;
    trx.perspective = Some(p);
    trx.phead = Some(cid(b2));
    let which: u8 = kani::any();
    kani::assume(which < 3);
    let target = if which == 0 { addr(b1, 1) } else if which == 1 { addr(c1, 1) } else { addr(g, 0) };
    let mut tb = TraversalBuffer::new();
    let found = match trx.locate(&mut store, target, &mut tb) {
        Ok(f) => f,
        Err(_) => panic!("locate failed"),
    };
    // every command received so far in this transaction (or committed) must be locatable
    assert!(found.is_some(), "C09: a command already received in this transaction cannot be located (it would be ingested twice)");
    core::mem::forget(trx);
}

/// C08 kernel: the concurrent-commit stamp is captured when the transaction FIRST reads the heads
/// and is never refreshed by later add_commands calls (empty batches: no graph search involved).
/// A commit by somebody else before the first read does not count, one after it makes the stamp
/// stale for good.
#[kani::proof]
#[kani::unwind(6)]
fn c08_stamp_captured_once() {
    let (g, a) = (10u8, 11u8);
    let before: bool = kani::any();
    let between: bool = kani::any();
    let y0: u64 = kani::any();
    kani::assume(y0 < u64::MAX - 4);
    let mut store = AStore::with_chain(&[g, a]);
    store.offset = y0;
    let mut prov = AProvider::with(store, g);
    let mut ps = policies(None);
    let mut sink = ASink::new();
    let mut bufs: RuntimeBuffers<ASeg> = RuntimeBuffers::new();
    let mut trx: Trx = Transaction::new(gid(g));
    if before {
        prov.store.offset += 1;
    }
    let first = prov.store.offset;
    // A one-command batch whose command is already in the in-flight perspective: add_commands
    // skips it without any graph search.  (An EMPTY batch does not work: CBMC cannot fold the
    // emptiness test of a zero-length slice iterator and walks the loop body with garbage.)
    let mut p = APersp::new(Prior::Single(addr(a, 1)), Prior::Single(loc(0, 1)), 2);
    p.cmds[0] = 50;
    p.ncmd = 1;
    trx.perspective = Some(p);
    trx.phead = Some(cid(50));
    let none = [ACmd { id: 50, parent: Prior::Single(addr(a, 1)), has_policy: false, merge: false }];
    let r1 = trx.add_commands(&none, &mut prov, &mut ps, &mut sink, &mut bufs, &MemSpill::new);
    assert!(matches!(r1, Ok(0)));
    assert!(trx.original_heads_offset == Some(HeadSetOffset::new(first)));
    // the transaction starts from the committed heads
    assert!(trx.heads.len() == 1 && trx.heads.get(&cid(a)) == Some(&loc(0, 1)));
    if between {
        prov.store.offset += 1; // somebody else committed
    }
    let r2 = trx.add_commands(&none, &mut prov, &mut ps, &mut sink, &mut bufs, &MemSpill::new);
    assert!(matches!(r2, Ok(0)));
    // still the stamp of the FIRST read: commit() will (rightly) see it as stale iff `between`
    assert!(trx.original_heads_offset == Some(HeadSetOffset::new(first)));
    assert!((HeadSetOffset::new(prov.store.offset) != HeadSetOffset::new(first)) == between);
    kani::cover!(before & !between, "commit before the first read is not counted");
    kani::cover!(between, "intervening commit leaves the stamp stale");
    core::mem::forget(r1);
    core::mem::forget(r2);
    core::mem::forget(trx);
    core::mem::forget(bufs);
}
