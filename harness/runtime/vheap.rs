// Solver-friendly stand-in for `alloc::collections::BinaryHeap` (group `runtime-braid` only).
//
// WHY: std's BinaryHeap moves elements with ptr::copy/swap at data-dependent positions inside a
// growable Vec; under CBMC a two-element `pop` with symbolic ordering already runs out of memory
// (measured: braidk_strand_heap2, 14 GB).  The braid properties (C02/C03/C05) are about aranya's
// StrandHeap / Strand ordering / braid loop / convergence map, not about the heap container, so
// std's BinaryHeap is taken as trusted ("pop returns a maximal element w.r.t. Ord").
//
// WHAT: a fixed slab of HCAP slots; `push` fills the first free slot, `pop` removes a maximal
// element (ties: lowest slot — std makes no promise either; Strand keys are distinct).  Every
// slot access uses a CONCRETE index under a symbolic guard.  Exceeding HCAP panics (reported by
// Kani as a failed check, never silent).
#![allow(dead_code)]

pub const HCAP: usize = 4;

pub struct BinaryHeap<T> {
    slots: [Option<T>; HCAP],
}

impl<T> BinaryHeap<T> {
    pub const fn new() -> Self {
        Self { slots: [None, None, None, None] }
    }
    pub fn clear(&mut self) {
        let mut i = 0;
        while i < HCAP {
            self.slots[i] = None;
            i += 1;
        }
    }
    pub fn len(&self) -> usize {
        let mut n = 0;
        let mut i = 0;
        while i < HCAP {
            if self.slots[i].is_some() {
                n += 1;
            }
            i += 1;
        }
        n
    }
    pub fn is_empty(&self) -> bool {
        self.len() == 0
    }
    pub fn iter(&self) -> impl Iterator<Item = &T> {
        self.slots.iter().flatten()
    }
}

impl<T: Ord> BinaryHeap<T> {
    pub fn push(&mut self, item: T) {
        let mut item = Some(item);
        let mut i = 0;
        while i < HCAP {
            if item.is_some() && self.slots[i].is_none() {
                self.slots[i] = item.take();
            }
            i += 1;
        }
        if item.is_some() {
            panic!("harness BinaryHeap capacity exceeded (outside the stated bound)");
        }
    }
    pub fn pop(&mut self) -> Option<T> {
        // index of a maximal element
        let mut best = HCAP;
        let mut i = 0;
        while i < HCAP {
            if self.slots[i].is_some() {
                if best == HCAP {
                    best = i;
                } else {
                    // compare slots[i] with slots[best] (best is symbolic: compare against each candidate)
                    let mut j = 0;
                    let mut greater = false;
                    while j < i {
                        if j == best {
                            if let (Some(a), Some(b)) = (&self.slots[i], &self.slots[j]) {
                                greater = a > b;
                            }
                        }
                        j += 1;
                    }
                    if greater {
                        best = i;
                    }
                }
            }
            i += 1;
        }
        let mut out = None;
        let mut i = 0;
        while i < HCAP {
            if i == best {
                out = self.slots[i].take();
            }
            i += 1;
        }
        out
    }
}
