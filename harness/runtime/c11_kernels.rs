// C11 part (b) — arithmetic / producer kernels of command lookup in the linear storage.
// Child module of aranya_runtime::storage::linear (sees SegmentRepr, CommandData,
// skip_target_boundaries and the private fields of LinearSegment).
//
//  * skip_target_boundaries(n) for EVERY u64 n
//  * SegmentRepr::cmd_index for every (first max cut, queried max cut) pair of u64
//  * LinearSegment::{get_command, longest_max_cut, shortest_max_cut, first_location,
//    head_location, head_address, head_id, get_by_address, previous} on a directly constructed
//    segment of 1..=3 commands whose first max cut is any u64 (incl. near u64::MAX)
use alloc::{boxed::Box, vec::Vec};

use super::*;

/// A reader that is never consulted by the functions under test (they only look at `repr`).
#[derive(Clone)]
struct NoRead;

impl Read for NoRead {
    fn fetch<T>(&self, _offset: u64) -> Result<T, StorageError>
    where
        T: serde::de::DeserializeOwned,
    {
        Err(StorageError::IoError)
    }
}

// ---------------------------------------------------------------------------------------------
// skip_target_boundaries
// ---------------------------------------------------------------------------------------------

/// For every n: never an error (an error would be `buggy::Bug`, a panic under Kani); boundaries
/// strictly ascending, each `< n`, the first is n/2, each next one halves the remaining gap, the
/// gap after the last one is <= MIN_SKIP_GAP (=10) and the gap after every earlier one is
/// > MIN_SKIP_GAP; empty exactly when n < 2.  `max_len` = the longest list possible for the range
/// of n under test.
fn check_skip_target_boundaries(n: u64, max_len: usize) {
    let t = match skip_target_boundaries(n) {
        Ok(t) => t,
        Err(_) => panic!("skip_target_boundaries returned an error"),
    };
    let len = t.len();
    assert!(len <= max_len);
    assert!((len == 0) == (n < 2));
    if len > 0 {
        assert!(t[0].get() == n / 2);
        let last = t[len - 1].get();
        assert!(last < n);
        assert!(n - last <= MIN_SKIP_GAP);
    }
    // universally quantified index
    let i: usize = kani::any();
    if i < len {
        let b = t[i].get();
        assert!(b > 0 && b < n);
        if i + 1 < len {
            let nb = t[i + 1].get();
            assert!(b < nb);
            assert!(n - b > MIN_SKIP_GAP);
            assert!(nb == b + (n - b) / 2);
            kani::cover!(i + 2 == max_len, "a list of the maximal length for this range");
        }
    }
    kani::cover!(len == 0, "no boundaries");
    kani::cover!(len == 1, "one boundary");
    kani::cover!(len == max_len, "longest list");
    kani::cover!((len == 2) & (n == 21), "10-command threshold: 21 -> [10, 15]");
    kani::cover!((len == 1) & (n == 20), "10-command threshold: 20 -> [10]");
    core::mem::forget(t);
}

/// n < 2^12 (covers every threshold around the 10-command gap and the first halving boundaries).
#[kani::proof]
#[kani::unwind(12)]
fn c11_skip_target_boundaries_small() {
    let n: u64 = kani::any();
    kani::assume(n < (1 << 12));
    check_skip_target_boundaries(n, 9);
}

/// n < 2^20.
#[kani::proof]
#[kani::unwind(20)]
fn c11_skip_target_boundaries_2p20() {
    let n: u64 = kani::any();
    kani::assume(n < (1 << 20));
    check_skip_target_boundaries(n, 17);
}

// ---------------------------------------------------------------------------------------------
// direct construction of a segment
// ---------------------------------------------------------------------------------------------

fn any_id() -> CmdId {
    let b: [u8; 32] = kani::any();
    CmdId::from_bytes(b)
}

fn any_loc() -> Location {
    let s: u64 = kani::any();
    let m: u64 = kani::any();
    Location::new(SegmentIndex::new(s), MaxCut::new(m))
}

fn any_addr() -> Address {
    let m: u64 = kani::any();
    Address {
        id: any_id(),
        max_cut: MaxCut::new(m),
    }
}

/// `k` commands (concrete k >= 1) with symbolic ids, symbolic offset, symbolic first max cut,
/// symbolic single parent. Payloads are empty boxes (not inspected here).
fn any_segment(k: usize) -> LinearSegment<NoRead> {
    any_segment_ids(k, true)
}

/// `sym_ids == false`: all-zero command ids (for harnesses that identify commands by reference and
/// need a small unwind bound: no 32-byte loops).
fn any_segment_ids(k: usize, sym_ids: bool) -> LinearSegment<NoRead> {
    let mut cmds: Vec<CommandData> = Vec::with_capacity(k + 1);
    let mut i = 0;
    while i < k {
        let p: u32 = kani::any();
        cmds.push(CommandData {
            id: if sym_ids { any_id() } else { CmdId::default() },
            priority: Priority::Basic(p),
            policy: None,
            data: Box::new([]),
            updates: Vec::new(),
        });
        i += 1;
    }
    let commands: Vec1<CommandData> = match Vec1::try_from_vec(cmds) {
        Ok(c) => c,
        Err(_) => panic!("k >= 1"),
    };
    let off: u64 = kani::any();
    let first: u64 = kani::any();
    let pol: u64 = kani::any();
    let repr = SegmentRepr {
        offset: SegmentIndex::new(off),
        prior: Prior::Single(any_loc()),
        parents: if sym_ids {
            Prior::Single(any_addr())
        } else {
            Prior::None
        },
        policy: PolicyId::new(pol),
        facts: 0,
        prior_facts: None,
        commands,
        max_cut: MaxCut::new(first),
        skip_list: Vec::new(),
    };
    LinearSegment {
        repr,
        reader: NoRead,
    }
}

/// Id equality without a 32-iteration comparison loop: equal at a universally quantified byte.
fn same_id_at(a: &CmdId, b: &CmdId, j: usize) -> bool {
    a.as_array()[j] == b.as_array()[j]
}

// ---------------------------------------------------------------------------------------------
// cmd_index
// ---------------------------------------------------------------------------------------------

#[kani::proof]
#[kani::unwind(34)]
fn c11_cmd_index_all_u64() {
    let seg = any_segment(1);
    let first = seg.repr.max_cut.get();
    let q: u64 = kani::any();
    match seg.repr.cmd_index(MaxCut::new(q)) {
        Ok(idx) => {
            assert!(q >= first);
            assert!(idx as u64 == q - first);
            kani::cover!(idx as u64 == u64::MAX, "largest distance");
            kani::cover!(idx == 0, "first command");
        }
        Err(StorageError::CommandOutOfBounds(l)) => {
            assert!(q < first);
            assert!(l.segment == seg.repr.offset && l.max_cut.get() == q);
            kani::cover!(q + 1 == first, "just below the segment");
        }
        Err(_) => panic!("unexpected error kind"),
    }
    core::mem::forget(seg);
}

// ---------------------------------------------------------------------------------------------
// get_command / longest_max_cut / derived lookups
// ---------------------------------------------------------------------------------------------

/// Commands are identified by reference (LinearCommand borrows its id from the segment) and
/// copied ids are compared at a universally quantified byte position `j`, so this harness has no
/// 32-iteration loops and runs with a small unwind bound.
fn get_command_case(k: usize) {
    let seg = any_segment(k);
    let first = seg.repr.max_cut.get();
    let off = seg.repr.offset;
    let j: usize = kani::any();
    kani::assume(j < 32);
    // Segment invariant (assumed): the max cut of the last command is representable, i.e.
    // first + k - 1 <= u64::MAX. (For a segment violating it the code produces `buggy::Bug`,
    // which by design of that crate is a panic in debug builds and an error in release builds;
    // max cuts grow by one per command from 0, so this needs 2^64 commands.)
    kani::assume(first.checked_add(k as u64 - 1).is_some());
    let last = first + (k as u64 - 1);

    // longest / shortest / first / head
    assert!(seg.shortest_max_cut().get() == first);
    let fl = seg.first_location();
    assert!(fl.segment == off && fl.max_cut.get() == first);
    assert!(seg.index() == off);
    assert!(same_id_at(&seg.head_id(), &seg.repr.commands[k - 1].id, j));
    match seg.longest_max_cut() {
        Ok(l) => {
            assert!(l.get() == last);
            kani::cover!(l.get() == u64::MAX, "segment ends exactly at u64::MAX");
        }
        Err(_) => panic!("longest_max_cut failed on a valid segment"),
    }
    match seg.head_location() {
        Ok(l) => assert!(l.segment == off && l.max_cut.get() == last),
        Err(_) => panic!("head_location failed on a valid segment"),
    }
    match seg.head_address() {
        Ok(a) => {
            assert!(a.max_cut.get() == last);
            assert!(same_id_at(&a.id, &seg.repr.commands[k - 1].id, j));
        }
        Err(_) => panic!("head_address failed on a valid segment"),
    }

    // get_command at an arbitrary location
    let loc = any_loc();
    let q = loc.max_cut.get();
    let in_range = loc.segment == off && q >= first && q - first < k as u64;
    match seg.get_command(loc) {
        Some(cmd) => {
            assert!(in_range);
            let idx = (q - first) as usize;
            // it IS the idx-th command of the segment
            assert!(core::ptr::eq(cmd.id, &seg.repr.commands[idx].id));
            assert!(cmd.priority == seg.repr.commands[idx].priority);
            match cmd.parent {
                Prior::Single(a) => {
                    if idx == 0 {
                        match seg.repr.parents {
                            Prior::Single(want) => {
                                assert!(same_id_at(&a.id, &want.id, j) && a.max_cut == want.max_cut)
                            }
                            _ => panic!("parents of the segment expected"),
                        }
                        kani::cover!(k >= 2, "first command: parents of the segment");
                    } else {
                        // the predecessor inside the segment, one max cut lower
                        assert!(same_id_at(&a.id, &seg.repr.commands[idx - 1].id, j));
                        assert!(a.max_cut.get() == q - 1);
                        kani::cover!(q == u64::MAX, "command at max cut u64::MAX");
                        kani::cover!(idx + 1 == k, "last command of the segment");
                    }
                }
                _ => panic!("single parent expected"),
            }
        }
        None => {
            assert!(!in_range);
            kani::cover!(loc.segment != off, "other segment");
            kani::cover!((loc.segment == off) & (q < first), "below the segment");
            kani::cover!((loc.segment == off) & (q >= first), "above the segment");
        }
    }

    // previous: one max cut lower while still inside the segment
    let pm: u64 = kani::any();
    let p = Location::new(off, MaxCut::new(pm));
    match seg.previous(p) {
        Some(l) => {
            assert!(pm > first);
            assert!(l.segment == off && l.max_cut.get() == pm - 1);
        }
        None => assert!(pm <= first),
    }
    core::mem::forget(seg);
}

#[kani::proof]
#[kani::unwind(5)]
fn c11_get_command_direct_k12() {
    get_command_case(1);
    get_command_case(2);
}

#[kani::proof]
#[kani::unwind(6)]
fn c11_get_command_direct_k34() {
    get_command_case(3);
    get_command_case(4);
}

/// get_by_address: found exactly when the address names a command of this segment (the real
/// code compares the 32-byte ids: unwind 34).
fn get_by_address_case(k: usize) {
    let seg = any_segment(k);
    let first = seg.repr.max_cut.get();
    let off = seg.repr.offset;
    kani::assume(first.checked_add(k as u64 - 1).is_some());
    let a = any_addr();
    let aq = a.max_cut.get();
    let a_in = aq >= first && aq - first < k as u64;
    match seg.get_by_address(a) {
        Some(l) => {
            assert!(a_in);
            assert!(l.segment == off && l.max_cut == a.max_cut);
            assert!(seg.repr.commands[(aq - first) as usize].id == a.id);
            kani::cover!(true, "address found");
        }
        None => {
            if a_in {
                assert!(seg.repr.commands[(aq - first) as usize].id != a.id);
                kani::cover!(true, "max cut in range but different id");
            }
            kani::cover!(!a_in, "max cut outside the segment");
        }
    }
    core::mem::forget(seg);
}

#[kani::proof]
#[kani::unwind(34)]
fn c11_get_by_address_direct_k12() {
    get_by_address_case(1);
    get_by_address_case(2);
}

#[kani::proof]
#[kani::unwind(34)]
fn c11_get_by_address_direct_k3() {
    get_by_address_case(3);
}

/// Segment::get_from (used by the sync responder): exactly the commands from the location to the
/// end of the segment, in order. Commands are identified by reference (LinearCommand borrows the
/// id from the segment), so no id comparison loop is needed and the unwind bound can be k + 3:
/// get_from is an unbounded `successors` iterator cut by `map_while`, which CBMC must unroll.
fn get_from_case(k: usize) {
    let seg = any_segment_ids(k, false);
    let first = seg.repr.max_cut.get();
    let off = seg.repr.offset;
    // segment invariant, see get_command_case
    kani::assume(first.checked_add(k as u64 - 1).is_some());
    let loc = any_loc();
    let q = loc.max_cut.get();
    let in_range = loc.segment == off && q >= first && q - first < k as u64;
    let v = seg.get_from(loc);
    if in_range {
        let idx = (q - first) as usize;
        assert!(v.len() == k - idx);
        let j: usize = kani::any();
        if j < v.len() {
            assert!(core::ptr::eq(v[j].id, &seg.repr.commands[idx + j].id));
        }
        kani::cover!(v.len() == k, "whole segment");
        kani::cover!((v.len() == 1) & (q == u64::MAX), "tail ending at u64::MAX");
    } else {
        assert!(v.is_empty());
        kani::cover!(true, "outside: nothing");
    }
    core::mem::forget(v);
    core::mem::forget(seg);
}

#[kani::proof]
#[kani::unwind(5)]
fn c11_get_from_direct_1() {
    get_from_case(1);
}

#[kani::proof]
#[kani::unwind(6)]
fn c11_get_from_direct_2() {
    get_from_case(2);
}

#[kani::proof]
#[kani::unwind(7)]
fn c11_get_from_direct_3() {
    get_from_case(3);
}
