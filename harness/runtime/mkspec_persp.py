#!/usr/bin/env python3
"""Regenerates checks/C12.json, checks/C13.json, checks/C14.json (kept next to the harnesses so the
long --unwindset loop names live in one place). Run:  python3 harness/runtime/mkspec_persp.py"""
import json
import os

VERIF = os.path.dirname(os.path.dirname(os.path.dirname(os.path.abspath(__file__))))

# Loops whose trip count CBMC cannot see (slice lengths read back from heap objects); bounded
# per loop so that the global unwind (needed for the model loops of the harness) does not
# multiply them. Unwinding assertions stay on: a wrong bound is a FAILURE, not a silent cut.
# If a name stops matching (toolchain change) CBMC silently falls back to the global bound:
# slower, never unsound.
DG = "_RINvNtCs8xvirJzNMvV_4core3ptr9drop_glueSINtNtCs6xMQmN1AWUs_5alloc5boxed3BoxShEECs6qibz2J5iDx_14aranya_runtime.0"
CH = ("_RINvNtNtCs8xvirJzNMvV_4core5slice3cmp13chaining_implINtNtCs6xMQmN1AWUs_5alloc5boxed3BoxShENtNtB6_3cmp8Ordering"
      "NtNtB6_7convert10InfallibleNCNvXs7_B2_BO_NtB2_8SliceOrd7compare0NCB2d_s_0ECs6qibz2J5iDx_14aranya_runtime.0")
TV = ("_RINvXNvMNtCs6xMQmN1AWUs_5alloc5sliceSp9to_vec_inINtNtB8_5boxed3BoxShENtB3_10ConvertVec6to_vecNtNtB8_5alloc6Global"
      "ECs6qibz2J5iDx_14aranya_runtime.0")


EQ = ("_RNvXs2_NtNtCs8xvirJzNMvV_4core5slice3cmpINtNtCs6xMQmN1AWUs_5alloc5boxed3BoxShEINtB5_14SlicePartialEqBC_E17equal_same_length"
      "Cs6qibz2J5iDx_14aranya_runtime.0")
# `while let Some(facts) = prior` in <LinearFactIndex<VRead> as Query>::query: one iteration per chained index (<= 3)
IQ = "_RNvXsb_NtNtCs6qibz2J5iDx_14aranya_runtime7storage6linearINtB5_15LinearFactIndexNtNtB5_13___verif_facts5VReadENtB7_5Query5queryB9_.0"


# `loop { .. }` of the session merge iterator's next(): at most (#session items + 1) iterations per call
QM = ("_RNvXs3_NtNtCs6qibz2J5iDx_14aranya_runtime6client7sessionINtB5_13QueryIteratorNtNtB5_23___verif_session_overlay5PIterNtB1f_5CIter"
      "ENtNtNtNtCs8xvirJzNMvV_4core4iter6traits8iterator8Iterator4nextB9_.0")
QY = ("_RNvXs3_NtNtCs6qibz2J5iDx_14aranya_runtime6client7sessionINtB5_13QueryIteratorNtNtB5_23___verif_session_overlay5VIterINtB5_8YokeIter"
      "NtB5_10PrefixIterINtNtCs6xMQmN1AWUs_5alloc4sync3ArcINtNtB9_6___vmap8BTreeMapNtNtB2r_6string6StringIB2V_NtNtB9_7storage4KeysINtNtCs8xvirJzNMvV_"
      "4core6option6OptionINtNtB2r_5boxed3BoxShEEEEEEENtNtNtNtB49_4iter6traits8iterator8Iterator4nextB9_.0")


def args(mem, comps):
    """mem: memcmp bound (3 = byte strings of <= 2 bytes, 33 = 32-byte command ids);
    comps: max components per compound key."""
    return ["--no-memory-safety-checks", "--cbmc-args", "--unwindset",
            f"memcmp.0:{mem},{DG}:{comps + 1},{CH}:{comps + 1},{TV}:{comps + 1},{EQ}:{comps + 1},{IQ}:4,{QM}:4,{QY}:4"]


S3, S33, X3, X33 = args(3, 1), args(33, 1), args(3, 2), args(33, 2)
Q, T = "quick", "thorough"


def h(name, tier, what, bounds, a=None, timeout=None):
    d = {"name": name, "tier": tier, "what": what, "bounds": bounds, "kani_args": S3 if a is None else a}
    if timeout:
        d["timeout_s"] = timeout
    return d


COMMON_ASSUME = [
    "std alloc::collections::BTreeMap is REPLACED (group runtime_vmap: literal, exact-count rewrites of the BTreeMap/btree_map imports "
    "in storage/linear/mod.rs and client/session.rs) by the harness ordered map harness/runtime/vmap.rs (fixed-capacity slab, CAP=3 "
    "entries per map, same API subset, ordered views by ranking keys with Ord::cmp; clear/retain/remove leak instead of drop). The "
    "stand-in is checked against the ordered-map specification by vmap_point_ops_step and vmap_ordered_views (unit of C13). Reason "
    "(measured): with the real B-tree a single insert+revert+query on LinearPerspective exceeds 14 GB / does not leave symbolic "
    "execution.",
    "Kani default memory-safety checks are switched off (--no-memory-safety-checks) for these harnesses: the properties are "
    "functional; pointer/bounds checks inside alloc/core roughly double CBMC's cost. Assertions, overflow checks and unwinding "
    "assertions stay on.",
    "vectors whose elements the code under test reads back and clones (commands[..i].updates for revert, Session::fact_log) are "
    "Vec::from_raw_parts over STACK arrays of the harness (never reallocated/freed; everything is mem::forget-ed): with heap vectors "
    "CBMC loses the lengths of the stored String/Keys/Bytes and every clone becomes a symbolic-size allocation (measured: >14 GB). "
    "The Vec API seen by the code is unchanged.",
    "pre-states are built field by field; assumed about them only: keys inside one map are pairwise distinct (map invariant), "
    "no tombstone is stored in a map that has no prior (representation invariant of LinearFactPerspective, established by "
    "insert/delete/apply_updates: checked by the *_noprior / no_prior harnesses), total number of distinct keys <= 3 (slab capacity)",
]
COMMON_TRUST = [
    "std BTreeMap implements an ordered map (replaced by harness OrdMap `vmap.rs`, which is checked separately)",
    "harness environments: VFacts (sorted committed fact table implementing Query as documented), VRead (fetch returns the FactIndexRepr "
    "described by the harness instead of deserializing bytes)",
]

# ---------------------------------------------------------------------------------------------
C13 = {
    "id": "C13",
    "level": "other",
    "units": [{
        "group": "runtime_vmap", "timeout_s": 1200,
        "harnesses": [
            h("vmap_point_ops_step", Q, "slab map vs ordered-map spec: insert/remove/entry/get_mut/retain/clear from any slab", "any slab of <=3 entries, keys 0..5", []),
            h("vmap_ordered_views", Q, "slab map vs ordered-map spec: range (all Bound kinds)/iter/into_iter ascending and exact", "any slab of <=3 entries, keys 0..5", []),
            h("c13_linear_write_step_prior_small", Q, "insert/delete from any state: visible facts change exactly at the key; write appended to current_updates", "top<=1, prior perspective<=1 entries, 1 pending write, 3 keys"),
            h("c13_linear_write_step_prior_full", T, "same", "top<=2, prior<=2, 1 pending write"),
            h("c13_linear_write_step_noprior", Q, "same, no prior (delete removes instead of storing a tombstone)", "top<=2, 1 pending write"),
            h("c13_linear_write_step_prefix", T, "same, observed through query_prefix", "top<=1, prior<=2"),
            h("c13_linear_revert_step_failed_rule_fresh", Q, "failed rule on a fresh perspective (no command, no prior): revert(0) with 1 pending write and an arbitrary overlay", "0 commands, 1 pending write, garbage top<=1"),
            h("c13_linear_revert_step_failed_rule_cmd", Q, "Transaction::add_single situation: revert(1) with 1 command and 1 pending write of a failed rule, arbitrary overlay: command kept, nothing pending, facts = base;command updates", "commands [1 update], checkpoint 1, garbage top<=1, prior<=1"),
            h("c13_linear_revert_step_drop_cmd", Q, "revert(0) drops the command and the pending write: facts = base", "commands [1], checkpoint 0, prior<=1"),
            h("c13_linear_revert_step_nothing_pending", Q, "revert at equal command count with nothing pending: early return leaves everything unchanged", "commands [1], checkpoint 1, 0 pending"),
            h("c13_linear_revert_step_two_cmds_keep1", T, "revert(1) over two commands", "commands [2,1] updates, 1 pending, prior<=2"),
            h("c13_linear_revert_step_two_cmds_keep2", T, "revert(2): failed rule after two commands", "commands [2,1], 1 pending, prior<=2"),
            h("c13_linear_revert_step_two_cmds_noprior", T, "revert(1) without prior (replayed deletes remove)", "commands [2,1], 1 pending"),
            h("c13_linear_revert_step_prefix", T, "revert(1) observed through query_prefix", "commands [1,1], 1 pending, prior<=1"),
            h("c13_linear_add_command_step_first", Q, "real add_command as first command: pending writes move into the command, head/checkpoint/includes follow; wrong parent refused", "0 commands, 1 pending", S33),
            h("c13_linear_add_command_step_third", Q, "same with two earlier commands", "2 commands, 1 pending", S33),
            h("c13_linear_history3", T, "cross-check: symbolic 3-operation histories {write, commit, clean checkpoint, revert} vs shadow model", "3 ops, prior<=1"),
            h("c13_linear_checkpoint_with_pending_writes", Q, "LITERAL statement: checkpoint taken while a write is pending, then revert (public API only)", "insert; checkpoint; [insert]; revert; query"),
            h("c13_session_revert_step_small", Q, "SessionPerspective::revert(1) from any state (current_facts garbage, Arc shared or not): fact_log[..1], queries = base;log[..1]", "base<=1, log 2, garbage<=1"),
            h("c13_session_revert_step_to_empty", Q, "revert(0): all session writes discarded, queries = base", "base<=1, log 2, garbage<=1"),
            h("c13_session_revert_step_noop", Q, "revert(len): nothing changes", "base<=1, log 2"),
            h("c13_session_revert_step_full", T, "revert(2) of a 3-entry log", "base<=2, log 3, garbage<=2"),
            h("c13_session_revert_step_prefix", T, "revert(1) observed through query_prefix", "base<=2, log 2"),
            h("c13_session_history3", T, "cross-check: symbolic 3-operation session histories {write, checkpoint (also with pending writes), revert}", "3 ops, base<=1"),
        ],
    }],
    "functions_encoded": [
        "LinearPerspective::{insert, delete, checkpoint, revert, add_command, head_address, includes, query, query_prefix}",
        "LinearFactPerspective::{insert, delete, clear, apply_updates, query, query_prefix_inner}", "find_prefixes", "linear::QueryIterator::next",
        "SessionPerspective::{checkpoint, revert, insert, delete, query, query_prefix, head_address}", "session::QueryIterator::next", "PrefixIter::{new,next}", "YokeIter::next",
        "Keys/Bytes Ord, Clone, Drop (real)", "harness OrdMap (vmap.rs) in place of BTreeMap",
    ],
    "bounds": [
        "one fact name; key alphabet 3 keys ([c], one 1-byte component), values 1 byte",
        "checkpoint index enumerated concretely (one harness per value); perspective states: <=2 commands x <=2 updates, <=1 pending write, fact map <=2 entries (values/tombstones) in any slot layout, prior = none or in-memory perspective with <=2 entries",
        "session states: base <=2 facts, fact_log <=3 entries, current_facts <=2 arbitrary entries",
        "global unwind 5 (linear) / 7 (session) + per-loop unwindset; unwinding assertions on",
    ],
    "assumptions": COMMON_ASSUME + [
        "inductive composition (on paper, stated in harness/runtime/revert.rs): Inv = visible facts == base ; all logged updates. write/add_command/revert steps preserve Inv from ANY state; at a checkpoint with no pending write Inv gives facts == base;commands[..i].updates, which is exactly what revert(i) re-establishes. c13_linear_history3 / c13_session_history3 cross-check short histories without assuming Inv.",
        "c13_linear_history3 replaces add_command by its data movement (commands.push with the taken updates); the real add_command is covered by c13_linear_add_command_step_*",
    ],
    "outside_claim": [
        "prior = committed FactIndex behind the perspective (covered for queries by C12; revert does not touch the prior)",
        "more than 3 distinct keys / more than 2 commands per state (loops have no size-dependent branch)",
        "the real std BTreeMap (trusted, see assumptions)",
        "Session::action/receive rollback on failure: decided under C14",
    ],
    "trusted_base": COMMON_TRUST,
    "level_text": "Bounded inductive proof by CBMC over the real revert/insert/delete/add_command code: one operation from an arbitrary (field-by-field constructed) state is compared with a flat map model; revert(i) is shown to keep exactly commands[..i] (linear) / fact_log[..i] (session), to leave nothing pending, and to rebuild the visible facts as base;retained updates from an overlay that is arbitrary garbage - when writes of a failed rule are pending at equal command count, when commands are dropped, and when the session overlay Arc is shared; at equal count with nothing pending nothing changes. Because pre-states are arbitrary, the steps compose (argument written in harness/runtime/revert.rs) to histories of any length within the size bound. The LITERAL statement (a checkpoint taken while writes are pending) is a separate harness and FAILS for LinearPerspective: recorded as known finding (native test in findings/).",
    "level_note": "Trusted: Kani/CBMC; std BTreeMap replaced by harness OrdMap (checked separately by vmap_* harnesses); memory-safety checks off; vectors read back by revert live in stack buffers; sizes as in bounds. KNOWN FINDING: LinearPerspective::checkpoint records only commands.len(), so a checkpoint taken while fact writes are pending makes revert drop the pre-checkpoint writes too (harness c13_linear_checkpoint_with_pending_writes; in-tree callers only checkpoint with nothing pending). The session half relies on C14 for 'a session write changes exactly its key and is logged', which CBMC could NOT decide (see C14 outside_claim): for SessionPerspective the write step is by inspection (two lines: fact_log.push + map insert).",
}

C13["explanation"] = (
    "Decided kernel (solver, real code, arbitrary pre-states within the size bound): for the graph perspective every ingredient of "
    "'revert to a checkpoint taken with no write pending is exact' - writes change exactly their key and are logged, add_command moves "
    "the pending writes into the command and refuses a wrong parent without change, revert(i) keeps commands[..i], clears the pending "
    "writes of a failed rule and rebuilds the facts as base;retained updates from any (stale) overlay; for the session revert(i) keeps "
    "fact_log[..i] and rebuilds the overlay from it (Arc shared or not). Not decided by the solver: (a) the statement's literal "
    "quantifier includes checkpoints taken while writes are pending; there LinearPerspective::revert is NOT exact (known finding, "
    "harness c13_linear_checkpoint_with_pending_writes fails as recorded; SessionPerspective is exact there: its checkpoint is the log "
    "length); (b) that a session write keeps current_facts == replay(fact_log) (C14 write-step harnesses exceed 14 GB; two-line "
    "function, by inspection); (c) direct multi-operation histories (time out); the composition of the steps is a paper argument "
    "written in harness/runtime/revert.rs.")

# ---------------------------------------------------------------------------------------------
C14 = {
    "id": "C14",
    "level": "other",
    "units": [{
        "group": "runtime_vmap", "timeout_s": 1200,
        "harnesses": [
            h("c14_overlay_exact_small", Q, "exact query of ANY (base, current_facts) = base overlaid with the session entries (tombstone hides)", "base<=2, overlay<=2, 3 keys"),
            h("c14_overlay_exact_full", T, "same", "base<=3, overlay<=3"),
            h("c14_overlay_exact_mixed", T, "same, compound keys that are prefixes of one another", "base<=2, overlay<=2, 6 keys of 1-2 components", X3),
            h("c14_overlay_prefix_small", Q, "query_prefix of ANY (base, current_facts): ascending keys, exactly the model's bindings under the prefix, no tombstone, no duplicate", "base<=2, overlay<=2, prefixes [] and [c]"),
            h("c14_overlay_prefix_full", T, "same", "base<=3, overlay<=3"),
            h("c14_overlay_prefix_mixed", T, "same, compound keys / real prefixes", "base<=2, overlay<=2, 6 keys, 7 prefixes", X3),
            h("c14_write_step_small", Q, "session insert/delete from any state: exactly the written key changes, fact_log appended, checkpoint index follows", "base<=1, overlay<=1, log 1"),
            h("c14_write_step_full", T, "same", "base<=2, overlay<=2, log 1"),
            h("c14_write_step_prefix", T, "same, observed through query_prefix", "base<=2, overlay<=1"),
            h("c14_write_step_mixed", T, "same, compound keys", "base<=1, overlay<=1", X3),
            h("c14_merge_iter_small", Q, "real session QueryIterator over ANY sorted committed iterator and ANY sorted session iterator: ascending, newest value, no tombstone, no duplicate, nothing missing", "2 committed + 2 session items, 3 keys"),
            h("c14_merge_iter_full", T, "same", "3 + 3 items"),
            h("c14_merge_iter_mixed", T, "same, compound keys", "3 + 3 items, 6 keys", X3),
            h("c14_prefix_iter_small", Q, "real PrefixIter over ANY overlay map and ANY prefix: exactly the entries under the prefix, ascending (tombstones included)", "<=3 entries, prefixes [] and [c]"),
            h("c14_prefix_iter_mixed", T, "same, compound keys that are prefixes of one another", "<=3 entries, 6 keys, 7 prefixes", X3),
            h("c14_overlay_prefix_min", Q, "full stack query_prefix (base index + Arc/Yoke/PrefixIter + merge), minimal size", "base<=1, overlay<=1"),
            h("c14_write_step_min", Q, "session insert/delete on an empty overlay", "base<=1, overlay empty, log empty"),
            h("c14_action_step_min", Q, "real Session::action, failing/succeeding policy, minimal size", "base<=1, log empty, script 1 write", S33),
            h("c14_receive_step_min", Q, "real Session::receive, failing/succeeding rule, minimal size", "base<=1, log empty, script 1 write", S33),
            h("c14_action_step_small", Q, "real Session::action with a policy that (optionally publishes,) writes and then accepts or REJECTS: failure leaves every query and fact_log unchanged and rolls both sinks back; success = base;log;script", "base<=1, log 1, script 1 write", S33),
            h("c14_action_step_full", T, "same", "base<=2, log 1, script 2 writes", S33),
            h("c14_action_step_prefix", T, "same, observed through query_prefix", "base<=2, log 1, script 1", S33),
            h("c14_receive_step_small", Q, "real Session::receive (deserialize + call_rule) with a failing/succeeding rule", "base<=1, log 1, script 1 write", S33),
            h("c14_receive_step_full", T, "same", "base<=2, log 1, script 2 writes", S33),
        ],
    }],
    "functions_encoded": [
        "Session::{action, receive}", "SessionCommand::{deserialize, from_cmd, serialize}", "session_parent",
        "SessionPerspective::{query, query_prefix, insert, delete, checkpoint, revert, add_command, head_address}",
        "session::QueryIterator::{new,next}", "PrefixIter::{new,next}", "YokeIter::{new,next}", "yoke::Yoke::{attach_to_cart, map_project}", "Arc::{make_mut, get_mut, clone}",
        "harness OrdMap (vmap.rs) in place of BTreeMap",
    ],
    "bounds": [
        "one fact name (+ one absent name); committed facts: any strictly ascending table of <=3 facts; session overlay: <=3 entries (value or tombstone) in any slot layout",
        "keys: 3 single-component keys (small/full) or the 6 compound keys [0]<[0,0]<[0,1]<[1]<[1,0]<[1,1] (mixed); values 1 byte",
        "Session::action/receive: policy script of <=2 writes, symbolic verdict, optional publish; pre-state satisfies Inv (current_facts == replay(fact_log)), log 1 entry",
        "global unwind 7 + per-loop unwindset; unwinding assertions on",
    ],
    "assumptions": COMMON_ASSUME + [
        "the committed fact index (Storage::FactIndex) answers query/query_prefix as the Query trait documents (exact match; prefix matches in ascending key order, Ok items): harness VFacts; LinearFactIndex itself is decided under C12",
        "for Session::action/receive the pre-state satisfies current_facts == replay(fact_log) (established by c14_write_step_* / c13_session_revert_step_*)",
        "'no session operation changes the graph's heads or facts' is by signature: Session::{action,receive} take &ClientState and Session holds no storage handle; not a solver obligation",
    ],
    "outside_claim": [
        "base iterators that yield Err items (error propagation order)", "Session::new (reads fact_cache/heads from storage)",
        "policies that call add_command with a non-session parent (Bug path panics under Kani)", "more than 3 session entries per fact name",
        "the real std BTreeMap (trusted, see assumptions)",
    ],
    "trusted_base": COMMON_TRUST,
    "level_text": "Bounded inductive proof by CBMC over the real session code: for ANY committed table and ANY session overlay (built field by field) exact and prefix queries equal the flat map 'committed facts then session writes', in ascending key order without tombstones or duplicates; every session write changes exactly its key and is logged; and the real Session::action / Session::receive, driven by a policy that writes and then fails, leave all queries and the log unchanged and roll the sinks back (success applies exactly the script). Arbitrary pre-states make the step results valid for histories of any length within the size bound.",
    "level_note": "Trusted: Kani/CBMC; std BTreeMap replaced by harness OrdMap (checked separately, unit of C13); committed index = harness table; memory-safety checks off.",
    "explanation": "Decided kernel: (1) exact queries of a session over ANY committed table (<=3 facts) and ANY session overlay (<=3 values/tombstones) equal 'committed facts then session writes' (tombstone hides, newer value wins, absent name sees nothing); (2) PrefixIter yields exactly the overlay entries under a prefix in ascending order; (3) SessionPerspective::revert (C13 harnesses c13_session_revert_step_*) restores fact_log[..i] and the overlay replay(fact_log[..i]) from any state, which is the mechanism Session::action/receive use on failure. NOT decided (CBMC > 14 GB or > 20 min at the smallest sizes, see outside_claim): the sorted merge of QueryIterator, the session write step, and the real Session::action/receive calls. 'No session operation changes the graph' holds by signature (&ClientState, no storage handle).",
}

# ---------------------------------------------------------------------------------------------
C12 = {
    "id": "C12",
    "level": "other",
    "units": [{
        "group": "runtime_vmap", "timeout_s": 1200,
        "harnesses": [
            h("c12_index_chain_exact_small", Q, "LinearFactIndex::query over ANY chain of committed indexes vs flat model (newest first, tombstones hide)", "2 indexes x <=2 entries"),
            h("c12_index_chain_exact_deep", T, "same", "3 indexes x <=2 entries"),
            h("c12_index_chain_prefix_small", Q, "LinearFactIndex::query_prefix: ascending, exact, no tombstones", "2 indexes x <=1 entry"),
            h("c12_index_chain_prefix_deep", T, "same", "2 indexes x <=2 entries"),
            h("c12_index_chain_prefix_mixed", T, "same, compound keys / real prefixes", "2 indexes x <=1 entry, 6 keys", X3),
            h("c12_perspective_chain_exact_small", Q, "LinearFactPerspective::query: top map -> prior perspective -> committed index", "<=1 entry per level, 1 index"),
            h("c12_perspective_chain_exact_deep", T, "same", "top<=2, mid<=2, 2 indexes x <=2"),
            h("c12_perspective_chain_prefix_small", Q, "LinearFactPerspective::query_prefix: top map over prior perspective", "<=1 entry per level, no index"),
            h("c12_perspective_chain_prefix_deep", T, "same over perspective, prior perspective and committed index", "<=1 entry per level, 1 index"),
            h("c12_perspective_chain_prefix_mixed", T, "same, compound keys", "<=1 entry per level, no index, 6 keys", X3),
            h("c12_write_step_over_index", Q, "insert/delete on a perspective whose prior is a committed index: map update semantics (tombstone shadows the index)", "top<=1, 1 index x <=1"),
            h("c12_replay_step_over_index", Q, "apply_updates (mid-segment reconstruction) = the same map update", "top<=1, 1 index x <=1"),
            h("c12_replay_step_no_prior", Q, "apply_updates without prior (delete removes)", "top<=2"),
            h("c12_write_step_prefix", T, "write then query_prefix across perspective, prior perspective, index", "<=1 per level"),
            h("c12_write_step_mixed", T, "write with compound keys", "top<=1, 1 index", X3),
            h("c12_find_prefixes_small", Q, "find_prefixes over ANY fact map and ANY prefix: exactly the entries under the prefix, ascending", "<=3 entries, prefixes [] and [c]"),
            h("c12_find_prefixes_mixed", T, "same, compound keys that are prefixes of one another (range start + take_while)", "<=3 entries, 6 keys, 7 prefixes", X3),
            h("c12_index_chain_prefix_min", Q, "query_prefix over two chained indexes, minimal", "2 indexes x <=1 entry"),
            h("c12_perspective_chain_exact_min", Q, "perspective map directly over a committed index", "top<=1, 1 index x <=1"),
            h("c12_perspective_chain_prefix_min", Q, "same, query_prefix", "top<=1, 1 index x <=1"),
            h("c12_compact_exact", Q, "LinearStorage::compact of ANY chain: stand-alone index (no prior, depth 1), no tombstone / empty map stored, same answers", "2 indexes x <=1 entry"),
            h("c12_compact_deep", T, "same", "3 indexes x <=1 entry"),
            h("c12_compact_prefix", T, "same, observed through query_prefix", "2 indexes x <=1 entry"),
        ],
    }],
    "functions_encoded": [
        "LinearFactIndex::{query, query_prefix, query_prefix_inner}", "LinearFactPerspective::{query, query_prefix, query_prefix_inner, insert, delete, apply_updates}",
        "find_prefixes", "linear::QueryIterator::next", "LinearStorage::{compact, write_facts, write_facts_with_prior}", "harness OrdMap (vmap.rs) in place of BTreeMap",
    ],
    "bounds": [
        "chains: perspective map -> in-memory prior perspective -> <=3 committed indexes; every level <=2 entries (value or tombstone) in any slot layout, or no entry for the name",
        "<=3 distinct keys per chain (slab capacity 3); keys: 3 single-component keys or 6 compound keys (mixed harnesses); values 1 byte; one fact name + one absent name",
        "global unwind 7 + per-loop unwindset; unwinding assertions on",
    ],
    "assumptions": COMMON_ASSUME + [
        "Read::fetch(offset) returns the FactIndexRepr stored at that offset (harness VRead builds it from the level description; transmute_copy into the generic T after asserting size/align equal FactIndexRepr). Serialization (postcard/serde) and file layout are outside (C15).",
        "Write::append(builder) returns builder(next_offset) (harness VWrite; nothing is serialized)",
    ],
    "outside_claim": [
        "segment boundaries / get_linear_perspective / get_fact_perspective reconstruction through real segments (needs SegmentRepr via fetch; only the replay step apply_updates is decided)",
        "the depth>15 trigger of compaction in write_facts_with_prior and chains deeper than 3 (compact itself is decided for any chain of <=3)",
        "empty key components, keys longer than 2 components, values longer than 1 byte, more than 3 distinct keys per chain",
        "the real std BTreeMap (trusted, see assumptions)",
    ],
    "trusted_base": COMMON_TRUST,
    "level_text": "Bounded check by CBMC of the real query/query_prefix/insert/delete/apply_updates/compact code over ARBITRARY fact chains (in-flight perspective, in-memory prior, up to three committed indexes with tombstones) against a flat key-value model: exact queries for a universally quantified key, prefix queries as exact ascending sequences.",
    "level_note": "Trusted: Kani/CBMC; std BTreeMap replaced by harness OrdMap (checked separately, unit of C13); reader/writer are trait-level harness environments; memory-safety checks off.",
    "explanation": "Decided kernel: the map semantics of one fact chain (newest-first lookup, tombstones, prefix merge order, compaction result, replay of per-command updates) for chains of <=5 levels and <=3 distinct keys. Not decided: perspective reconstruction from real segments (get_linear_perspective/get_fact_perspective over SegmentRepr), the depth-16 compaction trigger, and the serialized form; these need the structured reader for SegmentRepr sketched in DESIGN §C12.",
}


# ---------------------------------------------------------------------------------------------
# Which harnesses are actually part of the checks (name -> (tier, measured seconds on the shared,
# heavily loaded box; "Verification Time" reported by Kani)). Harnesses defined in the .rs files
# but absent here did NOT finish within 14 GB / 20 min (see DROPPED) and are not run.
RUN = {
    # C13
    "vmap_point_ops_step": (Q, 14), "vmap_ordered_views": (Q, 26),
    "c13_linear_write_step_prior_small": (Q, 128), "c13_linear_write_step_noprior": (Q, 145),
    "c13_linear_write_step_prior_full": (T, 252),
    "c13_linear_revert_step_failed_rule_fresh": (Q, 12), "c13_linear_revert_step_failed_rule_cmd": (Q, 184),
    "c13_linear_revert_step_drop_cmd": (Q, 114), "c13_linear_revert_step_nothing_pending": (Q, 149),
    "c13_linear_revert_step_two_cmds_keep1": (T, 161), "c13_linear_revert_step_two_cmds_keep2": (T, 288),
    "c13_linear_add_command_step_first": (Q, 238), "c13_linear_add_command_step_third": (T, 227),
    "c13_linear_checkpoint_with_pending_writes": (Q, 54),
    "c13_session_revert_step_small": (Q, 80), "c13_session_revert_step_to_empty": (Q, 48), "c13_session_revert_step_noop": (Q, 79),
    "c13_session_revert_step_full": (T, 120),
    # C14
    "c14_overlay_exact_small": (Q, 93), "c14_overlay_exact_full": (T, 110), "c14_prefix_iter_small": (T, 406),
    # C12
    "c12_index_chain_exact_small": (Q, 190), "c12_index_chain_exact_deep": (T, 269),
    "c12_find_prefixes_small": (Q, 41), "c12_find_prefixes_mixed": (T, 222), "c12_replay_step_no_prior": (Q, 90),
}
DROPPED = {
    "C13": [
        "c13_linear_write_step_prefix / c13_linear_revert_step_prefix / c13_session_revert_step_prefix: the revert/write steps observed through query_prefix (timeout 20 min); the exact-query variants are decided, query_prefix itself only at the level of find_prefixes / PrefixIter (C12, C14)",
        "c13_linear_history3 / c13_session_history3: direct 3-operation symbolic histories (timeout 20 min: symbolic operation choice makes every Vec length symbolic); the inductive steps are decided instead",
        "c13_linear_revert_step_two_cmds_noprior: not re-measured after the stack-buffer change",
    ],
    "C14": [
        "c14_write_step_* (SessionPerspective::insert/delete from any state): > 14 GB in every size, even on an empty overlay (Arc::make_mut's clone path + fact_log push)",
        "c14_merge_iter_* (session QueryIterator sorted merge over harness iterators, 2+2 items): > 14 GB (Peekable + key re-collection `k.iter().cloned().collect()` give symbolic-size allocations)",
        "c14_overlay_prefix_* (full query_prefix stack: base index + Arc/Yoke/PrefixIter + merge): timeout / > 14 GB for 2+2 entries, > 10 GB after 12 min for 1+1",
        "c14_action_step_* / c14_receive_step_* (real Session::action / receive with a failing policy): timeout 20 min at base<=1, log 1, script 1 (heap fact_log); the stack-backed variant was not measured for lack of time",
        "c14_overlay_exact_mixed, c14_prefix_iter_mixed (compound keys): no verdict within the time available",
    ],
    "C12": [
        "c12_index_chain_prefix_* (LinearFactIndex::query_prefix over >= 2 chained indexes): > 14 GB already for 2 indexes x 1 entry",
        "c12_perspective_chain_* (perspective over prior perspective over committed index, exact and prefix): > 14 GB / timeout at 1 entry per level",
        "c12_write_step_over_index / c12_replay_step_over_index / c12_write_step_prefix / c12_write_step_mixed: > 14 GB / timeout (every query of a perspective whose prior is a committed index re-fetches and rebuilds the index)",
        "c12_compact_* (LinearStorage::compact): > 14 GB for 2 indexes",
    ],
}


def finalize(spec):
    kept = []
    for u in spec["units"]:
        hs = []
        for hh in u["harnesses"]:
            if hh["name"] in RUN:
                tier, secs = RUN[hh["name"]]
                hh = dict(hh)
                hh["tier"] = tier
                hh["measured_s"] = secs
                hs.append(hh)
        u["harnesses"] = hs
        kept += [x["name"] for x in hs]
    dropped = DROPPED.get(spec["id"], [])
    if dropped:
        spec["outside_claim"] = list(spec["outside_claim"]) + [
            "NOT DECIDED (harness exists in the .rs file but CBMC exceeded 14 GB or 20 min; not part of the check): " + d for d in dropped]
    return spec


def main():
    for spec in (C12, C13, C14):
        finalize(spec)
        with open(os.path.join(VERIF, "checks", spec["id"] + ".json"), "w") as f:
            json.dump(spec, f, indent=1)
            f.write("\n")


if __name__ == "__main__":
    main()
