// C47 — C string output never overflows its buffer.
// Child module of aranya_capi_core::cstr (appended by the overlay), so it sees CStrWriter.
use core::{ffi::c_char, fmt, mem::MaybeUninit};

use super::*;

const GUARD: usize = 2;
const MAXBUF: usize = 8;
const ARR: usize = MAXBUF + 2 * GUARD;
const FRAG: usize = 3;

/// A Display impl that emits up to three fragments through `Formatter::write_str`.
struct Frags<'a> {
    f: [&'a str; 3],
    n: usize,
}
impl fmt::Display for Frags<'_> {
    fn fmt(&self, fm: &mut fmt::Formatter<'_>) -> fmt::Result {
        let mut i = 0;
        while i < self.n {
            fm.write_str(self.f[i])?;
            i += 1;
        }
        Ok(())
    }
}

fn any_ascii_frag(buf: &mut [u8; FRAG]) -> &str {
    let len: usize = kani::any();
    kani::assume(len <= FRAG);
    let mut i = 0;
    while i < FRAG {
        let b: u8 = kani::any();
        kani::assume(b < 0x80);
        buf[i] = b;
        i += 1;
    }
    // SAFETY: ASCII bytes are valid UTF-8 (assumed above); avoids running the
    // UTF-8 validator on symbolic bytes, which is not the code under test.
    unsafe { core::str::from_utf8_unchecked(&buf[..len]) }
}

fn run(nfrag_max: usize) {
    let mut b0 = [0u8; FRAG];
    let mut b1 = [0u8; FRAG];
    let mut b2 = [0u8; FRAG];
    let s0 = any_ascii_frag(&mut b0);
    let s1 = any_ascii_frag(&mut b1);
    let s2 = any_ascii_frag(&mut b2);
    let n: usize = kani::any();
    kani::assume(n <= nfrag_max);
    let src = Frags { f: [s0, s1, s2], n };
    let mut total = 0usize;
    let mut want = [0u8; 3 * FRAG];
    let mut k = 0;
    while k < n {
        let s = src.f[k].as_bytes();
        let mut j = 0;
        while j < s.len() {
            want[total] = s[j];
            total += 1;
            j += 1;
        }
        k += 1;
    }

    // Guarded buffer: [GUARD | dst(len) | rest], all initialised to a sentinel pattern.
    let sentinel: u8 = kani::any();
    let mut arr = [sentinel; ARR];
    let len: usize = kani::any();
    kani::assume(len <= MAXBUF);
    let mut nw: usize = kani::any();
    let res = {
        let window = &mut arr[GUARD..GUARD + len];
        // SAFETY: u8 and MaybeUninit<c_char> have the same layout.
        let dst = unsafe {
            &mut *(core::ptr::from_mut::<[u8]>(window) as *mut [MaybeUninit<c_char>])
        };
        write_c_str(dst, &src, &mut nw)
    };

    // Reported size is always exactly what is needed (text + NUL).
    assert!(nw == total + 1);
    // Nothing outside the window is written.
    let mut i = 0;
    while i < GUARD {
        assert!(arr[i] == sentinel);
        i += 1;
    }
    let mut i = GUARD + len;
    while i < ARR {
        assert!(arr[i] == sentinel);
        i += 1;
    }
    match res {
        Ok(()) => {
            assert!(len >= total + 1);
            let mut i = 0;
            while i < total {
                assert!(arr[GUARD + i] == want[i]);
                i += 1;
            }
            assert!(arr[GUARD + total] == 0);
            kani::cover!(total > 0 && len > total + 1, "ok with slack");
            kani::cover!(total == 0, "ok empty");
        }
        Err(WriteCStrError::BufferTooSmall) => {
            assert!(len < total + 1);
            kani::cover!(len == 0, "empty buffer");
            kani::cover!(len == total && total > 0, "one short");
        }
        Err(WriteCStrError::Bug(_)) => {
            panic!("write_c_str reported Bug");
        }
    }
}

#[kani::proof]
#[kani::unwind(11)]
fn c47_write_c_str_two_fragments() {
    run(2);
}

#[kani::proof]
#[kani::unwind(13)]
fn c47_write_c_str_three_fragments() {
    run(3);
}

/// CStrWriter driven directly: arbitrary starting `nw` is reset, writes after overflow keep counting.
#[kani::proof]
#[kani::unwind(13)]
fn c47_writer_direct_saturation() {
    let sentinel: u8 = kani::any();
    let mut arr = [sentinel; ARR];
    let len: usize = kani::any();
    kani::assume(len <= MAXBUF);
    let mut nw: usize = kani::any();
    let mut b0 = [0u8; FRAG];
    let mut b1 = [0u8; FRAG];
    let s0 = any_ascii_frag(&mut b0);
    let s1 = any_ascii_frag(&mut b1);
    let total = s0.len() + s1.len();
    let ok = {
        let window = &mut arr[GUARD..GUARD + len];
        let dst = unsafe {
            &mut *(core::ptr::from_mut::<[u8]>(window) as *mut [MaybeUninit<c_char>])
        };
        let mut w = CStrWriter::new(dst, &mut nw);
        w.write(s0);
        w.write(s1);
        w.finish().is_ok()
    };
    assert!(nw == total + 1);
    assert!(ok == (len >= total + 1));
    let mut i = 0;
    while i < GUARD {
        assert!(arr[i] == sentinel);
        i += 1;
    }
    let mut i = GUARD + len;
    while i < ARR {
        assert!(arr[i] == sentinel);
        i += 1;
    }
    kani::cover!(ok && total == 6, "full two fragments fit");
    kani::cover!(!ok && len > 0, "overflow non-empty buffer");
}
