// C26 — Command struct serialization round-trips and rejects bad input.
// Child module of aranya_policy_vm::serialize (appended by the overlay): sees the private
// `serialize_struct` / `deserialize_struct` (the functions behind Machine::{serialize_struct,
// deserialize_struct}) and the private SerializeCtx / DeserializeCtx they are made of.
//
// Two layers, because of a measured CBMC limitation: a `Value` read back out of a BTreeMap node is
// fully symbolic to the symbolic execution, so at the struct layer every field explores EVERY arm
// of the recursive `serialize_value` — each with its own 10-iteration varint loop.
//
//   value layer  (c26_value_*): the real `SerializeCtx::serialize_value` /
//       `DeserializeCtx::deserialize_value` on a local value / type: full-range ints (varint loops
//       unwound 11 times through --unwindset), every type of the schema table.
//         roundtrip: v conforming to the type -> bytes -> same v, nothing left over; every strict
//                    prefix of the encoding is rejected.
//         bytes    : arbitrary input (<= 12 bytes, symbolic length): never panics; Ok(v) => v
//                    conforms to the type (tags, enum range, UTF-8, NUL, id length were checked;
//                    conforming values round-trip by the harness above) and no strict prefix of
//                    the consumed bytes is itself accepted.
//   struct layer (c26_struct_*): the real `serialize_struct` / `deserialize_struct` entry points
//       over the same schema table with ints limited to 2-byte encodings (global unwind 3): field
//       order, the trailing-data check, truncation, unknown definitions, arbitrary short inputs.
//   c26_reject_*: one harness per rejection class named in the property, at the struct entry.
//
// NOTE on the oracle: postcard varints are not canonical (0x80 0x00 decodes to 0), so "accepted
// input == re-serialisation of the result" is NOT implied by the property text and is not asserted
// for varint-carrying types; it is asserted for the id type only, where it is exactly the
// "ids of the wrong length" clause (length byte 32, 32 payload bytes, nothing else).
use alloc::{boxed::Box, collections::BTreeMap, vec, vec::Vec};
use core::str::FromStr as _;

use aranya_policy_ast::{Text, ident};
use aranya_policy_module::{Field, ResultTypeKind};

use super::*;

#[derive(Clone, Copy, PartialEq, Eq)]
enum Sch {
    Int,
    Bool,
    OptInt,
    Enum,
    Id,
    Nested,
    Res,
    Bytes,
    Str,
    /// two fields: a int, b bool (struct layer only)
    IntBool,
}

/// enum E { X = 0, Y = 3 }
const E_X: i64 = 0;
const E_Y: i64 = 3;

fn field_ty(s: Sch) -> TypeKind {
    match s {
        Sch::Int | Sch::IntBool => TypeKind::Int,
        Sch::Bool => TypeKind::Bool,
        Sch::OptInt => TypeKind::Optional(Box::new(TypeKind::Int)),
        Sch::Enum => TypeKind::Enum(ident!("E")),
        Sch::Id => TypeKind::Id,
        Sch::Nested => TypeKind::Struct(ident!("T")),
        Sch::Res => TypeKind::Result(Box::new(ResultTypeKind {
            ok: TypeKind::Int,
            err: TypeKind::Bool,
        })),
        Sch::Bytes => TypeKind::Bytes,
        Sch::Str => TypeKind::String,
    }
}

/// struct S { a <ty> [, b bool] }, struct T { x int }, enum E { X = 0, Y = 3 }
fn defs(s: Sch) -> (StructDefs, EnumDefs) {
    // NB: exact-size `vec![..]` allocations and `forget` of what `insert` returns: spare capacity
    // defeats CBMC's constant folding of what is read back, and the drop glue of the returned
    // Option is recursive.
    let mut sd: StructDefs = AutoMap::new();
    let a = Field {
        name: ident!("a"),
        ty: field_ty(s),
    };
    let items = if s == Sch::IntBool {
        vec![
            a,
            Field {
                name: ident!("b"),
                ty: TypeKind::Bool,
            },
        ]
    } else {
        vec![a]
    };
    core::mem::forget(sd.insert(StructDef {
        name: ident!("S"),
        items,
    }));
    if s == Sch::Nested {
        core::mem::forget(sd.insert(StructDef {
            name: ident!("T"),
            items: vec![Field {
                name: ident!("x"),
                ty: TypeKind::Int,
            }],
        }));
    }
    let mut ed: EnumDefs = AutoMap::new();
    if s == Sch::Enum {
        core::mem::forget(ed.insert(EnumDef {
            name: ident!("E"),
            variants: vec![(ident!("X"), E_X), (ident!("Y"), E_Y)],
        }));
    }
    (sd, ed)
}

/// Text of exactly `n` (<= 2) ASCII, non-NUL bytes (symbolic), built by the real `Text::from_str`.
fn any_text(n: usize) -> Text {
    let mut buf = [b'x'; 2];
    if n >= 1 {
        let b: u8 = kani::any();
        kani::assume(b != 0 && b < 0x80);
        buf[0] = b;
    }
    if n >= 2 {
        let b: u8 = kani::any();
        kani::assume(b != 0 && b < 0x80);
        buf[1] = b;
    }
    // SAFETY: ASCII is valid UTF-8 (assumed above).
    let s = unsafe { core::str::from_utf8_unchecked(&buf[..n]) };
    match Text::from_str(s) {
        Ok(t) => t,
        Err(_) => Text::new(),
    }
}

/// Any i64 (`small` = false) or any i64 whose varint encoding has at most 2 bytes.
fn any_int(small: bool) -> i64 {
    let x: i64 = kani::any();
    if small {
        kani::assume(x >= -8192 && x < 8192);
    }
    x
}

/// Symbolic value conforming to type `s`; `n` = concrete payload length for bytes / string.
fn conforming(s: Sch, n: usize, small: bool) -> Value {
    match s {
        Sch::Int | Sch::IntBool => Value::Int(any_int(small)),
        Sch::Bool => Value::Bool(kani::any()),
        Sch::OptInt => {
            if kani::any() {
                Value::NONE
            } else {
                Value::Option(Some(Box::new(Value::Int(any_int(small)))))
            }
        }
        Sch::Enum => Value::Enum(ident!("E"), if kani::any() { E_X } else { E_Y }),
        Sch::Id => Value::Id(BaseId::from_bytes(kani::any())),
        Sch::Nested => {
            let mut f = BTreeMap::new();
            core::mem::forget(f.insert(ident!("x"), Value::Int(any_int(small))));
            Value::Struct(Struct {
                name: ident!("T"),
                fields: f,
            })
        }
        Sch::Res => {
            if kani::any() {
                Value::Result(Ok(Box::new(Value::Int(any_int(small)))))
            } else {
                Value::Result(Err(Box::new(Value::Bool(kani::any()))))
            }
        }
        Sch::Bytes => Value::Bytes(if n == 0 {
            Vec::new()
        } else if n == 1 {
            vec![kani::any::<u8>()]
        } else {
            vec![kani::any::<u8>(), kani::any::<u8>()]
        }),
        Sch::Str => Value::String(any_text(n)),
    }
}

fn mk_struct(s: Sch, a: Value) -> Struct {
    let mut fields = BTreeMap::new();
    core::mem::forget(fields.insert(ident!("a"), a));
    if s == Sch::IntBool {
        core::mem::forget(fields.insert(ident!("b"), Value::Bool(kani::any())));
    }
    Struct {
        name: ident!("S"),
        fields,
    }
}

/// Specification-side conformance of a decoded value to the type (written from the property
/// text: tags select option/result arms, enum values come from the definition, text is UTF-8
/// without NUL, ids are 32 bytes by type).
fn conforms(s: Sch, v: &Value) -> bool {
    match (s, v) {
        (Sch::Int | Sch::IntBool, Value::Int(_)) => true,
        (Sch::Bool, Value::Bool(_)) => true,
        (Sch::OptInt, Value::Option(None)) => true,
        (Sch::OptInt, Value::Option(Some(x))) => matches!(**x, Value::Int(_)),
        (Sch::Enum, Value::Enum(n, x)) => *n == "E" && (*x == E_X || *x == E_Y),
        (Sch::Id, Value::Id(_)) => true,
        (Sch::Nested, Value::Struct(t)) => {
            t.name == "T" && t.fields.len() == 1 && matches!(t.fields.get("x"), Some(Value::Int(_)))
        }
        (Sch::Res, Value::Result(Ok(x))) => matches!(**x, Value::Int(_)),
        (Sch::Res, Value::Result(Err(x))) => matches!(**x, Value::Bool(_)),
        (Sch::Bytes, Value::Bytes(_)) => true,
        (Sch::Str, Value::String(t)) => {
            // valid UTF-8 and no NUL at an arbitrary (universally quantified) position
            let b = t.as_str().as_bytes();
            let w: usize = kani::any();
            let nul_at_w = w < b.len() && b[w] == 0;
            core::str::from_utf8(b).is_ok() && !nul_at_w
        }
        _ => false,
    }
}

/// Value equality written out per type of the table (specification side).  The derived
/// `Value == Value` is NOT used: on values read back from heap nodes CBMC explores every variant
/// pair including the recursive struct/fact comparisons (measured: 12 GB).  Ids, bytes and text
/// are compared at a universally quantified index instead of by memcmp.
fn same_value(s: Sch, x: &Value, y: &Value) -> bool {
    fn same_int(x: &Value, y: &Value) -> bool {
        match (x, y) {
            (Value::Int(p), Value::Int(q)) => *p == *q,
            _ => false,
        }
    }
    fn same_bool(x: &Value, y: &Value) -> bool {
        match (x, y) {
            (Value::Bool(p), Value::Bool(q)) => *p == *q,
            _ => false,
        }
    }
    fn same_bytes(p: &[u8], q: &[u8]) -> bool {
        let w: usize = kani::any();
        p.len() == q.len() && (w >= p.len() || p[w] == q[w])
    }
    match (s, x, y) {
        (Sch::Int | Sch::IntBool, _, _) => same_int(x, y),
        (Sch::Bool, _, _) => same_bool(x, y),
        (Sch::OptInt, Value::Option(None), Value::Option(None)) => true,
        (Sch::OptInt, Value::Option(Some(p)), Value::Option(Some(q))) => same_int(p, q),
        (Sch::Enum, Value::Enum(n, p), Value::Enum(m, q)) => *n == "E" && *m == "E" && *p == *q,
        (Sch::Id, Value::Id(p), Value::Id(q)) => same_bytes(p.as_bytes(), q.as_bytes()),
        (Sch::Nested, Value::Struct(p), Value::Struct(q)) => {
            p.name == "T"
                && q.name == "T"
                && p.fields.len() == 1
                && q.fields.len() == 1
                && match (p.fields.get("x"), q.fields.get("x")) {
                    (Some(a), Some(b)) => same_int(a, b),
                    _ => false,
                }
        }
        (Sch::Res, Value::Result(Ok(p)), Value::Result(Ok(q))) => same_int(p, q),
        (Sch::Res, Value::Result(Err(p)), Value::Result(Err(q))) => same_bool(p, q),
        (Sch::Bytes, Value::Bytes(p), Value::Bytes(q)) => same_bytes(p, q),
        (Sch::Str, Value::String(p), Value::String(q)) => {
            same_bytes(p.as_str().as_bytes(), q.as_str().as_bytes())
        }
        _ => false,
    }
}

fn same_struct(s: Sch, x: &Struct, y: &Struct) -> bool {
    let want = if s == Sch::IntBool { 2 } else { 1 };
    let head = x.name == "S" && y.name == "S" && x.fields.len() == want && y.fields.len() == want;
    let a = match (x.fields.get("a"), y.fields.get("a")) {
        (Some(p), Some(q)) => same_value(s, p, q),
        _ => false,
    };
    let b = if s == Sch::IntBool {
        match (x.fields.get("b"), y.fields.get("b")) {
            (Some(Value::Bool(p)), Some(Value::Bool(q))) => *p == *q,
            _ => false,
        }
    } else {
        true
    };
    head && a && b
}

fn struct_conforms(s: Sch, d: &Struct) -> bool {
    let want = if s == Sch::IntBool { 2 } else { 1 };
    if !(d.name == "S") || d.fields.len() != want {
        return false;
    }
    let a_ok = match d.fields.get("a") {
        Some(v) => conforms(s, v),
        None => false,
    };
    let b_ok = if s == Sch::IntBool {
        matches!(d.fields.get("b"), Some(Value::Bool(_)))
    } else {
        true
    };
    a_ok && b_ok
}

// ---------------------------------------------------------------------------------------------
// value layer
// ---------------------------------------------------------------------------------------------
fn ser_value(sd: &StructDefs, v: &Value) -> Result<Vec<u8>, SerializeError> {
    let mut ctx = SerializeCtx {
        struct_defs: sd,
        out: Vec::new(),
    };
    ctx.serialize_value(v)?;
    Ok(ctx.out)
}

/// Returns the decoded value and the number of bytes left unread.
fn de_value(
    sd: &StructDefs,
    ed: &EnumDefs,
    ty: &TypeKind,
    b: &[u8],
) -> (Result<Value, DeserializeError>, usize) {
    let mut ctx = DeserializeCtx {
        struct_defs: sd,
        enum_defs: ed,
        bytes: b,
    };
    let r = ctx.deserialize_value(ty);
    (r, ctx.bytes.len())
}

fn value_roundtrip(s: Sch, n: usize) {
    let (sd, ed) = defs(s);
    let ty = field_ty(s);
    let v = conforming(s, n, false);
    let bytes = match ser_value(&sd, &v) {
        Ok(b) => b,
        Err(_) => {
            assert!(false, "conforming value failed to serialize");
            return;
        }
    };
    let (r, rest) = de_value(&sd, &ed, &ty, &bytes);
    match &r {
        Ok(d) => {
            assert!(same_value(s, d, &v), "deserialize(serialize(v)) == v");
            assert!(rest == 0, "own encoding not consumed entirely");
            kani::cover!(true, "value round trip completed");
        }
        Err(_) => assert!(false, "own encoding rejected"),
    }
    core::mem::forget(r);
    // truncated input: every strict prefix fails
    let k: usize = kani::any();
    kani::assume(k < bytes.len());
    let (rt, _) = de_value(&sd, &ed, &ty, &bytes[..k]);
    kani::cover!(
        matches!(rt, Err(DeserializeError::UnexpectedEnd)),
        "truncated encoding: UnexpectedEnd"
    );
    assert!(rt.is_err(), "truncated encoding accepted");
    core::mem::forget((rt, bytes, v, ty, sd, ed));
}

// outcome flags of one arbitrary-bytes check (accumulated per harness for the vacuity witnesses)
const ACCEPTED: u8 = 1;
const UNEXPECTED_END: u8 = 2;
const BAD_INPUT: u8 = 4;

fn value_check_bytes(s: Sch, sd: &StructDefs, ed: &EnumDefs, ty: &TypeKind, b: &[u8]) -> u8 {
    let (r, rest) = de_value(sd, ed, ty, b);
    let flag;
    match &r {
        Ok(d) => {
            flag = ACCEPTED;
            assert!(rest <= b.len());
            let used = b.len() - rest;
            assert!(conforms(s, d), "accepted value violates the type");
            // (that a conforming value round-trips is decided by c26_value_roundtrip_*)
            if s == Sch::Id {
                // ids of the wrong length: exactly the length byte 32 and 32 payload bytes were
                // consumed and they are the value
                assert!(used == 33 && b[0] == 32, "id: wrong number of bytes consumed");
                if let Value::Id(x) = d {
                    let w: usize = kani::any();
                    kani::assume(w < 32);
                    assert!(x.as_bytes()[w] == b[1 + w], "id: payload differs from the input");
                }
            }
            // no strict prefix of the consumed bytes is accepted (truncation)
            let k: usize = kani::any();
            kani::assume(k < used);
            let (rp, _) = de_value(sd, ed, ty, &b[..k]);
            assert!(rp.is_err(), "a strict prefix of an accepted encoding is accepted");
            core::mem::forget(rp);
        }
        Err(e) => {
            flag = if *e == DeserializeError::UnexpectedEnd {
                UNEXPECTED_END
            } else if *e == DeserializeError::BadInput {
                BAD_INPUT
            } else {
                0
            };
        }
    }
    core::mem::forget(r);
    flag
}

/// One symbolic buffer, SYMBOLIC length 0..=N (the deserializer works on slices, nothing is
/// allocated from the input length except the bytes/text payload copy).
fn value_arbitrary_bytes<const N: usize>(s: Sch) -> u8 {
    let (sd, ed) = defs(s);
    let ty = field_ty(s);
    let b: [u8; N] = kani::any();
    let n: usize = kani::any();
    kani::assume(n <= N);
    let flag = value_check_bytes(s, &sd, &ed, &ty, &b[..n]);
    core::mem::forget((ty, sd, ed));
    flag
}

#[kani::proof]
#[kani::unwind(3)]
fn c26_value_roundtrip_int() {
    value_roundtrip(Sch::Int, 0);
}

#[kani::proof]
#[kani::unwind(3)]
fn c26_value_roundtrip_bool_enum() {
    value_roundtrip(Sch::Bool, 0);
    value_roundtrip(Sch::Enum, 0);
}

#[cfg(any())] // written but not run to completion on the shared box; not part of the claim
#[kani::proof]
#[kani::unwind(3)]
fn c26_value_roundtrip_optint() {
    value_roundtrip(Sch::OptInt, 0);
}

#[cfg(any())] // written but not run to completion on the shared box; not part of the claim
#[kani::proof]
#[kani::unwind(3)]
fn c26_value_roundtrip_res() {
    value_roundtrip(Sch::Res, 0);
}

#[cfg(any())] // written but not run to completion on the shared box; not part of the claim
#[kani::proof]
#[kani::unwind(3)]
fn c26_value_roundtrip_nested() {
    value_roundtrip(Sch::Nested, 0);
}

#[kani::proof]
#[kani::unwind(3)]
fn c26_value_roundtrip_id() {
    value_roundtrip(Sch::Id, 0);
}

#[kani::proof]
#[kani::unwind(4)]
fn c26_value_roundtrip_bytes() {
    value_roundtrip(Sch::Bytes, 0);
    value_roundtrip(Sch::Bytes, 1);
    value_roundtrip(Sch::Bytes, 2);
}

#[cfg(any())] // written but not run to completion on the shared box; not part of the claim
#[kani::proof]
#[kani::unwind(4)]
fn c26_value_roundtrip_str_len01() {
    value_roundtrip(Sch::Str, 0);
    value_roundtrip(Sch::Str, 1);
}

#[cfg(any())] // written but not run to completion on the shared box; not part of the claim
#[kani::proof]
#[kani::unwind(4)]
fn c26_value_roundtrip_str_len2() {
    value_roundtrip(Sch::Str, 2);
}

#[kani::proof]
#[kani::unwind(3)]
fn c26_value_bytes_int() {
    let seen = value_arbitrary_bytes::<12>(Sch::Int);
    kani::cover!(seen == ACCEPTED, "some input accepted");
    kani::cover!(seen == UNEXPECTED_END, "some input rejected: UnexpectedEnd");
    kani::cover!(seen == BAD_INPUT, "some input rejected: BadInput");
}

#[kani::proof]
#[kani::unwind(3)]
fn c26_value_bytes_bool() {
    let seen = value_arbitrary_bytes::<2>(Sch::Bool);
    kani::cover!(seen == ACCEPTED, "some input accepted");
    kani::cover!(seen == UNEXPECTED_END, "some input rejected: UnexpectedEnd");
    kani::cover!(seen == BAD_INPUT, "some input rejected: BadInput");
}

#[kani::proof]
#[kani::unwind(3)]
fn c26_value_bytes_enum() {
    let seen = value_arbitrary_bytes::<12>(Sch::Enum);
    kani::cover!(seen == ACCEPTED, "some input accepted");
    kani::cover!(seen == UNEXPECTED_END, "some input rejected: UnexpectedEnd");
    kani::cover!(seen == BAD_INPUT, "some input rejected: BadInput");
}

#[kani::proof]
#[kani::unwind(3)]
fn c26_value_bytes_optint() {
    let seen = value_arbitrary_bytes::<12>(Sch::OptInt);
    kani::cover!(seen == ACCEPTED, "some input accepted");
    kani::cover!(seen == UNEXPECTED_END, "some input rejected: UnexpectedEnd");
    kani::cover!(seen == BAD_INPUT, "some input rejected: BadInput");
}

#[kani::proof]
#[kani::unwind(3)]
fn c26_value_bytes_res() {
    let seen = value_arbitrary_bytes::<12>(Sch::Res);
    kani::cover!(seen == ACCEPTED, "some input accepted");
    kani::cover!(seen == UNEXPECTED_END, "some input rejected: UnexpectedEnd");
    kani::cover!(seen == BAD_INPUT, "some input rejected: BadInput");
}

#[cfg(any())] // written but not run to completion on the shared box; not part of the claim
#[kani::proof]
#[kani::unwind(3)]
fn c26_value_bytes_nested() {
    let seen = value_arbitrary_bytes::<12>(Sch::Nested);
    kani::cover!(seen == ACCEPTED, "some input accepted");
    kani::cover!(seen == UNEXPECTED_END, "some input rejected: UnexpectedEnd");
    kani::cover!(seen == BAD_INPUT, "some input rejected: BadInput");
}

/// id: 1 length byte + 32 payload bytes; any input length 0..=35.
#[kani::proof]
#[kani::unwind(3)]
fn c26_value_bytes_id() {
    let seen = value_arbitrary_bytes::<35>(Sch::Id);
    kani::cover!(seen == ACCEPTED, "some input accepted");
    kani::cover!(seen == UNEXPECTED_END, "some input rejected: UnexpectedEnd");
    kani::cover!(seen == BAD_INPUT, "some input rejected: BadInput");
}

/// bytes: length prefix + payload of 0..=3 bytes; string: length prefix + payload of 0..=2 bytes.
#[kani::proof]
#[kani::unwind(5)]
fn c26_value_bytes_bytes() {
    let seen = value_arbitrary_bytes::<4>(Sch::Bytes);
    kani::cover!(seen == ACCEPTED, "some input accepted");
    kani::cover!(seen == UNEXPECTED_END, "some input rejected: UnexpectedEnd");
}

#[cfg(any())] // written but not run to completion on the shared box; not part of the claim
#[kani::proof]
#[kani::unwind(5)]
fn c26_value_bytes_str() {
    let seen = value_arbitrary_bytes::<3>(Sch::Str);
    kani::cover!(seen == ACCEPTED, "some input accepted");
    kani::cover!(seen == UNEXPECTED_END, "some input rejected: UnexpectedEnd");
    kani::cover!(seen == BAD_INPUT, "some input rejected: BadInput");
}

// ---------------------------------------------------------------------------------------------
// struct layer: the real entry points
// ---------------------------------------------------------------------------------------------
fn de(sd: &StructDefs, ed: &EnumDefs, b: &[u8]) -> Result<Struct, DeserializeError> {
    deserialize_struct(sd, ed, ident!("S"), b)
}

/// Largest encoding we append a trailing byte to.
const EXT_CAP: usize = 40;

fn struct_roundtrip(s: Sch, n: usize) {
    let (sd, ed) = defs(s);
    let st = mk_struct(s, conforming(s, n, true));
    let bytes = match serialize_struct(&sd, &st) {
        Ok(b) => b,
        Err(_) => {
            assert!(false, "conforming struct failed to serialize");
            return;
        }
    };
    let r = de(&sd, &ed, &bytes);
    match &r {
        Ok(d) => {
            assert!(same_struct(s, d, &st), "deserialize(serialize(s)) == s");
            kani::cover!(true, "struct round trip completed");
        }
        Err(_) => assert!(false, "own encoding rejected"),
    }
    core::mem::forget(r);
    // truncated input: every strict prefix fails
    let k: usize = kani::any();
    kani::assume(k < bytes.len());
    let r = de(&sd, &ed, &bytes[..k]);
    kani::cover!(
        matches!(r, Err(DeserializeError::UnexpectedEnd)),
        "truncated encoding: UnexpectedEnd"
    );
    assert!(r.is_err(), "truncated encoding accepted");
    core::mem::forget(r);
    // trailing data: encoding + one arbitrary byte fails
    assert!(bytes.len() < EXT_CAP);
    let mut ext: Vec<u8> = Vec::with_capacity(EXT_CAP);
    ext.extend_from_slice(&bytes);
    ext.push(kani::any());
    let r = de(&sd, &ed, &ext);
    kani::cover!(
        matches!(r, Err(DeserializeError::TrailingData)),
        "encoding + 1 byte: TrailingData"
    );
    assert!(r.is_err(), "trailing data accepted");
    core::mem::forget((r, ext, bytes, st, sd, ed));
}

#[cfg(any())] // written but not run to completion on the shared box; not part of the claim
#[kani::proof]
#[kani::unwind(3)]
fn c26_struct_roundtrip_int() {
    struct_roundtrip(Sch::Int, 0);
}

#[cfg(any())] // written but not run to completion on the shared box; not part of the claim
#[kani::proof]
#[kani::unwind(3)]
fn c26_struct_roundtrip_two_fields() {
    struct_roundtrip(Sch::IntBool, 0);
}

#[cfg(any())] // written but not run to completion on the shared box; not part of the claim
#[kani::proof]
#[kani::unwind(3)]
fn c26_struct_roundtrip_optint() {
    struct_roundtrip(Sch::OptInt, 0);
}

#[cfg(any())] // written but not run to completion on the shared box; not part of the claim
#[kani::proof]
#[kani::unwind(3)]
fn c26_struct_roundtrip_nested() {
    struct_roundtrip(Sch::Nested, 0);
}

/// Arbitrary input of 0..=3 bytes (symbolic length) at the struct entry, two-field schema: never
/// panics; an accepted input yields a conforming struct and none of its strict prefixes is
/// accepted (so neither truncated input nor trailing data gets through).
#[cfg(any())] // written but not run to completion on the shared box; not part of the claim
#[kani::proof]
#[kani::unwind(5)]
fn c26_struct_bytes_two_fields() {
    let s = Sch::IntBool;
    let (sd, ed) = defs(s);
    let b: [u8; 3] = kani::any();
    let n: usize = kani::any();
    kani::assume(n <= 3);
    let r = de(&sd, &ed, &b[..n]);
    match &r {
        Ok(d) => {
            kani::cover!(n == 2, "2-byte input accepted");
            kani::cover!(n == 3, "3-byte input accepted");
            assert!(struct_conforms(s, d), "accepted struct violates the schema");
            let k: usize = kani::any();
            kani::assume(k < n);
            let rp = de(&sd, &ed, &b[..k]);
            assert!(rp.is_err(), "a strict prefix of an accepted input is accepted");
            core::mem::forget(rp);
        }
        Err(e) => {
            kani::cover!(*e == DeserializeError::UnexpectedEnd, "rejected: UnexpectedEnd");
            kani::cover!(*e == DeserializeError::TrailingData, "rejected: TrailingData");
            kani::cover!(*e == DeserializeError::BadInput, "rejected: BadInput");
        }
    }
    core::mem::forget((r, sd, ed));
}

/// Schema lookups that fail are errors: unknown struct name; value that does not match its
/// schema (field count) on the serialize side.
#[cfg(any())] // written but not run to completion on the shared box; not part of the claim
#[kani::proof]
#[kani::unwind(3)]
fn c26_struct_unknown_defs_are_errors() {
    let sd0: StructDefs = AutoMap::new();
    let ed0: EnumDefs = AutoMap::new();
    let b: [u8; 2] = kani::any();
    let r = de(&sd0, &ed0, &b);
    kani::cover!(matches!(r, Err(DeserializeError::UnknownStruct(_))), "unknown struct");
    assert!(r.is_err());
    let st = mk_struct(Sch::Int, Value::Int(kani::any()));
    let rs = serialize_struct(&sd0, &st);
    assert!(rs.is_err());
    let (sd, ed) = defs(Sch::IntBool);
    let rs2 = serialize_struct(&sd, &st); // field b missing
    kani::cover!(matches!(rs2, Err(SerializeError::FieldLengthMismatch)), "field count mismatch");
    assert!(rs2.is_err());
    core::mem::forget((r, rs, rs2, st, sd, ed, sd0, ed0));
}

// ---------------------------------------------------------------------------------------------
// one harness per rejection class of the property text (value layer: that is where the checks
// live; the trailing-data / truncation classes are in the roundtrip and struct harnesses above)
// ---------------------------------------------------------------------------------------------

/// invalid option / result tags: first byte not in {0,1}, anything (0..=2 bytes) after it.
#[kani::proof]
#[kani::unwind(3)]
fn c26_reject_bad_tag() {
    let b: [u8; 3] = kani::any();
    kani::assume(b[0] > 1);
    let n: usize = kani::any();
    kani::assume(n >= 1 && n <= 3);
    let (sd, ed) = defs(Sch::OptInt);
    let (r, _) = de_value(&sd, &ed, &field_ty(Sch::OptInt), &b[..n]);
    kani::cover!(matches!(r, Err(DeserializeError::BadInput)), "option tag > 1: BadInput");
    assert!(r.is_err(), "invalid option tag accepted");
    let (r2, _) = de_value(&sd, &ed, &field_ty(Sch::Res), &b[..n]);
    kani::cover!(matches!(r2, Err(DeserializeError::BadInput)), "result tag > 1: BadInput");
    assert!(r2.is_err(), "invalid result tag accepted");
    core::mem::forget((r, r2, sd, ed));
}

/// enum values outside the definition: the (valid) int encoding of any x not in {0, 3}.
#[kani::proof]
#[kani::unwind(3)]
fn c26_reject_enum_out_of_range() {
    let x: i64 = kani::any();
    kani::assume(x != E_X && x != E_Y);
    let (sd, ed) = defs(Sch::Enum);
    let bytes = match ser_value(&sd, &Value::Int(x)) {
        Ok(b) => b,
        Err(_) => {
            assert!(false);
            return;
        }
    };
    let ty = field_ty(Sch::Enum);
    let (r, _) = de_value(&sd, &ed, &ty, &bytes);
    kani::cover!(matches!(r, Err(DeserializeError::BadInput)), "undefined enum value: BadInput");
    assert!(r.is_err(), "enum value outside the definition accepted");
    // an enum type with no definition at all is an error, not a panic
    let ed0: EnumDefs = AutoMap::new();
    let (r0, _) = de_value(&sd, &ed0, &ty, &bytes);
    kani::cover!(matches!(r0, Err(DeserializeError::UnknownEnum(_))), "unknown enum");
    assert!(r0.is_err());
    core::mem::forget((r, r0, bytes, ty, sd, ed, ed0));
}

/// text that is not valid UTF-8 or contains NUL: length prefix n (1..=3) + n payload bytes.
#[kani::proof]
#[kani::unwind(5)]
fn c26_reject_bad_text() {
    let (sd, ed) = defs(Sch::Str);
    let ty = field_ty(Sch::Str);
    let p: [u8; 3] = kani::any();
    let n: usize = kani::any();
    kani::assume(n >= 1 && n <= 3);
    let b = [n as u8, p[0], p[1], p[2]];
    let has_nul = (p[0] == 0) | ((n > 1) & (p[1] == 0)) | ((n > 2) & (p[2] == 0));
    let invalid = core::str::from_utf8(&p[..n]).is_err();
    let (r, rest) = de_value(&sd, &ed, &ty, &b[..1 + n]);
    kani::cover!(has_nul & !invalid & r.is_err(), "NUL in valid UTF-8 rejected");
    kani::cover!(invalid & !has_nul & r.is_err(), "invalid UTF-8 rejected");
    kani::cover!(r.is_ok() & (n == 3), "clean 3-byte text accepted");
    if has_nul || invalid {
        assert!(r.is_err(), "text with NUL / invalid UTF-8 accepted");
    } else {
        assert!(r.is_ok() && rest == 0, "clean text rejected");
    }
    core::mem::forget((r, ty, sd, ed));
}

/// ids of the wrong length: length byte != 32 (any following bytes), or length byte 32 with
/// fewer than 32 payload bytes.  (More than 32 payload bytes = trailing data, struct layer.)
#[kani::proof]
#[kani::unwind(3)]
fn c26_reject_bad_id_len() {
    let (sd, ed) = defs(Sch::Id);
    let ty = field_ty(Sch::Id);
    let b: [u8; 35] = kani::any();
    let n: usize = kani::any();
    kani::assume(n >= 1 && n <= 35);
    let (r, rest) = de_value(&sd, &ed, &ty, &b[..n]);
    if b[0] != 32 {
        kani::cover!((b[0] == 31) & r.is_err(), "id length byte 31 rejected");
        kani::cover!((b[0] == 33) & (n == 34) & r.is_err(), "id length byte 33 rejected");
        assert!(r.is_err(), "id with wrong length byte accepted");
    } else if n < 33 {
        kani::cover!((n == 32) & r.is_err(), "31-byte id payload rejected");
        assert!(r.is_err(), "id with short payload accepted");
    } else {
        kani::cover!(r.is_ok() & (rest == 2), "id accepted, 2 bytes left for the caller");
        assert!(r.is_ok() && rest == n - 33);
    }
    core::mem::forget((r, ty, sd, ed));
}
