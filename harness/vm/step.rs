// C25 — The VM never panics on any bytecode.
// Child module of aranya_policy_vm::machine (appended by the overlay): sees the private fields of
// RunState / ScopeManager is reached through its public API only.
//
// Shape of every harness: build an ARBITRARY machine state directly (progmem = the instruction
// under test with symbolic operands, symbolic pc, symbolic typed-but-arbitrary stack values,
// symbolic call_state, arbitrary scope contents, a MachineIO whose answers are symbolic), execute
// ONE `RunState::step`, and let Kani's panic / overflow / out-of-bounds checks decide that the step
// returns `Ok(_)` or `Err(MachineError)` and nothing else.  One step from any state is the
// inductive step of "no instruction sequence panics".
use alloc::{boxed::Box, collections::BTreeMap, string::String, vec, vec::Vec};
use core::{num::NonZeroUsize, str::FromStr as _};

use aranya_crypto::{BaseId, DeviceId};
use aranya_policy_ast::text;
use aranya_policy_module::{Field, Meta, TypeKind};

use super::*;
use crate::{FactKeyList, FactValueList, MachineIOError};

// ---------------------------------------------------------------------------------------------
// formatting stub: error paths build their message with `format!`; the text is irrelevant to the
// property (no panic) and the real formatting machinery multiplies the formula size.
// ---------------------------------------------------------------------------------------------
pub(super) fn fmt_stub(_args: core::fmt::Arguments<'_>) -> String {
    String::new()
}

// ---------------------------------------------------------------------------------------------
// symbolic building blocks
// ---------------------------------------------------------------------------------------------

/// One of the identifiers `a`, `b`, `c` (symbolic choice).  Built through the real
/// `Identifier::from_str` so the representation is the ordinary inline one.
fn any_ident() -> Identifier {
    let b: u8 = kani::any();
    kani::assume(b >= b'a' && b <= b'c');
    let buf = [b];
    // SAFETY: one ASCII letter is valid UTF-8.
    let s = unsafe { core::str::from_utf8_unchecked(&buf) };
    match Identifier::from_str(s) {
        Ok(i) => i,
        Err(_) => ident!("a"),
    }
}

fn any_id32() -> [u8; 32] {
    kani::any()
}

/// Value kinds used to type the symbolic stack.
#[derive(Clone, Copy, PartialEq, Eq)]
enum K {
    Unit,
    Int,
    Bool,
    Str,
    Bytes,
    /// struct with no fields, symbolic name
    Struct0,
    /// struct with one field (symbolic name) holding a symbolic int
    Struct1,
    /// struct with one field (symbolic name) holding a symbolic bool
    Struct1Bool,
    /// fact with no keys / values
    Fact0,
    /// fact with one int key and one int value (symbolic names)
    Fact1,
    Id,
    Enum,
    Ident,
    None,
    SomeInt,
    OkInt,
    ErrBool,
}

fn value_of(k: K) -> Value {
    match k {
        K::Unit => Value::Unit,
        K::Int => Value::Int(kani::any()),
        K::Bool => Value::Bool(kani::any()),
        K::Str => {
            if kani::any() {
                Value::String(text!("x"))
            } else {
                Value::String(text!(""))
            }
        }
        K::Bytes => {
            Value::Bytes(vec![kani::any::<u8>()])
        }
        K::Struct0 => Value::Struct(Struct {
            name: any_ident(),
            fields: BTreeMap::new(),
        }),
        K::Struct1 => {
            let mut fields = BTreeMap::new();
            core::mem::forget(fields.insert(any_ident(), Value::Int(kani::any())));
            Value::Struct(Struct {
                name: any_ident(),
                fields,
            })
        }
        K::Struct1Bool => {
            let mut fields = BTreeMap::new();
            core::mem::forget(fields.insert(any_ident(), Value::Bool(kani::any())));
            Value::Struct(Struct {
                name: any_ident(),
                fields,
            })
        }
        K::Fact0 => Value::Fact(Fact::new(any_ident())),
        K::Fact1 => {
            let mut f = Fact::new(any_ident());
            // exact-size allocations (`vec![x]`): see the note at `machine1`.
            f.keys = vec![FactKey::new(any_ident(), HashableValue::Int(kani::any()))];
            f.values = vec![FactValue::new(any_ident(), Value::Int(kani::any()))];
            Value::Fact(f)
        }
        K::Id => Value::Id(BaseId::from_bytes(any_id32())),
        K::Enum => Value::Enum(any_ident(), kani::any()),
        K::Ident => Value::Identifier(any_ident()),
        K::None => Value::NONE,
        K::SomeInt => Value::Option(Some(Box::new(Value::Int(kani::any())))),
        K::OkInt => Value::Result(Ok(Box::new(Value::Int(kani::any())))),
        K::ErrBool => Value::Result(Err(Box::new(Value::Bool(kani::any())))),
    }
}

/// Symbolic choice among the given kinds (<= 16).  Unrolled by hand: a loop here would force a
/// larger global unwind bound, which also deepens the unwinding of the recursive `Value` drop glue.
fn any_value(ks: &[K]) -> Value {
    let sel: usize = kani::any();
    kani::assume(sel < ks.len());
    macro_rules! pick {
        ($($i:expr),*) => {
            $( if $i + 1 < ks.len() && sel == $i { return value_of(ks[$i]); } )*
        };
    }
    pick!(0, 1, 2, 3, 4, 5, 6, 7, 8, 9, 10, 11, 12, 13, 14);
    value_of(ks[ks.len() - 1])
}

/// Scalars only.
const SCALARS: &[K] = &[K::Unit, K::Int, K::Bool, K::None, K::Id];
/// Cheap filler for positions that only matter for the stack depth.
const FILL: &[K] = &[K::Unit, K::Int];
/// A broad mix: every scalar kind plus the small heap-carrying ones.
const MIX: &[K] = &[
    K::Unit,
    K::Int,
    K::Bool,
    K::Str,
    K::Bytes,
    K::Id,
    K::Enum,
    K::Ident,
    K::None,
    K::SomeInt,
    K::OkInt,
    K::ErrBool,
    K::Struct0,
    K::Fact0,
];
/// Struct-centred: what struct instructions want plus wrong types.
const STRUCTS: &[K] = &[K::Struct0, K::Struct1, K::Int, K::None, K::Fact0, K::Ident];
/// Fact-centred.
const FACTS: &[K] = &[K::Fact0, K::Fact1, K::Int, K::None, K::Struct0, K::Ident];
/// Identifier-centred.
const IDENTS: &[K] = &[K::Ident, K::Int, K::Str, K::None];

fn any_policy_ctx() -> PolicyContext {
    PolicyContext {
        name: any_ident(),
        id: CmdId::from_bytes(any_id32()),
        author: DeviceId::from_bytes(any_id32()),
        version: BaseId::from_bytes(any_id32()),
    }
}

/// Any of the five command contexts.
fn any_ctx() -> CommandContext {
    let k: u8 = kani::any();
    kani::assume(k < 5);
    if k == 0 {
        CommandContext::Action(ActionContext {
            name: any_ident(),
            head_id: CmdId::from_bytes(any_id32()),
        })
    } else if k == 1 {
        CommandContext::Seal(SealContext {
            name: any_ident(),
            head_id: CmdId::from_bytes(any_id32()),
        })
    } else if k == 2 {
        CommandContext::Open(OpenContext { name: any_ident() })
    } else if k == 3 {
        CommandContext::Policy(any_policy_ctx())
    } else {
        CommandContext::Recall(any_policy_ctx())
    }
}

// ---------------------------------------------------------------------------------------------
// MachineIO with arbitrary answers
// ---------------------------------------------------------------------------------------------

fn any_io_err() -> MachineIOError {
    let k: u8 = kani::any();
    if k == 0 {
        MachineIOError::FactExists
    } else if k == 1 {
        MachineIOError::FactNotFound
    } else {
        MachineIOError::Internal
    }
}

/// Query iterator yielding `left` (concrete) items, each either an arbitrary I/O error or a fact
/// with `nk` keys and `nv` values (concrete counts 0 or 1, symbolic names and contents).
pub(super) struct QIter {
    left: usize,
    nk: usize,
    nv: usize,
}

impl Iterator for QIter {
    type Item = Result<(FactKeyList, FactValueList), MachineIOError>;
    fn next(&mut self) -> Option<Self::Item> {
        if self.left == 0 {
            return None;
        }
        self.left -= 1;
        if kani::any() {
            return Some(Err(any_io_err()));
        }
        let keys = if self.nk == 0 {
            Vec::new()
        } else {
            vec![FactKey::new(any_ident(), HashableValue::Int(kani::any()))]
        };
        let values = if self.nv == 0 {
            Vec::new()
        } else {
            vec![FactValue::new(any_ident(), Value::Int(kani::any()))]
        };
        Some(Ok((keys, values)))
    }
}

/// `items`, `nk`, `nv`: concrete shape of query answers. Everything else is symbolic per call.
pub(super) struct Io {
    items: usize,
    nk: usize,
    nv: usize,
    /// kinds an external call may push
    push_kinds: &'static [K],
}

impl Io {
    fn new(items: usize, nk: usize, nv: usize) -> Self {
        Self {
            items,
            nk,
            nv,
            push_kinds: SCALARS,
        }
    }
}

impl MachineIO<MachineStack> for Io {
    type QueryIterator = QIter;

    fn fact_insert(
        &mut self,
        _name: Identifier,
        key: impl IntoIterator<Item = FactKey>,
        value: impl IntoIterator<Item = FactValue>,
    ) -> Result<(), MachineIOError> {
        core::mem::forget(key);
        core::mem::forget(value);
        if kani::any() { Ok(()) } else { Err(any_io_err()) }
    }

    fn fact_delete(
        &mut self,
        _name: Identifier,
        key: impl IntoIterator<Item = FactKey>,
    ) -> Result<(), MachineIOError> {
        core::mem::forget(key);
        if kani::any() { Ok(()) } else { Err(any_io_err()) }
    }

    fn fact_query(
        &self,
        _name: Identifier,
        key: impl IntoIterator<Item = FactKey>,
    ) -> Result<Self::QueryIterator, MachineIOError> {
        core::mem::forget(key);
        if kani::any() {
            Ok(QIter {
                left: self.items,
                nk: self.nk,
                nv: self.nv,
            })
        } else {
            Err(any_io_err())
        }
    }

    fn effect(
        &mut self,
        _name: Identifier,
        fields: impl IntoIterator<Item = KVPair>,
        _command: CmdId,
        _recalled: bool,
    ) {
        core::mem::forget(fields);
    }

    /// An external function may fail with any machine error class it can construct, or pop up to
    /// two values and push up to one value through the `Stack` trait (errors of those stack
    /// operations are propagated like the FFI glue does).
    fn call(
        &self,
        module: usize,
        procedure: usize,
        stack: &mut MachineStack,
        _ctx: &CommandContext,
    ) -> Result<(), MachineError> {
        let k: u8 = kani::any();
        if k == 0 {
            return Err(MachineError::new(MachineErrorType::FfiModuleNotDefined(module)));
        }
        if k == 1 {
            return Err(MachineError::new(MachineErrorType::FfiProcedureNotDefined(
                any_ident(),
                procedure,
            )));
        }
        if k == 2 {
            return Err(MachineError::new(MachineErrorType::IO(any_io_err())));
        }
        if kani::any() {
            let _ = stack.pop_value().map_err(MachineError::new)?;
        }
        if kani::any() {
            let _: i64 = stack.pop().map_err(MachineError::new)?;
        }
        if kani::any() {
            stack
                .push_value(any_value(self.push_kinds))
                .map_err(MachineError::new)?;
        }
        Ok(())
    }
}

// ---------------------------------------------------------------------------------------------
// machine state
// ---------------------------------------------------------------------------------------------

fn any_label_type() -> LabelType {
    let k: u8 = kani::any();
    kani::assume(k < 7);
    if k == 0 {
        LabelType::Action
    } else if k == 1 {
        LabelType::CommandPolicy
    } else if k == 2 {
        LabelType::CommandRecall
    } else if k == 3 {
        LabelType::CommandSeal
    } else if k == 4 {
        LabelType::CommandOpen
    } else if k == 5 {
        LabelType::Temporary
    } else {
        LabelType::Function
    }
}

/// Any jump target: any address (in or out of range) or an unresolved label.
fn any_target() -> Target {
    if kani::any() {
        Target::Resolved(kani::any())
    } else {
        Target::Unresolved(Label::new(any_ident(), any_label_type()))
    }
}

fn any_wrap() -> WrapType {
    let k: u8 = kani::any();
    kani::assume(k < 3);
    if k == 0 {
        WrapType::Ok
    } else if k == 1 {
        WrapType::Err
    } else {
        WrapType::Some
    }
}

fn any_type_kind() -> TypeKind {
    let k: u8 = kani::any();
    kani::assume(k < 5);
    if k == 0 {
        TypeKind::Int
    } else if k == 1 {
        TypeKind::Bool
    } else if k == 2 {
        TypeKind::Optional(Box::new(TypeKind::Int))
    } else if k == 3 {
        TypeKind::Struct(any_ident())
    } else {
        TypeKind::Enum(any_ident())
    }
}

fn any_const() -> ConstValue {
    let k: u8 = kani::any();
    kani::assume(k < 9);
    if k == 0 {
        ConstValue::Unit
    } else if k == 1 {
        ConstValue::Int(kani::any())
    } else if k == 2 {
        ConstValue::Bool(kani::any())
    } else if k == 3 {
        ConstValue::String(text!("x"))
    } else if k == 4 {
        ConstValue::Enum(any_ident(), kani::any())
    } else if k == 5 {
        ConstValue::NONE
    } else if k == 6 {
        ConstValue::Option(Some(Box::new(ConstValue::Int(kani::any()))))
    } else if k == 7 {
        ConstValue::Result(Err(Box::new(ConstValue::Bool(kani::any()))))
    } else {
        let mut fields = BTreeMap::new();
        core::mem::forget(fields.insert(any_ident(), ConstValue::Int(kani::any())));
        ConstValue::Struct(aranya_policy_module::ConstStruct {
            name: any_ident(),
            fields,
        })
    }
}

/// Which schema tables of the machine get one entry (symbolic names and types).
#[derive(Clone, Copy)]
struct Tables {
    structs: bool,
    facts: bool,
    globals: bool,
}
const NO_TABLES: Tables = Tables {
    structs: false,
    facts: false,
    globals: false,
};

/// Machine whose program is the single instruction `i`.
fn machine1(i: Instruction, t: Tables) -> Machine {
    let mut struct_defs = AutoMap::new();
    if t.structs {
        core::mem::forget(struct_defs.insert(StructDef {
            name: any_ident(),
            items: vec![Field {
                name: any_ident(),
                ty: any_type_kind(),
            }],
        }));
    }
    let mut fact_defs = AutoMap::new();
    if t.facts {
        core::mem::forget(fact_defs.insert(FactDef {
            name: any_ident(),
            key: vec![Field {
                name: any_ident(),
                ty: if kani::any() { TypeKind::Int } else { TypeKind::Bool },
            }],
            value: vec![Field {
                name: any_ident(),
                ty: any_type_kind(),
            }],
            immutable: kani::any(),
        }));
    }
    let mut globals = BTreeMap::new();
    if t.globals {
        core::mem::forget(globals.insert(any_ident(), ConstValue::Int(kani::any())));
    }
    // NB: `vec![i]` (exact-size allocation), not with_capacity(2)+push: with spare capacity CBMC
    // no longer constant-folds the discriminant of the instruction read back by `step`, and then
    // explores every arm of `Instruction::clone` / of the big match (measured: 4 GB+).
    Machine {
        progmem: vec![i],
        labels: BTreeMap::new(),
        action_defs: AutoMap::new(),
        command_defs: AutoMap::new(),
        fact_defs,
        struct_defs,
        enum_defs: AutoMap::new(),
        codemap: None,
        globals,
    }
}

/// Invariant of reachable run states used as precondition: `call_state` only ever receives stack
/// depths (<= STACK_SIZE) and program counters of executed instructions (< progmem.len()), so its
/// entries are at most `isize::MAX`.  Everything else about the state is unconstrained.
fn any_call_state(n: usize) -> Vec<usize> {
    let mut v = Vec::with_capacity(4);
    assert!(n <= 2);
    if n >= 1 {
        let x: usize = kani::any();
        kani::assume(x <= isize::MAX as usize);
        v.push(x);
    }
    if n >= 2 {
        let x: usize = kani::any();
        kani::assume(x <= isize::MAX as usize);
        v.push(x);
    }
    v
}

fn ign(r: Result<(), MachineErrorType>) {
    if let Err(e) = r {
        core::mem::forget(e);
    }
}

/// Scope shapes (CONCRETE selector; contents symbolic), built through ScopeManager's public API:
/// 0 `[[{}]]` fresh; 1 `[[{x: v}]]`; 2 `[[{x: v}, {}]]`; 3 `[[]]` (function scope, no block);
/// 4 `[]` (no function scope left); 5 `[[{}], [{}]]` (inside a called function).
fn shape_scope(rs: &mut RunState<'_, Io>, shape: u8) {
    if shape == 1 || shape == 2 {
        if let Err(e) = rs.scope.set(any_ident(), any_value(SCALARS)) {
            core::mem::forget(e);
        }
    }
    if shape == 2 {
        ign(rs.scope.enter_block());
    }
    if shape == 3 {
        ign(rs.scope.exit_block());
    }
    if shape == 4 {
        ign(rs.scope.exit_function());
    }
    if shape == 5 {
        rs.scope.enter_function();
    }
}

/// Run state over `m`: pc = 0 (CONCRETE: a symbolic pc makes the fetched instruction's
/// discriminant symbolic and the solver then explores every arm of `step`; out-of-range pcs have
/// their own harness), symbolic stack DEPTH 0..=kinds.len() whose top `depth` positions are typed
/// by the tail of `kinds`, `ncs` call-state entries, scope `shape`.
fn run_state<'a>(
    m: &'a Machine,
    io: &'a mut Io,
    ctx: CommandContext,
    kinds: &[&[K]],
    ncs: usize,
    shape: u8,
) -> RunState<'a, Io> {
    let mut rs = RunState::new(m, io, ctx);
    let skip: usize = kani::any();
    kani::assume(skip <= kinds.len());
    // unrolled by hand (no loop => small global unwind bound, see `any_value`)
    macro_rules! push_at {
        ($($i:expr),*) => {
            $( if $i < kinds.len() && $i >= skip {
                if let Err(v) = rs.stack.0.push(any_value(kinds[$i])) {
                    core::mem::forget(v);
                }
            } )*
        };
    }
    push_at!(0, 1, 2, 3, 4, 5);
    assert!(kinds.len() <= 6);
    rs.call_state = any_call_state(ncs);
    shape_scope(&mut rs, shape);
    rs
}

// outcome codes of one step
const EXEC: u8 = 0;
const EXIT: u8 = 1;
const ERR: u8 = 2;
const ERR_UNDERFLOW: u8 = 3;
const ERR_OVERFLOW: u8 = 4;
const ERR_TYPE: u8 = 5;

/// The oracle: the step came back (no panic, no arithmetic overflow, no out-of-bounds access —
/// Kani's built-in checks) with a status or a machine error, and the state invariants assumed
/// for pre-states hold again.
fn check_step(rs: &mut RunState<'_, Io>) -> u8 {
    let r = rs.step();
    let code = match &r {
        Ok(MachineStatus::Executing) => EXEC,
        Ok(MachineStatus::Exited(_)) => EXIT,
        Err(e) => match e.err_type {
            MachineErrorType::StackUnderflow => ERR_UNDERFLOW,
            MachineErrorType::StackOverflow => ERR_OVERFLOW,
            MachineErrorType::InvalidType { .. } => ERR_TYPE,
            _ => ERR,
        },
    };
    // universally quantified witness instead of a loop over the entries
    let w: usize = kani::any();
    if w < rs.call_state.len() {
        assert!(rs.call_state[w] <= isize::MAX as usize);
    }
    assert!(rs.stack.len() <= STACK_SIZE);
    core::mem::forget(r);
    code
}

/// One step of `ins` (CONCRETE kind, symbolic operands) from an arbitrary state.
fn step_full(
    ins: Instruction,
    t: Tables,
    io: Io,
    ctx: CommandContext,
    kinds: &[&[K]],
    ncs: usize,
    shape: u8,
) -> u8 {
    let m = machine1(ins, t);
    let mut io = io;
    let mut rs = run_state(&m, &mut io, ctx, kinds, ncs, shape);
    let code = check_step(&mut rs);
    core::mem::forget(rs);
    core::mem::forget(m);
    code
}

fn step1(ins: Instruction, kinds: &[&[K]]) -> u8 {
    step_full(ins, NO_TABLES, Io::new(0, 0, 0), any_ctx(), kinds, 0, 0)
}

const FULL: [&[K]; STACK_SIZE] = [FILL; STACK_SIZE];

// ---------------------------------------------------------------------------------------------
// harnesses: ONE step of ONE concrete opcode each (operands, stack, scope, context, I/O symbolic).
//
// Cost notes (measured): whatever `step` reads back from the stack (a MaybeUninit array) or from a
// BTreeMap node is fully symbolic to CBMC's symbolic execution, so every popped Value explores the
// whole recursive drop glue / conversion code.  The recursion depth and every loop are bounded by
// the same global unwind number, hence: one step per harness, containers with <= 1 element,
// values nested <= 2 deep, hand-unrolled harness loops, `unwind(2)` unless the instruction itself
// loops (then 3).  Unwinding assertions stay on, so a bound that is too small FAILS, never passes.
// ---------------------------------------------------------------------------------------------
macro_rules! step_harness {
    ($(#[$m:meta])* $name:ident, unwind $u:literal, $ins:expr, $t:expr, $io:expr, $kinds:expr,
     ncs $ncs:expr, shape $shape:expr, |$o:ident| $check:block) => {
        $(#[$m])*
        #[kani::proof]
        #[kani::stub(alloc::fmt::format, fmt_stub)]
        #[kani::unwind($u)]
        fn $name() {
            let $o = step_full($ins, $t, $io, any_ctx(), $kinds, $ncs, $shape);
            $check
        }
    };
}

const IO0: fn() -> Io = || Io::new(0, 0, 0);
const T_STRUCTS: Tables = Tables { structs: true, facts: false, globals: false };
const T_FACTS: Tables = Tables { structs: false, facts: true, globals: false };
const T_GLOBALS: Tables = Tables { structs: false, facts: false, globals: true };

fn full_with_top(top: &'static [K]) -> [&'static [K]; STACK_SIZE] {
    let mut k = FULL;
    k[STACK_SIZE - 1] = top;
    k
}

// ---- arithmetic / logic -----------------------------------------------------------------------
step_harness!(
    #[cfg(any())] // written but not run to completion on the shared box; not part of the claim
    c25_step_add, unwind 2, Instruction::Add, NO_TABLES, IO0(), &[MIX, MIX], ncs 0, shape 0, |o| {
    kani::cover!(o == EXEC, "add executes");
    kani::cover!(o == ERR_UNDERFLOW, "add on short stack");
    kani::cover!(o == ERR_TYPE, "add on non-ints");
});
step_harness!(
    #[cfg(any())] // written but not run to completion on the shared box; not part of the claim
    c25_step_sub, unwind 2, Instruction::Sub, NO_TABLES, IO0(), &[MIX, MIX], ncs 0, shape 0, |o| {
    kani::cover!(o == EXEC, "sub executes");
    kani::cover!(o == ERR_TYPE, "sub on non-ints");
});
step_harness!(
    #[cfg(any())] // written but not run to completion on the shared box; not part of the claim
    c25_step_saturating_add, unwind 2, Instruction::SaturatingAdd, NO_TABLES, IO0(), &[MIX, MIX], ncs 0, shape 0, |o| {
    kani::cover!(o == EXEC, "saturating add executes");
    kani::cover!(o == ERR_UNDERFLOW, "saturating add on short stack");
});
step_harness!(
    #[cfg(any())] // written but not run to completion on the shared box; not part of the claim
    c25_step_saturating_sub, unwind 2, Instruction::SaturatingSub, NO_TABLES, IO0(), &[MIX, MIX], ncs 0, shape 0, |o| {
    kani::cover!(o == EXEC, "saturating sub executes");
    kani::cover!(o == ERR_TYPE, "saturating sub on non-ints");
});
step_harness!(
    #[cfg(any())] // written but not run to completion on the shared box; not part of the claim
    c25_step_not, unwind 2, Instruction::Not, NO_TABLES, IO0(), &[MIX], ncs 0, shape 0, |o| {
    kani::cover!(o == EXEC, "not executes");
    kani::cover!(o == ERR_TYPE, "not on non-bool");
    kani::cover!(o == ERR_UNDERFLOW, "not on empty stack");
});
step_harness!(
    #[cfg(any())] // written but not run to completion on the shared box; not part of the claim
    c25_step_gt, unwind 2, Instruction::Gt, NO_TABLES, IO0(), &[MIX, MIX], ncs 0, shape 0, |o| {
    kani::cover!(o == EXEC, "gt executes");
    kani::cover!(o == ERR_TYPE, "gt on non-ints");
});
step_harness!(
    #[cfg(any())] // written but not run to completion on the shared box; not part of the claim
    c25_step_lt, unwind 2, Instruction::Lt, NO_TABLES, IO0(), &[MIX, MIX], ncs 0, shape 0, |o| {
    kani::cover!(o == EXEC, "lt executes");
    kani::cover!(o == ERR_UNDERFLOW, "lt on short stack");
});
const EQK: &[K] = &[
    K::Unit, K::Int, K::Bool, K::Str, K::Bytes, K::Id, K::Enum, K::Ident, K::None, K::SomeInt,
    K::OkInt, K::ErrBool, K::Struct0, K::Struct1, K::Fact0, K::Fact1,
];
step_harness!(
    #[cfg(any())] // written but not run to completion on the shared box; not part of the claim
    c25_step_eq, unwind 2, Instruction::Eq, NO_TABLES, IO0(), &[EQK, EQK], ncs 0, shape 0, |o| {
    kani::cover!(o == EXEC, "eq executes");
    kani::cover!(o == ERR_UNDERFLOW, "eq on short stack");
});

// ---- stack / data -----------------------------------------------------------------------------
step_harness!(
    #[cfg(any())] // written but not run to completion on the shared box; not part of the claim
    c25_step_const, unwind 2, Instruction::Const(any_const()), NO_TABLES, IO0(), &FULL, ncs 0, shape 0, |o| {
    kani::cover!(o == EXEC, "const pushes");
    kani::cover!(o == ERR_OVERFLOW, "const on full stack");
});
step_harness!(
    #[cfg(any())] // written but not run to completion on the shared box; not part of the claim
    c25_step_identifier, unwind 2, Instruction::Identifier(any_ident()), NO_TABLES, IO0(), &FULL, ncs 0, shape 0, |o| {
    kani::cover!(o == EXEC, "identifier pushes");
    kani::cover!(o == ERR_OVERFLOW, "identifier on full stack");
});
step_harness!(
    #[cfg(any())] // written but not run to completion on the shared box; not part of the claim
    c25_step_dup, unwind 2, Instruction::Dup, NO_TABLES, IO0(), &full_with_top(EQK), ncs 0, shape 0, |o| {
    kani::cover!(o == EXEC, "dup executes");
    kani::cover!(o == ERR_OVERFLOW, "dup on full stack");
    kani::cover!(o == ERR_UNDERFLOW, "dup on empty stack");
});
step_harness!(
    #[cfg(any())] // written but not run to completion on the shared box; not part of the claim
    c25_step_pop, unwind 2, Instruction::Pop, NO_TABLES, IO0(), &[EQK], ncs 0, shape 0, |o| {
    kani::cover!(o == EXEC, "pop executes (also on an empty stack)");
    assert!(o == EXEC);
});
fn any_meta() -> Meta {
    if kani::any() {
        Meta::Finish(kani::any())
    } else {
        Meta::FFI(any_ident(), any_ident())
    }
}
step_harness!(
    c25_step_meta, unwind 2, Instruction::Meta(any_meta()), NO_TABLES, IO0(), &[SCALARS], ncs 0, shape 0, |o| {
    kani::cover!(o == EXEC, "meta is a no-op");
    assert!(o == EXEC);
});
fn any_exit_reason() -> ExitReason {
    let k: u8 = kani::any();
    kani::assume(k < 4);
    if k == 0 {
        ExitReason::Normal
    } else if k == 1 {
        ExitReason::Yield
    } else if k == 2 {
        ExitReason::Check
    } else {
        ExitReason::Panic
    }
}
step_harness!(
    c25_step_exit, unwind 2, Instruction::Exit(any_exit_reason()), NO_TABLES, IO0(), &[SCALARS], ncs 0, shape 0, |o| {
    kani::cover!(o == EXIT, "exit exits");
    assert!(o == EXIT);
});
step_harness!(c25_step_savesp, unwind 2, Instruction::SaveSP, NO_TABLES, IO0(), &FULL, ncs 1, shape 0, |o| {
    kani::cover!(o == EXEC, "save sp executes");
    assert!(o == EXEC);
});
// the pop loop of RestoreSP runs up to STACK_SIZE - 1 times
step_harness!(
    #[cfg(any())] // written but not run to completion on the shared box; not part of the claim
    c25_step_restoresp_saved, unwind 7, Instruction::RestoreSP, NO_TABLES, IO0(), &FULL, ncs 2, shape 0, |o| {
    kani::cover!(o == EXEC, "restore sp executes");
    kani::cover!(o == ERR, "restore sp: too many values consumed");
});

// ---- scope ------------------------------------------------------------------------------------
step_harness!(
    #[cfg(any())] // written but not run to completion on the shared box; not part of the claim
    c25_step_def_local, unwind 2, Instruction::Def(any_ident()), T_GLOBALS, IO0(), &[MIX], ncs 0, shape 1, |o| {
    // a local exists (maybe the same name), a global exists (maybe the same name)
    kani::cover!(o == EXEC, "def defines");
    kani::cover!(o == ERR, "def: already defined");
    kani::cover!(o == ERR_UNDERFLOW, "def on empty stack");
});
step_harness!(
    #[cfg(any())] // written but not run to completion on the shared box; not part of the claim
    c25_step_def_no_block, unwind 2, Instruction::Def(any_ident()), NO_TABLES, IO0(), &[SCALARS], ncs 0, shape 3, |o| {
    kani::cover!(o == ERR, "def without block");
    assert!(o != EXEC);
});
step_harness!(
    #[cfg(any())] // written but not run to completion on the shared box; not part of the claim
    c25_step_get_local, unwind 2, Instruction::Get(any_ident()), T_GLOBALS, IO0(), &FULL, ncs 0, shape 2, |o| {
    kani::cover!(o == EXEC, "get finds a value");
    kani::cover!(o == ERR, "get: not defined");
    kani::cover!(o == ERR_OVERFLOW, "get on full stack");
});
step_harness!(
    #[cfg(any())] // written but not run to completion on the shared box; not part of the claim
    c25_step_block_enter, unwind 2, Instruction::Block, NO_TABLES, IO0(), &[FILL], ncs 0, shape 1, |o| {
    kani::cover!(o == EXEC, "block enters");
    assert!(o == EXEC);
});
step_harness!(
    #[cfg(any())] // written but not run to completion on the shared box; not part of the claim
    c25_step_end_leave, unwind 2, Instruction::End, NO_TABLES, IO0(), &[FILL], ncs 0, shape 1, |o| {
    kani::cover!(o == EXEC, "end leaves the block");
    assert!(o == EXEC);
});
step_harness!(
    #[cfg(any())] // written but not run to completion on the shared box; not part of the claim
    c25_step_end_no_block, unwind 2, Instruction::End, NO_TABLES, IO0(), &[FILL], ncs 0, shape 3, |o| {
    kani::cover!(o == ERR, "end without block");
    assert!(o == ERR);
});

// ---- control flow -----------------------------------------------------------------------------
step_harness!(
    c25_step_jump, unwind 2, Instruction::Jump(any_target()), NO_TABLES, IO0(), &[MIX], ncs 0, shape 0, |o| {
    kani::cover!(o == EXEC, "jump to any address");
    kani::cover!(o == ERR, "jump to unresolved target");
});
step_harness!(
    #[cfg(any())] // written but not run to completion on the shared box; not part of the claim
    c25_step_branch, unwind 2, Instruction::Branch(any_target()), NO_TABLES, IO0(), &[MIX], ncs 0, shape 0, |o| {
    kani::cover!(o == EXEC, "branch executes");
    kani::cover!(o == ERR, "branch to unresolved target");
    kani::cover!(o == ERR_TYPE, "branch on non-bool");
    kani::cover!(o == ERR_UNDERFLOW, "branch on empty stack");
});
step_harness!(
    #[cfg(any())] // written but not run to completion on the shared box; not part of the claim
    c25_step_call, unwind 2, Instruction::Call(any_target()), NO_TABLES, IO0(), &[MIX], ncs 1, shape 1, |o| {
    kani::cover!(o == EXEC, "call to any address");
    kani::cover!(o == ERR, "call to unresolved target");
});
step_harness!(
    #[cfg(any())] // written but not run to completion on the shared box; not part of the claim
    c25_step_recall, unwind 2, Instruction::Recall(any_target()), NO_TABLES, IO0(), &[MIX], ncs 1, shape 1, |o| {
    kani::cover!(o == EXEC, "recall in policy context");
    kani::cover!(o == ERR, "recall: wrong context or unresolved");
});
step_harness!(
    c25_step_return_outermost, unwind 2, Instruction::Return, NO_TABLES, IO0(), &[MIX], ncs 0, shape 0, |o| {
    kani::cover!(o == EXIT, "outermost return exits");
    assert!(o == EXIT);
});
step_harness!(
    #[cfg(any())] // written but not run to completion on the shared box; not part of the claim
    c25_step_return_to_caller, unwind 2, Instruction::Return, NO_TABLES, IO0(), &[MIX], ncs 1, shape 5, |o| {
    kani::cover!(o == EXEC, "return to caller");
    assert!(o == EXEC);
});
step_harness!(
    #[cfg(any())] // written but not run to completion on the shared box; not part of the claim
    c25_step_extcall, unwind 2, Instruction::ExtCall(kani::any(), kani::any()), NO_TABLES, IO0(), &full_with_top(MIX), ncs 0, shape 0, |o| {
    kani::cover!(o == EXEC, "external call returns");
    kani::cover!(o == ERR, "external call fails");
    kani::cover!(o == ERR_UNDERFLOW, "external call pops an empty stack");
    kani::cover!(o == ERR_OVERFLOW, "external call pushes on a full stack");
});
step_harness!(
    /// EXPECTED TO FAIL on the pinned tree: `Instruction::Next => todo!()`.
    c25_step_next, unwind 2, Instruction::Next, NO_TABLES, IO0(), &[SCALARS], ncs 0, shape 0, |o| {
    kani::cover!((o == EXEC) | (o == EXIT) | (o >= ERR), "next returns");
});
step_harness!(
    /// EXPECTED TO FAIL on the pinned tree: `Instruction::Last => todo!()`.
    c25_step_last, unwind 2, Instruction::Last, NO_TABLES, IO0(), &[SCALARS], ncs 0, shape 0, |o| {
    kani::cover!((o == EXEC) | (o == EXIT) | (o >= ERR), "last returns");
});

/// pc anywhere outside the program: error, no out-of-bounds fetch.
#[cfg(any())] // written but not run to completion on the shared box; not part of the claim
#[kani::proof]
#[kani::stub(alloc::fmt::format, fmt_stub)]
#[kani::unwind(2)]
fn c25_step_pc_out_of_range() {
    let m = machine1(Instruction::Add, NO_TABLES);
    let mut io = Io::new(0, 0, 0);
    let mut rs = run_state(&m, &mut io, any_ctx(), &[MIX], 1, 0);
    rs.pc = kani::any();
    kani::assume(rs.pc >= 1);
    let c = check_step(&mut rs);
    kani::cover!(rs.pc == usize::MAX, "pc = usize::MAX");
    assert!(c == ERR);
    core::mem::forget(rs);
    core::mem::forget(m);
}

// ---- option / result --------------------------------------------------------------------------
step_harness!(
    #[cfg(any())] // written but not run to completion on the shared box; not part of the claim
    c25_step_wrap, unwind 2, Instruction::Wrap(any_wrap()), NO_TABLES, IO0(), &full_with_top(MIX), ncs 0, shape 0, |o| {
    kani::cover!(o == EXEC, "wrap executes");
    kani::cover!(o == ERR_UNDERFLOW, "wrap on empty stack");
});
step_harness!(
    #[cfg(any())] // written but not run to completion on the shared box; not part of the claim
    c25_step_is, unwind 2, Instruction::Is(any_wrap()), NO_TABLES, IO0(), &[MIX], ncs 0, shape 0, |o| {
    kani::cover!(o == EXEC, "is executes");
    kani::cover!(o == ERR_UNDERFLOW, "is on empty stack");
});
step_harness!(
    #[cfg(any())] // written but not run to completion on the shared box; not part of the claim
    c25_step_unwrap, unwind 2, Instruction::Unwrap(any_wrap()), NO_TABLES, IO0(), &[MIX], ncs 0, shape 0, |o| {
    kani::cover!(o == EXEC, "unwrap executes");
    kani::cover!(o == ERR_TYPE, "unwrap of the wrong shape");
});

// ---- facts (building) -------------------------------------------------------------------------
step_harness!(
    #[cfg(any())] // written but not run to completion on the shared box; not part of the claim
    c25_step_fact_new, unwind 2, Instruction::FactNew(any_ident()), NO_TABLES, IO0(), &FULL, ncs 0, shape 0, |o| {
    kani::cover!(o == EXEC, "fact.new pushes");
    kani::cover!(o == ERR_OVERFLOW, "fact.new on full stack");
});
step_harness!(
    #[cfg(any())] // written but not run to completion on the shared box; not part of the claim
    c25_step_fact_kset, unwind 2, Instruction::FactKeySet(any_ident()), NO_TABLES, IO0(), &[FACTS, MIX], ncs 0, shape 0, |o| {
    kani::cover!(o == EXEC, "fact.kset executes");
    kani::cover!(o == ERR_TYPE, "fact.kset: wrong types");
});
step_harness!(
    #[cfg(any())] // written but not run to completion on the shared box; not part of the claim
    c25_step_fact_vset, unwind 2, Instruction::FactValueSet(any_ident()), NO_TABLES, IO0(), &[FACTS, MIX], ncs 0, shape 0, |o| {
    kani::cover!(o == EXEC, "fact.vset executes");
    kani::cover!(o == ERR_TYPE, "fact.vset: not a fact");
});

// ---- structs ----------------------------------------------------------------------------------
step_harness!(
    #[cfg(any())] // written but not run to completion on the shared box; not part of the claim
    c25_step_struct_new, unwind 2, Instruction::StructNew(any_ident()), NO_TABLES, IO0(), &FULL, ncs 0, shape 0, |o| {
    kani::cover!(o == EXEC, "struct.new pushes");
    kani::cover!(o == ERR_OVERFLOW, "struct.new on full stack");
});
step_harness!(
    #[cfg(any())] // written but not run to completion on the shared box; not part of the claim
    c25_step_struct_set, unwind 2, Instruction::StructSet(any_ident()), T_STRUCTS, IO0(), &[STRUCTS, MIX], ncs 0, shape 0, |o| {
    kani::cover!(o == EXEC, "struct.set executes");
    kani::cover!(o == ERR, "struct.set: unknown struct or member");
    kani::cover!(o == ERR_TYPE, "struct.set: not a struct");
});
step_harness!(
    #[cfg(any())] // written but not run to completion on the shared box; not part of the claim
    c25_step_struct_get, unwind 2, Instruction::StructGet(any_ident()), NO_TABLES, IO0(), &[STRUCTS], ncs 0, shape 0, |o| {
    kani::cover!(o == EXEC, "struct.get executes");
    kani::cover!(o == ERR, "struct.get: no such member");
});
step_harness!(
    #[cfg(any())] // written but not run to completion on the shared box; not part of the claim
    c25_step_mstructset_1, unwind 2, Instruction::MStructSet(NonZeroUsize::MIN), T_STRUCTS, IO0(), &[STRUCTS, IDENTS, MIX], ncs 0, shape 0, |o| {
    kani::cover!(o == EXEC, "mstruct.set 1 executes");
    kani::cover!(o == ERR, "mstruct.set 1: schema error");
    kani::cover!(o == ERR_TYPE, "mstruct.set 1: wrong types");
});
step_harness!(
    #[cfg(any())] // written but not run to completion on the shared box; not part of the claim
    /// EXPECTED TO FAIL on the pinned tree: the operand of `MStructSet` goes unchecked into
    /// `Vec::with_capacity(n)`, which panics ("capacity overflow") for large n.
    c25_step_mstructset_huge, unwind 2, Instruction::MStructSet(NonZeroUsize::MAX), NO_TABLES, IO0(), &[SCALARS], ncs 0, shape 0, |o| {
    kani::cover!(o >= ERR, "mstruct.set usize::MAX returns an error");
});
step_harness!(
    #[cfg(any())] // written but not run to completion on the shared box; not part of the claim
    c25_step_mstructget_1, unwind 2, Instruction::MStructGet(NonZeroUsize::MIN), NO_TABLES, IO0(), &[STRUCTS, IDENTS], ncs 0, shape 0, |o| {
    kani::cover!(o == EXEC, "mstruct.get 1 executes");
    kani::cover!(o == ERR, "mstruct.get 1: no such member");
    kani::cover!(o == ERR_TYPE, "mstruct.get 1: wrong types");
});
step_harness!(
    #[cfg(any())] // written but not run to completion on the shared box; not part of the claim
    c25_step_cast, unwind 2, Instruction::Cast(any_ident()), T_STRUCTS, IO0(), &[STRUCTS], ncs 0, shape 0, |o| {
    kani::cover!(o == EXEC, "cast executes");
    kani::cover!(o == ERR, "cast: unknown struct / missing field / wrong field type");
    kani::cover!(o == ERR_TYPE, "cast of a non-struct");
});

// ---- context-specific -------------------------------------------------------------------------
step_harness!(
    #[cfg(any())] // written but not run to completion on the shared box; not part of the claim
    c25_step_publish, unwind 2, Instruction::Publish, T_STRUCTS, IO0(), &[STRUCTS], ncs 0, shape 0, |o| {
    kani::cover!(o == EXIT, "publish yields");
    kani::cover!(o == ERR, "publish: schema mismatch");
});
step_harness!(
    #[cfg(any())] // written but not run to completion on the shared box; not part of the claim
    c25_step_emit, unwind 2, Instruction::Emit, T_STRUCTS, IO0(), &[STRUCTS], ncs 0, shape 0, |o| {
    kani::cover!(o == EXEC, "emit executes");
    kani::cover!(o == ERR, "emit: schema mismatch or wrong context");
});
step_harness!(
    #[cfg(any())] // written but not run to completion on the shared box; not part of the claim
    c25_step_create, unwind 2, Instruction::Create, NO_TABLES, IO0(), &[FACTS], ncs 0, shape 0, |o| {
    kani::cover!(o == EXEC, "create executes");
    kani::cover!(o == ERR, "create: io error");
    kani::cover!(o == ERR_TYPE, "create: not a fact");
});
step_harness!(
    #[cfg(any())] // written but not run to completion on the shared box; not part of the claim
    c25_step_delete, unwind 2, Instruction::Delete, NO_TABLES, IO0(), &[FACTS], ncs 0, shape 0, |o| {
    kani::cover!(o == EXEC, "delete executes");
    kani::cover!(o == ERR, "delete: io error");
});
step_harness!(
    #[cfg(any())] // written but not run to completion on the shared box; not part of the claim
    c25_step_update_found, unwind 2, Instruction::Update, NO_TABLES, Io::new(1, 1, 1), &[FACTS, FACTS], ncs 0, shape 0, |o| {
    kani::cover!(o == EXEC, "update executes");
    kani::cover!(o == ERR, "update: value mismatch / io error");
});
step_harness!(
    #[cfg(any())] // written but not run to completion on the shared box; not part of the claim
    c25_step_query_first, unwind 4, Instruction::Query, T_FACTS, Io::new(1, 1, 1), &full_with_top(FACTS), ncs 0, shape 0, |o| {
    kani::cover!(o == EXEC, "query executes");
    kani::cover!(o == ERR, "query: bad literal / io error");
    kani::cover!(o == ERR_TYPE, "query: not a fact");
});
step_harness!(
    #[cfg(any())] // written but not run to completion on the shared box; not part of the claim
    c25_step_factcount, unwind 3, Instruction::FactCount(kani::any()), T_FACTS, Io::new(1, 1, 1), &[FACTS], ncs 0, shape 0, |o| {
    kani::cover!(o == EXEC, "fact.count executes");
    kani::cover!(o == ERR, "fact.count: bad literal / io error");
});
step_harness!(
    #[cfg(any())] // written but not run to completion on the shared box; not part of the claim
    c25_step_querystart, unwind 2, Instruction::QueryStart, T_FACTS, Io::new(1, 1, 1), &[FACTS], ncs 0, shape 0, |o| {
    kani::cover!(o == EXEC, "query.start executes");
    kani::cover!(o == ERR, "query.start: bad literal / io error");
});

/// query.next with one cursor holding `left` answers.
fn querynext(left: usize) -> u8 {
    let m = machine1(Instruction::QueryNext(any_ident()), T_GLOBALS);
    let mut io = Io::new(0, 0, 0);
    let mut rs = run_state(&m, &mut io, any_ctx(), &FULL, 0, 1);
    rs.query_iter_stack = vec![QIter { left, nk: 1, nv: 1 }];
    let n = check_step(&mut rs);
    core::mem::forget(rs);
    core::mem::forget(m);
    n
}

#[cfg(any())] // written but not run to completion on the shared box; not part of the claim
#[kani::proof]
#[kani::stub(alloc::fmt::format, fmt_stub)]
#[kani::unwind(4)]
fn c25_step_querynext_result() {
    let n = querynext(1);
    kani::cover!(n == EXEC, "query.next binds a result");
    kani::cover!(n == ERR, "query.next: io error / name already defined");
}

// struct fields are bools here: an int field would need the 10-iteration varint loop (C26 covers
// the encodings themselves; this harness is about the instruction's own checks).
const SER_STRUCTS: &[K] = &[K::Struct0, K::Struct1Bool, K::Int, K::None, K::Fact0];
step_harness!(
    #[cfg(any())] // written but not run to completion on the shared box; not part of the claim
    c25_step_serialize, unwind 3, Instruction::Serialize, T_STRUCTS, IO0(), &[SER_STRUCTS], ncs 0, shape 0, |o| {
    kani::cover!(o == EXEC, "serialize executes");
    kani::cover!(o == ERR, "serialize: wrong context / schema");
});
const BYTES: &[K] = &[K::Bytes, K::Int];
step_harness!(
    #[cfg(any())] // written but not run to completion on the shared box; not part of the claim
    c25_step_deserialize, unwind 3, Instruction::Deserialize, T_STRUCTS, IO0(), &[BYTES], ncs 0, shape 0, |o| {
    kani::cover!(o == EXEC, "deserialize executes");
    kani::cover!(o == ERR, "deserialize: wrong context / bad bytes");
});

// ---- module-level corruption ------------------------------------------------------------------
fn machine_with_codemap(start: usize, end: usize) -> Machine {
    let mut m = machine1(Instruction::Add, NO_TABLES);
    let mut cm = CodeMap::new("ab");
    let _ = cm.map_instruction(0, aranya_policy_ast::Span::new(start, end));
    m.codemap = Some(cm);
    m
}

/// Errors are decorated with the source position from the module's code map; any span that
/// starts inside the text works (whatever its end).
#[kani::proof]
#[kani::stub(alloc::fmt::format, fmt_stub)]
#[kani::unwind(4)]
fn c25_err_position_codemap_inner() {
    let start: usize = kani::any();
    let end: usize = kani::any();
    kani::assume(start <= end);
    kani::assume(start < 2); // strictly inside the 2-byte text; `end` is arbitrary
    let m = machine_with_codemap(start, end);
    let mut io = Io::new(0, 0, 0);
    let mut rs = run_state(&m, &mut io, any_ctx(), &[], 0, 0);
    let c = check_step(&mut rs);
    kani::cover!((c == ERR_UNDERFLOW) & (end == 2), "error decorated with an in-range span");
    kani::cover!((c == ERR_UNDERFLOW) & (end > 2), "error with an out-of-range span");
    assert!(c == ERR_UNDERFLOW);
    core::mem::forget(rs);
    core::mem::forget(m);
}

/// EXPECTED TO FAIL on the pinned tree: a module whose code map has a span starting at the end
/// of the source text (e.g. the empty span at EOF) makes `SpannedText::linecol` hit
/// `assert!(pos < self.text.len())` while decorating ANY machine error.
#[kani::proof]
#[kani::stub(alloc::fmt::format, fmt_stub)]
#[kani::unwind(4)]
fn c25_err_position_codemap_span_at_end() {
    let m = machine_with_codemap(2, 2);
    let mut io = Io::new(0, 0, 0);
    let mut rs = run_state(&m, &mut io, any_ctx(), &[], 0, 0);
    let c = check_step(&mut rs);
    kani::cover!(c == ERR_UNDERFLOW, "error returned");
    core::mem::forget(rs);
    core::mem::forget(m);
}

/// `Machine::from_module` on a hand-built module whose labels point anywhere, then the public
/// entry `call_action` (setup + run): ends in an exit or a machine error.
// NOT REGISTERED: exceeds the 14 GB memory cap in CBMC (two separate thorough runs), kept for reference.
#[cfg(any())]
#[kani::proof]
#[kani::stub(alloc::fmt::format, fmt_stub)]
#[kani::unwind(3)]
fn c25_from_module_bad_labels() {
    use aranya_policy_module::{ModuleV0, Persistence};
    let name = any_ident();
    let mut labels = BTreeMap::new();
    let addr: usize = kani::any();
    core::mem::forget(labels.insert(Label::new(any_ident(), any_label_type()), addr));
    let v0 = ModuleV0 {
        progmem: vec![Instruction::Return].into_boxed_slice(),
        labels,
        action_defs: vec![ActionDef {
            name: name.clone(),
            persistence: Persistence::Persistent,
            params: Vec::new(),
            result_type: TypeKind::Unit,
        }],
        command_defs: Vec::new(),
        fact_defs: Vec::new(),
        struct_defs: Vec::new(),
        enum_defs: Vec::new(),
        codemap: None,
        globals: BTreeMap::new(),
    };
    let mut m = match Machine::from_module(Module { data: ModuleData::V0(v0) }) {
        Ok(m) => m,
        Err(_) => {
            assert!(false, "V0 modules are supported");
            return;
        }
    };
    let mut io = Io::new(0, 0, 0);
    let ctx = CommandContext::Action(ActionContext {
        name: any_ident(),
        head_id: CmdId::from_bytes(any_id32()),
    });
    let no_args: [Value; 0] = [];
    let r = m.call_action(name, no_args, &mut io, ctx);
    kani::cover!(matches!(r, Ok(ExitReason::Normal)), "label in range: runs to a normal exit");
    kani::cover!(r.is_err() & (addr > 0), "label out of range: machine error");
    kani::cover!(r.is_err() & (addr == 0), "label missing / context mismatch: machine error");
    core::mem::forget(r);
    core::mem::forget(m);
}

