// C39 - AFC messages are authenticated and opening never panics.
//
// Child module of aranya_fast_channels::client (appended by the overlay).  The real
// Client::{open, open_in_place, seal, seal_in_place, do_open, do_seal}, header
// encode/parse, FixedBuf, afc::{SealKey, OpenKey}, hpke::{SealCtx, OpenCtx, Seq} and
// the default methods of the `Aead` trait run against a stand-in AEAD (see common.rs).
#![allow(dead_code, clippy::all)]

use core::marker::PhantomData;

use aranya_crypto::{
    afc::{RawOpenKey, RawSealKey},
    dangerous::spideroak_crypto::{aead::Nonce, keys::SecretKeyBytes},
    hybrid_array::Array,
    typenum::U12,
};

use super::*;
use crate::buf::FixedBuf;

#[path = "common.rs"]
mod common;
use common::{AD, AdvAead, NONCE, TAG, ToyAead, VA, VCs, ghost};

const HDR: usize = 8;
const OVERHEAD: usize = TAG + HDR;

// ---------------------------------------------------------------------------------
// Harness AfcState: the context *is* the key; the label is the state's.
// ---------------------------------------------------------------------------------

struct VState<A> {
    label: LabelId,
    /// May `seal`/`open` report the channel as gone (arbitrarily)?
    may_fail: bool,
    _a: PhantomData<A>,
}

impl<A: VA> AfcState for VState<A> {
    type CipherSuite = VCs<A>;
    type SealCtx = SealKey<VCs<A>>;
    type OpenCtx = OpenKey<VCs<A>>;

    fn setup_seal_ctx(&self, id: LocalChannelId) -> Result<Self::SealCtx, Error> {
        Err(Error::NotFound(id))
    }

    fn setup_open_ctx(&self, id: LocalChannelId) -> Result<Self::OpenCtx, Error> {
        Err(Error::NotFound(id))
    }

    fn seal<F, T>(&self, ctx: &mut Self::SealCtx, f: F) -> Result<Result<T, Error>, Error>
    where
        F: FnOnce(&mut SealKey<Self::CipherSuite>, LabelId) -> Result<T, Error>,
    {
        if self.may_fail && kani::any() {
            return Err(Error::KeyExpired);
        }
        Ok(f(ctx, self.label))
    }

    fn open<F, T>(&self, ctx: &mut Self::OpenCtx, f: F) -> Result<Result<T, Error>, Error>
    where
        F: FnOnce(&OpenKey<Self::CipherSuite>, LabelId) -> Result<T, Error>,
    {
        if self.may_fail && kani::any() {
            return Err(Error::KeyExpired);
        }
        Ok(f(ctx, self.label))
    }

    fn exists(&self, _id: LocalChannelId) -> Result<bool, Error> {
        Ok(true)
    }
}

fn any_label() -> ([u8; 32], LabelId) {
    let b: [u8; 32] = kani::any();
    (b, LabelId::from_bytes(b))
}

fn nonce_of(base: &[u8; NONCE]) -> Nonce<U12> {
    match Nonce::<U12>::try_from(&base[..]) {
        Ok(n) => n,
        Err(_) => unreachable!(),
    }
}

fn open_key<A: VA>(base: &[u8; NONCE]) -> OpenKey<VCs<A>> {
    let raw = RawOpenKey::<VCs<A>> {
        key: SecretKeyBytes::new(Array([0x42u8; 32])),
        base_nonce: nonce_of(base),
    };
    let k = match OpenKey::from_raw(&raw) {
        Ok(k) => k,
        Err(_) => unreachable!(),
    };
    core::mem::forget(raw);
    k
}

fn seal_key<A: VA>(base: &[u8; NONCE], seq: u64) -> SealKey<VCs<A>> {
    let raw = RawSealKey::<VCs<A>> {
        key: SecretKeyBytes::new(Array([0x42u8; 32])),
        base_nonce: nonce_of(base),
    };
    let k = match SealKey::from_raw(&raw, Seq::new(seq)) {
        Ok(k) => k,
        Err(_) => unreachable!(),
    };
    core::mem::forget(raw);
    k
}

/// HPKE nonce for `seq`: base_nonce xor (0^4 || be64(seq)).
fn expect_nonce(base: &[u8; NONCE], seq: u64) -> [u8; NONCE] {
    let s = seq.to_be_bytes();
    let mut n = *base;
    let mut i = 0;
    while i < 8 {
        n[4 + i] ^= s[i];
        i += 1;
    }
    n
}

/// AuthData bytes: le32(version) || label.
fn expect_ad(label: &[u8; 32]) -> [u8; AD] {
    let mut a = [0u8; AD];
    a[0] = 0x54;
    a[1] = 0x6f;
    let mut i = 0;
    while i < 32 {
        a[4 + i] = label[i];
        i += 1;
    }
    a
}

fn le64_at(b: &[u8], off: usize) -> u64 {
    let mut a = [0u8; 8];
    let mut i = 0;
    while i < 8 {
        a[i] = b[off + i];
        i += 1;
    }
    u64::from_le_bytes(a)
}

fn all_zero(b: &[u8]) -> bool {
    let mut z = true;
    let mut i = 0;
    while i < b.len() {
        z &= b[i] == 0;
        i += 1;
    }
    z
}

fn same(a: &[u8], b: &[u8]) -> bool {
    if a.len() != b.len() {
        return false;
    }
    let mut z = true;
    let mut i = 0;
    while i < a.len() {
        z &= a[i] == b[i];
        i += 1;
    }
    z
}

/// The AEAD was handed exactly the message's pieces: data = msg[..n], tag =
/// msg[n..n+16], nonce derived from the header's sequence number, AD = version||label.
fn assert_open_inputs(msg: &[u8], base: &[u8; NONCE], label: &[u8; 32]) {
    let g = ghost();
    let len = msg.len();
    assert!(len >= OVERHEAD);
    let n = len - OVERHEAD;
    assert!(g.data_len == n);
    assert!(same(&g.data_in[..n], &msg[..n]));
    assert!(g.tag_len == TAG);
    assert!(same(&g.tag[..], &msg[n..n + TAG]));
    let seq = le64_at(msg, n + TAG);
    assert!(g.nonce == expect_nonce(base, seq));
    assert!(g.ad_len == AD);
    assert!(g.ad == expect_ad(label));
}

const MAXCT: usize = 40;
const MAXDST: usize = 20;
const MSG: usize = MAXCT + 2;

/// Everything symbolic, created once per proof; each case is decided for all values.
struct Env<A: VA> {
    lb: [u8; 32],
    label: LabelId,
    base: [u8; NONCE],
    client: Client<VState<A>>,
    okey: OpenKey<VCs<A>>,
    skey: SealKey<VCs<A>>,
    /// message / plaintext bytes; a case of length `len` uses `msg[..len]`
    msg: [u8; MSG],
    /// initial contents of output buffers
    fill: [u8; MSG],
}

fn env<A: VA>(may_fail: bool) -> Env<A> {
    let (lb, label) = any_label();
    let base: [u8; NONCE] = kani::any();
    Env {
        lb,
        label,
        base,
        client: Client::new(VState::<A> {
            label,
            may_fail,
            _a: PhantomData,
        }),
        okey: open_key::<A>(&base),
        skey: seal_key::<A>(&base, kani::any()),
        msg: kani::any(),
        fill: kani::any(),
    }
}

/// Reduce the client's result to plain data at once and forget the `Error` value.
/// `Result<_, Error>` is a niche-encoded enum over five levels of nested error enums;
/// every move of one is a type-punned assignment that costs CBMC's symbolic execution
/// seconds, so the harness does not carry it around.
fn simple(r: Result<(LabelId, Seq), Error>) -> Option<(LabelId, u64)> {
    match r {
        Ok((l, s)) => Some((l, s.to_u64())),
        Err(e) => {
            core::mem::forget(e);
            None
        }
    }
}

fn simple_hdr(r: Result<Header, Error>) -> Option<Header> {
    match r {
        Ok(h) => Some(h),
        Err(e) => {
            core::mem::forget(e);
            None
        }
    }
}

/// What happened, for the vacuity witnesses in the proof functions.
#[derive(Copy, Clone)]
struct Out {
    calls: u32,
    ok: bool,
}

// ---------------------------------------------------------------------------------
// open: any byte string, any destination (adversarial AEAD)
// ---------------------------------------------------------------------------------

/// One `Client::open` call on a message of concrete length `len` (symbolic bytes)
/// into a destination of concrete length `dlen` inside a larger array.
fn open_case(e: &mut Env<AdvAead>, len: usize, dlen: usize) -> Out {
    common::ghost_reset();
    let (lb, label, base) = (e.lb, e.label, e.base);
    let ct_arr = e.msg;
    let mut dst_arr = e.fill;

    let res = simple(e.client.open(&mut e.okey, &mut dst_arr[..dlen], &ct_arr[..len]));

    let g = ghost();
    let msg = &ct_arr[..len];
    let dst = &dst_arr[..dlen];
    assert!(g.open_calls <= 1);
    // Bytes past the destination slice are never touched.
    assert!(same(&dst_arr[dlen..], &e.fill[dlen..]));
    if len < OVERHEAD {
        // Truncated below header + tag: error, and the AEAD is never consulted.
        assert!(res.is_none());
        assert!(g.open_calls == 0);
    }
    if g.open_calls == 1 {
        assert_open_inputs(msg, &base, &lb);
        assert!(dlen >= len - OVERHEAD);
    }
    let ok = match res {
        Some((l, s)) => {
            assert!(g.open_calls == 1);
            assert!(g.last_ok);
            assert!(l == label);
            assert!(s == le64_at(msg, len - HDR));
            let n = len - OVERHEAD;
            // The plaintext delivered is what the AEAD produced.
            assert!(same(&dst[..n], &g.data_out[..n]));
            true
        }
        None => {
            if g.open_calls == 0 {
                // Nothing was decrypted.  Rejected before the key was consulted
                // (too short, destination too small): destination untouched.  Channel
                // gone / key exhausted: untouched or wiped.
                let untouched = same(dst, &e.fill[..dlen]);
                if len < OVERHEAD || dlen < len - OVERHEAD {
                    assert!(untouched);
                } else {
                    assert!(untouched || all_zero(dst));
                }
            } else {
                // Decryption failed: whole destination wiped.
                assert!(!g.last_ok);
                assert!(all_zero(dst));
            }
            false
        }
    };
    Out {
        calls: g.open_calls,
        ok,
    }
}

/// Message lengths lo..=hi, all below header + tag; destination 0 or 3 bytes.
fn open_truncated(lo: usize, hi: usize) {
    let e = &mut env::<AdvAead>(true);
    let mut len = lo;
    while len <= hi {
        let o = open_case(e, len, if len & 1 == 0 { 0 } else { 3 });
        assert!(!o.ok && o.calls == 0);
        kani::cover!(!o.ok, "err on truncated input");
        len += 1;
    }
}

/// Message lengths lo..=hi (step `step`), each with the destination one short /
/// exact / 3 larger.
fn open_full(lo: usize, hi: usize, step: usize) {
    let e = &mut env::<AdvAead>(true);
    let mut len = lo;
    while len <= hi {
        let need = len - OVERHEAD;
        if need > 0 {
            let o = open_case(e, len, need - 1);
            assert!(!o.ok && o.calls == 0);
            kani::cover!(!o.ok, "err: dst too small");
        }
        let o = open_case(e, len, need);
        kani::cover!(o.ok, "open ok, exact dst");
        kani::cover!(!o.ok & (o.calls == 0), "err: state failure or key expired");
        kani::cover!(!o.ok & (o.calls == 1), "err after AEAD call, dst wiped");
        let o = open_case(e, len, need + 3);
        kani::cover!(o.ok, "open ok, dst larger than needed");
        kani::cover!(!o.ok & (o.calls == 1), "err after AEAD call, larger dst wiped");
        len += step;
    }
}

#[kani::proof]
#[kani::unwind(45)]
#[kani::stub(aranya_crypto::zeroize::optimization_barrier, common::no_barrier)]
fn c39_open_truncated_0_7() {
    open_truncated(0, 7);
}
#[kani::proof]
#[kani::unwind(45)]
#[kani::stub(aranya_crypto::zeroize::optimization_barrier, common::no_barrier)]
fn c39_open_truncated_8_15() {
    open_truncated(8, 15);
}
#[kani::proof]
#[kani::unwind(45)]
#[kani::stub(aranya_crypto::zeroize::optimization_barrier, common::no_barrier)]
fn c39_open_truncated_16_23() {
    open_truncated(16, 23);
}
#[kani::proof]
#[kani::unwind(45)]
#[kani::stub(aranya_crypto::zeroize::optimization_barrier, common::no_barrier)]
fn c39_open_any_bytes_24_25() {
    open_full(24, 25, 1);
}
#[kani::proof]
#[kani::unwind(45)]
#[kani::stub(aranya_crypto::zeroize::optimization_barrier, common::no_barrier)]
fn c39_open_any_bytes_40() {
    open_full(40, 40, 1);
}
#[kani::proof]
#[kani::unwind(45)]
#[kani::stub(aranya_crypto::zeroize::optimization_barrier, common::no_barrier)]
fn c39_open_any_bytes_26_28() {
    open_full(26, 28, 1);
}
#[kani::proof]
#[kani::unwind(45)]
#[kani::stub(aranya_crypto::zeroize::optimization_barrier, common::no_barrier)]
fn c39_open_any_bytes_29_31() {
    open_full(29, 31, 1);
}
#[kani::proof]
#[kani::unwind(45)]
#[kani::stub(aranya_crypto::zeroize::optimization_barrier, common::no_barrier)]
fn c39_open_any_bytes_32_34() {
    open_full(32, 34, 1);
}
#[kani::proof]
#[kani::unwind(45)]
#[kani::stub(aranya_crypto::zeroize::optimization_barrier, common::no_barrier)]
fn c39_open_any_bytes_35_37() {
    open_full(35, 37, 1);
}
#[kani::proof]
#[kani::unwind(45)]
#[kani::stub(aranya_crypto::zeroize::optimization_barrier, common::no_barrier)]
fn c39_open_any_bytes_38_39() {
    open_full(38, 39, 1);
}

// ---------------------------------------------------------------------------------
// open_in_place: any byte string (FixedBuf, adversarial AEAD)
// ---------------------------------------------------------------------------------

/// One `Client::open_in_place` call on a `FixedBuf` holding `len` symbolic bytes with
/// capacity `cap`.
fn open_in_place_case(e: &mut Env<AdvAead>, len: usize, cap: usize) -> Out {
    common::ghost_reset();
    let (lb, label, base) = (e.lb, e.label, e.base);
    let init = e.msg;
    let mut backing = init;

    let (res, after_len) = {
        let mut buf = match FixedBuf::from_slice_mut(&mut backing[..cap], len) {
            Some(b) => b,
            None => unreachable!(),
        };
        let res = simple(e.client.open_in_place(&mut e.okey, &mut buf));
        let l = Buf::len(&buf);
        (res, l)
    };

    let g = ghost();
    let msg = &init[..len];
    assert!(g.open_calls <= 1);
    // Bytes past the message are never touched.
    assert!(same(&backing[len..], &init[len..]));
    if len < OVERHEAD {
        assert!(res.is_none());
        assert!(g.open_calls == 0);
    }
    if g.open_calls == 1 {
        assert_open_inputs(msg, &base, &lb);
    }
    let ok = match res {
        Some((l, s)) => {
            assert!(g.open_calls == 1);
            assert!(g.last_ok);
            assert!(l == label);
            assert!(s == le64_at(msg, len - HDR));
            let n = len - OVERHEAD;
            // Truncated to exactly the plaintext, which is what the AEAD produced.
            assert!(after_len == n);
            assert!(same(&backing[..n], &g.data_out[..n]));
            true
        }
        None => {
            if g.open_calls == 0 {
                // Nothing was decrypted: the buffer still holds the ciphertext, or
                // (channel gone / key exhausted) has been wiped.
                assert!(after_len == len);
                let untouched = same(&backing[..len], msg);
                if len < OVERHEAD {
                    assert!(untouched);
                } else {
                    assert!(untouched || all_zero(&backing[..len]));
                }
            } else {
                assert!(!g.last_ok);
                // The region the AEAD wrote to (in fact the whole message) is wiped.
                assert!(all_zero(&backing[..len]));
            }
            false
        }
    };
    Out {
        calls: g.open_calls,
        ok,
    }
}

/// Lengths lo..=hi, all below header + tag.
fn open_in_place_truncated(lo: usize, hi: usize) {
    let e = &mut env::<AdvAead>(true);
    let mut len = lo;
    while len <= hi {
        let o = open_in_place_case(e, len, len + (len & 1));
        assert!(!o.ok && o.calls == 0);
        kani::cover!(!o.ok, "err on truncated input");
        len += 1;
    }
}

fn open_in_place_full(lo: usize, hi: usize) {
    let e = &mut env::<AdvAead>(true);
    let mut len = lo;
    while len <= hi {
        let o = open_in_place_case(e, len, len + (len & 1));
        kani::cover!(o.ok, "open_in_place ok");
        kani::cover!(!o.ok & (o.calls == 0), "err: state failure or key expired");
        kani::cover!(!o.ok & (o.calls == 1), "err after AEAD call, buffer wiped");
        len += 1;
    }
}

// Lengths 0..=7: not even a header.
#[kani::proof]
#[kani::unwind(45)]
#[kani::stub(aranya_crypto::zeroize::optimization_barrier, common::no_barrier)]
fn c39_open_in_place_no_header() {
    open_in_place_truncated(0, 7);
}
// Lengths 8..=23: a whole header (8 bytes) but fewer than 16 bytes before it.
// `Client::open` rejects these with `checked_sub`; `open_in_place` must too.
#[kani::proof]
#[kani::unwind(45)]
#[kani::stub(aranya_crypto::zeroize::optimization_barrier, common::no_barrier)]
fn c39_open_in_place_short_input() {
    open_in_place_truncated(8, 23);
}
#[kani::proof]
#[kani::unwind(45)]
#[kani::stub(aranya_crypto::zeroize::optimization_barrier, common::no_barrier)]
fn c39_open_in_place_any_bytes_24_26() {
    open_in_place_full(24, 26);
}
#[kani::proof]
#[kani::unwind(45)]
#[kani::stub(aranya_crypto::zeroize::optimization_barrier, common::no_barrier)]
fn c39_open_in_place_any_bytes_40() {
    open_in_place_full(40, 40);
}
#[kani::proof]
#[kani::unwind(45)]
#[kani::stub(aranya_crypto::zeroize::optimization_barrier, common::no_barrier)]
fn c39_open_in_place_any_bytes_27_31() {
    open_in_place_full(27, 31);
}
#[kani::proof]
#[kani::unwind(45)]
#[kani::stub(aranya_crypto::zeroize::optimization_barrier, common::no_barrier)]
fn c39_open_in_place_any_bytes_32_35() {
    open_in_place_full(32, 35);
}
#[kani::proof]
#[kani::unwind(45)]
#[kani::stub(aranya_crypto::zeroize::optimization_barrier, common::no_barrier)]
fn c39_open_in_place_any_bytes_36_37() {
    open_in_place_full(36, 37);
}
#[kani::proof]
#[kani::unwind(45)]
#[kani::stub(aranya_crypto::zeroize::optimization_barrier, common::no_barrier)]
fn c39_open_in_place_any_bytes_38_39() {
    open_in_place_full(38, 39);
}

// ---------------------------------------------------------------------------------
// seal / seal_in_place against the adversarial AEAD
// ---------------------------------------------------------------------------------

/// The AEAD was handed the plaintext, the nonce of the key's current sequence number
/// and AD = version||label.
fn assert_seal_inputs(pt: &[u8], base: &[u8; NONCE], label: &[u8; 32], seq: u64) {
    let g = ghost();
    assert!(g.data_len == pt.len());
    assert!(same(&g.data_in[..pt.len()], pt));
    assert!(g.tag_len == TAG);
    assert!(g.nonce == expect_nonce(base, seq));
    assert!(g.ad_len == AD);
    assert!(g.ad == expect_ad(label));
}

/// Layout of a sealed message: AEAD output || AEAD tag || le64(seq).
fn assert_sealed_layout(out: &[u8], n: usize, seq: u64) {
    let g = ghost();
    assert!(same(&out[..n], &g.data_out[..n]));
    assert!(same(&out[n..n + TAG], &g.tag[..]));
    assert!(le64_at(out, n + TAG) == seq);
}

fn is_data_hdr(h: &Header) -> bool {
    matches!(h.version, Version::V1) && matches!(h.msg_type, MsgType::Data)
}

fn seal_case(e: &mut Env<AdvAead>, n: usize, dlen: usize) -> Out {
    common::ghost_reset();
    let (lb, base) = (e.lb, e.base);
    let pt_arr = e.msg;
    let pt = &pt_arr[..n];
    let mut dst_arr = e.fill;
    let s0 = e.skey.seq().to_u64();

    let res = simple_hdr(e.client.seal(&mut e.skey, &mut dst_arr[..dlen], pt));

    let g = ghost();
    let s1 = e.skey.seq().to_u64();
    assert!(g.seal_calls <= 1);
    assert!(same(&dst_arr[dlen..], &e.fill[dlen..]));
    if dlen < n + OVERHEAD {
        // "dst must be at least plaintext.len() + OVERHEAD bytes long"
        assert!(res.is_none());
        assert!(g.seal_calls == 0);
        assert!(same(&dst_arr[..dlen], &e.fill[..dlen]));
    }
    if g.seal_calls == 1 {
        assert_seal_inputs(pt, &base, &lb, s0);
        assert!(s0 < u64::MAX);
    }
    let ok = match res {
        Some(h) => {
            assert!(g.seal_calls == 1 && g.last_ok);
            assert!(is_data_hdr(&h));
            assert_sealed_layout(&dst_arr[..dlen], n, s0);
            // bytes past the message are untouched
            assert!(same(&dst_arr[n + OVERHEAD..dlen], &e.fill[n + OVERHEAD..dlen]));
            assert!(s1 == s0 + 1);
            true
        }
        None => {
            assert!(s1 == s0);
            if g.seal_calls == 1 {
                // Encryption failed: nothing of the plaintext (or of whatever the
                // AEAD left behind) stays in the output.
                assert!(!g.last_ok);
                assert!(all_zero(&dst_arr[..n + OVERHEAD]));
            }
            false
        }
    };
    Out {
        calls: g.seal_calls,
        ok,
    }
}

fn seal_adv(n: usize) {
    let e = &mut env::<AdvAead>(true);
    let o = seal_case(e, n, n + OVERHEAD - 1);
    kani::cover!(!o.ok, "err: dst too small");
    let o = seal_case(e, n, n + OVERHEAD);
    kani::cover!(o.ok, "seal ok, exact dst");
    kani::cover!(!o.ok & (o.calls == 1), "seal err after AEAD call, dst wiped");
    kani::cover!(!o.ok & (o.calls == 0), "seal err: state failure or key expired");
    let o = seal_case(e, n, n + OVERHEAD + 2);
    kani::cover!(o.ok, "seal ok, larger dst");
    kani::cover!(!o.ok & (o.calls == 1), "seal err after AEAD call, larger dst");
}

#[kani::proof]
#[kani::unwind(45)]
#[kani::stub(aranya_crypto::zeroize::optimization_barrier, common::no_barrier)]
fn c39_seal_adv_0() {
    seal_adv(0);
}
#[kani::proof]
#[kani::unwind(45)]
#[kani::stub(aranya_crypto::zeroize::optimization_barrier, common::no_barrier)]
fn c39_seal_adv_5() {
    seal_adv(5);
}
#[kani::proof]
#[kani::unwind(45)]
#[kani::stub(aranya_crypto::zeroize::optimization_barrier, common::no_barrier)]
fn c39_seal_adv_16() {
    seal_adv(16);
}

fn seal_in_place_case(e: &mut Env<AdvAead>, n: usize, cap: usize) -> Out {
    common::ghost_reset();
    let (lb, base) = (e.lb, e.base);
    let init = e.msg;
    let mut backing = init;
    let s0 = e.skey.seq().to_u64();

    let (res, after_len) = {
        let mut buf = match FixedBuf::from_slice_mut(&mut backing[..cap], n) {
            Some(b) => b,
            None => unreachable!(),
        };
        let res = simple_hdr(e.client.seal_in_place(&mut e.skey, &mut buf));
        let l = Buf::len(&buf);
        (res, l)
    };

    let g = ghost();
    let s1 = e.skey.seq().to_u64();
    assert!(g.seal_calls <= 1);
    assert!(same(&backing[cap..], &init[cap..]));
    if cap < n + OVERHEAD {
        // No room for tag + header: error, plaintext left as it was.
        assert!(res.is_none());
        assert!(g.seal_calls == 0);
        assert!(after_len == n);
        assert!(same(&backing[..cap], &init[..cap]));
    }
    if g.seal_calls == 1 {
        assert_seal_inputs(&init[..n], &base, &lb, s0);
    }
    let ok = match res {
        Some(h) => {
            assert!(g.seal_calls == 1 && g.last_ok);
            assert!(is_data_hdr(&h));
            assert!(after_len == n + OVERHEAD);
            assert_sealed_layout(&backing[..cap], n, s0);
            assert!(same(&backing[n + OVERHEAD..cap], &init[n + OVERHEAD..cap]));
            assert!(s1 == s0 + 1);
            true
        }
        None => {
            assert!(s1 == s0);
            if g.seal_calls == 1 {
                assert!(!g.last_ok);
                assert!(all_zero(&backing[..n + OVERHEAD]));
            }
            false
        }
    };
    Out {
        calls: g.seal_calls,
        ok,
    }
}

fn seal_in_place_adv(n: usize) {
    let e = &mut env::<AdvAead>(true);
    let o = seal_in_place_case(e, n, n + OVERHEAD - 1);
    kani::cover!(!o.ok, "err: no capacity");
    let o = seal_in_place_case(e, n, n + OVERHEAD);
    kani::cover!(o.ok, "seal_in_place ok, exact capacity");
    kani::cover!(!o.ok & (o.calls == 1), "seal_in_place err after AEAD call, wiped");
    kani::cover!(!o.ok & (o.calls == 0), "seal_in_place err: state failure or key expired");
    let o = seal_in_place_case(e, n, n + OVERHEAD + 2);
    kani::cover!(o.ok, "seal_in_place ok, spare capacity");
}

#[kani::proof]
#[kani::unwind(45)]
#[kani::stub(aranya_crypto::zeroize::optimization_barrier, common::no_barrier)]
fn c39_seal_in_place_adv_0() {
    seal_in_place_adv(0);
}
#[kani::proof]
#[kani::unwind(45)]
#[kani::stub(aranya_crypto::zeroize::optimization_barrier, common::no_barrier)]
fn c39_seal_in_place_adv_5() {
    seal_in_place_adv(5);
}
#[kani::proof]
#[kani::unwind(45)]
#[kani::stub(aranya_crypto::zeroize::optimization_barrier, common::no_barrier)]
fn c39_seal_in_place_adv_16() {
    seal_in_place_adv(16);
}

// ---------------------------------------------------------------------------------
// Round trips with the toy AEAD (identity cipher, tag = f(nonce, data, ad))
// ---------------------------------------------------------------------------------

const RT: usize = 16 + OVERHEAD;

/// seal; open and open_in_place return the plaintext, the label and the sequence
/// number used; seal_in_place produces the same bytes as seal.
fn roundtrip(n: usize) {
    let e = &mut env::<ToyAead>(false);
    let (label, base) = (e.label, e.base);
    let pt_arr = e.msg;
    let pt = &pt_arr[..n];
    let total = n + OVERHEAD;
    let s0 = e.skey.seq().to_u64();
    kani::assume(s0 < u64::MAX - 1);

    // --- seal (copying)
    let mut ct = [0u8; RT];
    let h = simple_hdr(e.client.seal(&mut e.skey, &mut ct[..total], pt));
    match h {
        Some(h) => assert!(is_data_hdr(&h)),
        None => assert!(false),
    }
    // ciphertext || tag || header
    assert!(same(&ct[..n], pt));
    assert!(le64_at(&ct, n + TAG) == s0);
    assert!(e.skey.seq().to_u64() == s0 + 1);

    // --- open (copying)
    let mut out = e.fill;
    let r = simple(e.client.open(&mut e.okey, &mut out[..n], &ct[..total]));
    match r {
        Some((l, s)) => {
            assert!(l == label);
            assert!(s == s0);
            assert!(same(&out[..n], pt));
        }
        None => assert!(false),
    }

    // --- open_in_place on the same message
    let mut backing = ct;
    let (r, after_len) = {
        let mut buf = match FixedBuf::from_slice_mut(&mut backing[..total], total) {
            Some(b) => b,
            None => unreachable!(),
        };
        let r = simple(e.client.open_in_place(&mut e.okey, &mut buf));
        (r, Buf::len(&buf))
    };
    match r {
        Some((l, s)) => {
            assert!(l == label);
            assert!(s == s0);
            assert!(after_len == n);
            assert!(same(&backing[..n], pt));
        }
        None => assert!(false),
    }

    // --- seal_in_place with a second key at the same sequence number gives the
    //     same bytes as seal, so everything above applies to it as well.
    let mut skey2 = seal_key::<ToyAead>(&base, s0);
    let mut backing2 = [0u8; RT + 2];
    let mut i = 0;
    while i < n {
        backing2[i] = pt[i];
        i += 1;
    }
    let (h2, after_len2) = {
        let mut buf = match FixedBuf::from_slice_mut(&mut backing2[..total + 2], n) {
            Some(b) => b,
            None => unreachable!(),
        };
        let h2 = simple_hdr(e.client.seal_in_place(&mut skey2, &mut buf));
        (h2, Buf::len(&buf))
    };
    match h2 {
        Some(h) => assert!(is_data_hdr(&h)),
        None => assert!(false),
    }
    assert!(after_len2 == total);
    assert!(same(&backing2[..total], &ct[..total]));
    assert!(skey2.seq().to_u64() == s0 + 1);
    kani::cover!(s0 > 0, "round trip at a non-zero sequence number");
    kani::cover!(s0 == 0, "round trip at sequence number zero");
}

#[kani::proof]
#[kani::unwind(45)]
#[kani::stub(aranya_crypto::zeroize::optimization_barrier, common::no_barrier)]
fn c39_roundtrip_0() {
    roundtrip(0);
}
#[kani::proof]
#[kani::unwind(45)]
#[kani::stub(aranya_crypto::zeroize::optimization_barrier, common::no_barrier)]
fn c39_roundtrip_1() {
    roundtrip(1);
}
#[kani::proof]
#[kani::unwind(45)]
#[kani::stub(aranya_crypto::zeroize::optimization_barrier, common::no_barrier)]
fn c39_roundtrip_7() {
    roundtrip(7);
}
#[kani::proof]
#[kani::unwind(45)]
#[kani::stub(aranya_crypto::zeroize::optimization_barrier, common::no_barrier)]
fn c39_roundtrip_16() {
    roundtrip(16);
}

/// A sealed message with any single byte changed is rejected by both interfaces and
/// no plaintext is left behind.  (With the toy tag a one-byte change of ciphertext,
/// tag or header always changes the tag comparison; this checks that every byte of
/// the message takes part in authentication, not the strength of a real AEAD.)
fn modified(n: usize) {
    let e = &mut env::<ToyAead>(false);
    let pt_arr = e.msg;
    let pt = &pt_arr[..n];
    let total = n + OVERHEAD;
    let s0 = e.skey.seq().to_u64();
    kani::assume(s0 < u64::MAX - 1);

    let mut ct = [0u8; RT];
    let h = simple_hdr(e.client.seal(&mut e.skey, &mut ct[..total], pt));
    assert!(h.is_some());

    let pos: usize = kani::any();
    let flip: u8 = kani::any();
    kani::assume(pos < total && flip != 0);
    ct[pos] ^= flip;

    let mut out = e.fill;
    let r = simple(e.client.open(&mut e.okey, &mut out[..n], &ct[..total]));
    assert!(r.is_none());
    assert!(all_zero(&out[..n]) || same(&out[..n], &e.fill[..n]));

    let mut backing = ct;
    let r = {
        let mut buf = match FixedBuf::from_slice_mut(&mut backing[..total], total) {
            Some(b) => b,
            None => unreachable!(),
        };
        simple(e.client.open_in_place(&mut e.okey, &mut buf))
    };
    assert!(r.is_none());
    assert!(all_zero(&backing[..total]) || same(&backing[..total], &ct[..total]));
    kani::cover!(pos < n, "ciphertext byte changed");
    kani::cover!((pos >= n) & (pos < n + TAG), "tag byte changed");
    kani::cover!(pos >= n + TAG, "header byte changed");
}

#[kani::proof]
#[kani::unwind(45)]
#[kani::stub(aranya_crypto::zeroize::optimization_barrier, common::no_barrier)]
fn c39_modified_byte_rejected_3() {
    modified(3);
}
#[kani::proof]
#[kani::unwind(45)]
#[kani::stub(aranya_crypto::zeroize::optimization_barrier, common::no_barrier)]
fn c39_modified_byte_rejected_8() {
    modified(8);
}
