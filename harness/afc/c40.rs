// C40 (sequential kernel) - AFC sequence numbers never repeat within a seal context.
//
// Child module of aranya_fast_channels::memory (appended by the overlay).
//
//  * c40_sealkey_seq_*: the real afc::SealKey / hpke::SealCtx / hpke::Seq bookkeeping
//    over an adversarial AEAD that fails at arbitrary positions: from ANY starting
//    sequence number, every successful seal returns the key's current number and
//    advances it by one, every failed seal leaves it where it was.  By induction over
//    the starting number: successful seals of a key created at 0 carry 0, 1, 2, ...
//    without gaps or repeats.
//  * c40_memory_single_loan: the real memory::State (BTreeMap + Lender/BiArc + mutex)
//    never has two live seal contexts for one channel, keeps the sequence when a
//    context is dropped and re-acquired, revokes it on removal, and never reuses a
//    channel id.
//
// Outside: interleavings of seals with a concurrent writer (schedules), the
// shared-memory reader (see c42.rs for its sequential kernel).
#![allow(dead_code, clippy::all)]

use aranya_crypto::{
    afc::{AuthData, RawSealKey, Seq},
    dangerous::spideroak_crypto::{aead::Nonce, keys::SecretKeyBytes},
    hybrid_array::Array,
    typenum::U12,
};

use super::*;
use crate::client::Client;

#[path = "common.rs"]
mod common;
use common::{AdvAead, NONCE, TAG, ToyAead, VA, VCs, ghost};

fn nonce_of(base: &[u8; NONCE]) -> Nonce<U12> {
    match Nonce::<U12>::try_from(&base[..]) {
        Ok(n) => n,
        Err(_) => unreachable!(),
    }
}

fn seal_key<A: VA>(base: &[u8; NONCE], seq: u64) -> SealKey<VCs<A>> {
    let raw = RawSealKey::<VCs<A>> {
        key: SecretKeyBytes::new(Array([0x42u8; 32])),
        base_nonce: nonce_of(base),
    };
    let k = match SealKey::from_raw(&raw, Seq::new(seq)) {
        Ok(k) => k,
        Err(_) => unreachable!(),
    };
    core::mem::forget(raw);
    k
}

// ---------------------------------------------------------------------------------
// SealKey sequence bookkeeping
// ---------------------------------------------------------------------------------

/// `k` seals (alternating the copying and the in-place interface, starting with
/// `first_in_place`), AEAD failing at arbitrary positions, from an arbitrary start.
fn sealkey_seq(k: usize, first_in_place: bool) {
    let base: [u8; NONCE] = kani::any();
    let s0: u64 = kani::any();
    let mut key = seal_key::<AdvAead>(&base, s0);
    let lb: [u8; 32] = kani::any();
    let ad = AuthData {
        version: kani::any(),
        label_id: LabelId::from_bytes(lb),
    };
    let pt: [u8; 3] = kani::any();

    let mut expect = s0;
    let mut oks = 0usize;
    let mut fails = 0usize;
    let mut in_place = first_in_place;
    let mut i = 0;
    while i < k {
        common::ghost_reset();
        assert!(key.seq().to_u64() == expect);
        let r = if in_place {
            let mut data = pt;
            let mut tag = [0u8; TAG];
            key.seal_in_place(&mut data[..], &mut tag[..], &ad)
        } else {
            let mut dst = [0u8; 3 + TAG];
            key.seal(&mut dst[..], &pt[..], &ad)
        };
        let g = ghost();
        match r {
            Ok(seq) => {
                // The number handed out is the key's current one; it is then consumed.
                assert!(g.seal_calls == 1 && g.last_ok);
                assert!(seq.to_u64() == expect);
                assert!(expect < u64::MAX);
                expect += 1;
                oks += 1;
            }
            Err(e) => {
                // A failed seal does not consume a number.
                if expect == u64::MAX {
                    // HPKE: the counter may not reach 2^64-1 (12-byte nonce): the key
                    // is exhausted and the AEAD is not invoked.
                    assert!(g.seal_calls == 0);
                    assert!(matches!(e, aranya_crypto::afc::SealError::MessageLimitReached));
                } else {
                    assert!(g.seal_calls == 1 && !g.last_ok);
                }
                core::mem::forget(e);
                fails += 1;
            }
        }
        assert!(key.seq().to_u64() == expect);
        in_place = !in_place;
        i += 1;
    }
    assert!(expect == s0 + oks as u64);
    kani::cover!(oks == k, "all seals succeed");
    kani::cover!((fails > 0) & (oks > 0), "failures and successes mixed");
    kani::cover!((s0 == 0) & (oks == k), "fresh key: 0, 1, 2, ...");
    kani::cover!(s0 == u64::MAX, "exhausted key");
    core::mem::forget(key);
}

#[kani::proof]
#[kani::unwind(40)]
#[kani::stub(aranya_crypto::zeroize::optimization_barrier, common::no_barrier)]
fn c40_sealkey_seq_k2() {
    sealkey_seq(2, false);
}
#[kani::proof]
#[kani::unwind(40)]
#[kani::stub(aranya_crypto::zeroize::optimization_barrier, common::no_barrier)]
fn c40_sealkey_seq_k4() {
    sealkey_seq(4, true);
}

// ---------------------------------------------------------------------------------
// memory::State: single loan, sequence continuity, revocation, id monotonicity
// ---------------------------------------------------------------------------------

fn seq_of_sealed(msg: &[u8]) -> u64 {
    let n = msg.len();
    let mut a = [0u8; 8];
    let mut i = 0;
    while i < 8 {
        a[i] = msg[n - 8 + i];
        i += 1;
    }
    u64::from_le_bytes(a)
}

/// One `Client::seal` of a 2-byte plaintext; returns the sequence number in the
/// message header, or None on error.
fn seal_once(
    client: &Client<State<VCs<ToyAead>>>,
    ctx: &mut SealCtx<VCs<ToyAead>>,
    pt: &[u8; 2],
) -> Option<u64> {
    let mut dst = [0u8; 2 + TAG + 8];
    match client.seal(ctx, &mut dst[..], &pt[..]) {
        Ok(_) => Some(seq_of_sealed(&dst)),
        Err(e) => {
            core::mem::forget(e);
            None
        }
    }
}

fn ok_or_forget<T>(r: Result<T, Error>) -> Option<T> {
    match r {
        Ok(v) => Some(v),
        Err(e) => {
            core::mem::forget(e);
            None
        }
    }
}

struct Mem {
    state: State<VCs<ToyAead>>,
    client: Client<State<VCs<ToyAead>>>,
    base: [u8; NONCE],
    label: LabelId,
    peer: DeviceId,
    pt: [u8; 2],
}

fn mem() -> Mem {
    let state = State::<VCs<ToyAead>>::new();
    let client = Client::new(state.clone());
    let lb: [u8; 32] = kani::any();
    Mem {
        state,
        client,
        base: kani::any(),
        label: LabelId::from_bytes(lb),
        peer: DeviceId::from_bytes(kani::any()),
        pt: kani::any(),
    }
}

fn add_seal(m: &Mem) -> LocalChannelId {
    match ok_or_forget(m.state.add(
        Directed::SealOnly {
            seal: seal_key::<ToyAead>(&m.base, 0),
        },
        m.label,
        m.peer,
    )) {
        Some(id) => id,
        None => unreachable!(),
    }
}

fn seal_ctx(m: &Mem, id: LocalChannelId) -> Option<SealCtx<VCs<ToyAead>>> {
    ok_or_forget(m.client.setup_seal_ctx(id))
}

/// No second live seal context for a channel; no open context on a seal channel; a
/// context can be re-acquired once the first is gone.
fn single_loan() {
    let m = mem();
    let id = add_seal(&m);
    let ctx = match seal_ctx(&m, id) {
        Some(c) => c,
        None => {
            assert!(false);
            return;
        }
    };
    assert!(seal_ctx(&m, id).is_none());
    assert!(ok_or_forget(m.client.setup_open_ctx(id)).is_none());
    drop(ctx);
    let again = seal_ctx(&m, id);
    assert!(again.is_some());
    kani::cover!(again.is_some(), "re-acquired after drop");
    core::mem::forget(again);
    core::mem::forget(m);
}

/// Seals carry 0, 1; dropping the context and acquiring a new one continues at 2 (the
/// key lives in the state, not in the context): no number is handed out twice.
fn continuity() {
    let m = mem();
    let id = add_seal(&m);
    let mut ctx = match seal_ctx(&m, id) {
        Some(c) => c,
        None => {
            assert!(false);
            return;
        }
    };
    assert!(seal_once(&m.client, &mut ctx, &m.pt) == Some(0));
    assert!(seal_once(&m.client, &mut ctx, &m.pt) == Some(1));
    drop(ctx);
    let mut ctx = match seal_ctx(&m, id) {
        Some(c) => c,
        None => {
            assert!(false);
            return;
        }
    };
    let s = seal_once(&m.client, &mut ctx, &m.pt);
    assert!(s == Some(2));
    kani::cover!(s == Some(2), "sequence continued");
    core::mem::forget(ctx);
    core::mem::forget(m);
}

/// Adding and removing OTHER channels between seals changes nothing; removing the
/// channel itself revokes the live context.
fn table_changes() {
    let m = mem();
    let id = add_seal(&m);
    let mut ctx = match seal_ctx(&m, id) {
        Some(c) => c,
        None => {
            assert!(false);
            return;
        }
    };
    assert!(seal_once(&m.client, &mut ctx, &m.pt) == Some(0));
    let other = add_seal(&m);
    // ids are handed out in increasing order
    assert!(other > id);
    assert!(seal_once(&m.client, &mut ctx, &m.pt) == Some(1));
    assert!(ok_or_forget(AranyaState::remove(&m.state, other)).is_some());
    assert!(seal_once(&m.client, &mut ctx, &m.pt) == Some(2));
    assert!(ok_or_forget(AranyaState::remove(&m.state, id)).is_some());
    let s = seal_once(&m.client, &mut ctx, &m.pt);
    assert!(s.is_none());
    assert!(seal_ctx(&m, id).is_none());
    // a channel added later gets a fresh id, not a recycled one
    let third = add_seal(&m);
    assert!(third > other);
    kani::cover!(s.is_none(), "revoked");
    core::mem::forget(ctx);
    core::mem::forget(m);
}

#[kani::proof]
#[kani::unwind(40)]
#[kani::stub(aranya_crypto::zeroize::optimization_barrier, common::no_barrier)]
fn c40_memory_single_loan() {
    single_loan();
}
#[kani::proof]
#[kani::unwind(40)]
#[kani::stub(aranya_crypto::zeroize::optimization_barrier, common::no_barrier)]
fn c40_memory_continuity() {
    continuity();
}
#[kani::proof]
#[kani::unwind(40)]
#[kani::stub(aranya_crypto::zeroize::optimization_barrier, common::no_barrier)]
fn c40_memory_table_changes() {
    table_changes();
}

// ---------------------------------------------------------------------------------
// Lender / Loan (the mechanism behind the single live context)
// ---------------------------------------------------------------------------------

/// At most one live `Loan`; dropping it allows a new one; the exclusive data persists
/// across loans; dropping the `Lender` revokes access.
#[kani::proof]
#[kani::unwind(8)]
fn c40_lender_single_loan() {
    let s: u32 = kani::any();
    let x: u64 = kani::any();
    let lender = Lender::new(s, x);
    assert!(*lender.shared() == s);

    let mut loan = match lender.lend() {
        Some(l) => l,
        None => {
            assert!(false);
            return;
        }
    };
    // no second loan while the first is live
    assert!(lender.lend().is_none());
    assert!(lender.lend().is_none());
    match loan.get_mut() {
        Some((a, b)) => {
            assert!(*a == s && *b == x);
            *b = x.wrapping_add(1);
        }
        None => assert!(false),
    }
    let again: bool = kani::any();
    if again {
        // the loan is returned: a new one can be taken and sees the updated data
        drop(loan);
        loan = match lender.lend() {
            Some(l) => l,
            None => {
                assert!(false);
                return;
            }
        };
        assert!(lender.lend().is_none());
    }
    match loan.get_ref() {
        Some((a, b)) => assert!(*a == s && *b == x.wrapping_add(1)),
        None => assert!(false),
    }
    // revocation
    drop(lender);
    assert!(loan.get_mut().is_none());
    assert!(loan.get_ref().is_none());
    kani::cover!(again, "second loan after the first was dropped");
    kani::cover!(!again, "single loan");
    drop(loan);
}
