// C40 (sequential kernel) - AFC sequence numbers never repeat within a seal context.
//
// Child module of aranya_fast_channels::memory (appended by the overlay).
//
//  * c40_sealkey_seq_*: the real afc::SealKey / hpke::SealCtx / hpke::Seq bookkeeping
//    over an adversarial AEAD that fails at arbitrary positions: from ANY starting
//    sequence number, every successful seal returns the key's current number and
//    advances it by one, every failed seal leaves it where it was.  By induction over
//    the starting number: successful seals of a key created at 0 carry 0, 1, 2, ...
//    without gaps or repeats.
//  * c40_lender_single_loan: the real memory::lender::{Lender, Loan, BiArc} (the
//    mechanism memory::State::setup_seal_ctx relies on) never has two live loans,
//    keeps the exclusive data (the SealKey with its counter) across loans, and revokes
//    access when the Lender (the channel entry) is dropped.
//    (Scenarios through memory::State itself - BTreeMap + Arc + mutex + Client - were
//    written and abandoned: CBMC's symbolic execution did not finish in 25 minutes for
//    add + three setup_seal_ctx calls.)
//
// Outside: interleavings of seals with a concurrent writer (schedules), the
// shared-memory reader (see c42.rs for its sequential kernel).
#![allow(dead_code, clippy::all)]

use aranya_crypto::{
    afc::{AuthData, RawSealKey, Seq},
    dangerous::spideroak_crypto::{aead::Nonce, keys::SecretKeyBytes},
    hybrid_array::Array,
    typenum::U12,
};

use super::*;

#[path = "common.rs"]
mod common;
use common::{AdvAead, NONCE, TAG, ToyAead, VA, VCs, ghost};

fn nonce_of(base: &[u8; NONCE]) -> Nonce<U12> {
    match Nonce::<U12>::try_from(&base[..]) {
        Ok(n) => n,
        Err(_) => unreachable!(),
    }
}

fn seal_key<A: VA>(base: &[u8; NONCE], seq: u64) -> SealKey<VCs<A>> {
    let raw = RawSealKey::<VCs<A>> {
        key: SecretKeyBytes::new(Array([0x42u8; 32])),
        base_nonce: nonce_of(base),
    };
    let k = match SealKey::from_raw(&raw, Seq::new(seq)) {
        Ok(k) => k,
        Err(_) => unreachable!(),
    };
    core::mem::forget(raw);
    k
}

// ---------------------------------------------------------------------------------
// SealKey sequence bookkeeping
// ---------------------------------------------------------------------------------

/// `k` seals (alternating the copying and the in-place interface, starting with
/// `first_in_place`), AEAD failing at arbitrary positions, from an arbitrary start.
fn sealkey_seq(k: usize, first_in_place: bool) {
    let base: [u8; NONCE] = kani::any();
    let s0: u64 = kani::any();
    let mut key = seal_key::<AdvAead>(&base, s0);
    let lb: [u8; 32] = kani::any();
    let ad = AuthData {
        version: kani::any(),
        label_id: LabelId::from_bytes(lb),
    };
    let pt: [u8; 3] = kani::any();

    let mut expect = s0;
    let mut oks = 0usize;
    let mut fails = 0usize;
    let mut in_place = first_in_place;
    let mut i = 0;
    while i < k {
        common::ghost_reset();
        assert!(key.seq().to_u64() == expect);
        let r = if in_place {
            let mut data = pt;
            let mut tag = [0u8; TAG];
            key.seal_in_place(&mut data[..], &mut tag[..], &ad)
        } else {
            let mut dst = [0u8; 3 + TAG];
            key.seal(&mut dst[..], &pt[..], &ad)
        };
        let g = ghost();
        match r {
            Ok(seq) => {
                // The number handed out is the key's current one; it is then consumed.
                assert!(g.seal_calls == 1 && g.last_ok);
                assert!(seq.to_u64() == expect);
                assert!(expect < u64::MAX);
                expect += 1;
                oks += 1;
            }
            Err(e) => {
                // A failed seal does not consume a number.
                if expect == u64::MAX {
                    // HPKE: the counter may not reach 2^64-1 (12-byte nonce): the key
                    // is exhausted and the AEAD is not invoked.
                    assert!(g.seal_calls == 0);
                    assert!(matches!(e, aranya_crypto::afc::SealError::MessageLimitReached));
                } else {
                    assert!(g.seal_calls == 1 && !g.last_ok);
                }
                core::mem::forget(e);
                fails += 1;
            }
        }
        assert!(key.seq().to_u64() == expect);
        in_place = !in_place;
        i += 1;
    }
    assert!(expect == s0 + oks as u64);
    kani::cover!(oks == k, "all seals succeed");
    kani::cover!((fails > 0) & (oks > 0), "failures and successes mixed");
    kani::cover!((s0 == 0) & (oks == k), "fresh key: 0, 1, 2, ...");
    kani::cover!(s0 == u64::MAX, "exhausted key");
    core::mem::forget(key);
}

#[kani::proof]
#[kani::unwind(40)]
#[kani::stub(aranya_crypto::zeroize::optimization_barrier, common::no_barrier)]
fn c40_sealkey_seq_k2() {
    sealkey_seq(2, false);
}
#[kani::proof]
#[kani::unwind(40)]
#[kani::stub(aranya_crypto::zeroize::optimization_barrier, common::no_barrier)]
fn c40_sealkey_seq_k4() {
    sealkey_seq(4, true);
}

// ---------------------------------------------------------------------------------
// Lender / Loan (the mechanism behind the single live context)
// ---------------------------------------------------------------------------------

/// At most one live `Loan`; dropping it allows a new one; the exclusive data persists
/// across loans; dropping the `Lender` revokes access.
#[kani::proof]
#[kani::unwind(8)]
fn c40_lender_single_loan() {
    let s: u32 = kani::any();
    let x: u64 = kani::any();
    let lender = Lender::new(s, x);
    assert!(*lender.shared() == s);

    let mut loan = match lender.lend() {
        Some(l) => l,
        None => {
            assert!(false);
            return;
        }
    };
    // no second loan while the first is live
    assert!(lender.lend().is_none());
    assert!(lender.lend().is_none());
    match loan.get_mut() {
        Some((a, b)) => {
            assert!(*a == s && *b == x);
            *b = x.wrapping_add(1);
        }
        None => assert!(false),
    }
    let again: bool = kani::any();
    if again {
        // the loan is returned: a new one can be taken and sees the updated data
        drop(loan);
        loan = match lender.lend() {
            Some(l) => l,
            None => {
                assert!(false);
                return;
            }
        };
        assert!(lender.lend().is_none());
    }
    match loan.get_ref() {
        Some((a, b)) => assert!(*a == s && *b == x.wrapping_add(1)),
        None => assert!(false),
    }
    // revocation
    drop(lender);
    assert!(loan.get_mut().is_none());
    assert!(loan.get_ref().is_none());
    kani::cover!(again, "second loan after the first was dropped");
    kani::cover!(!again, "single loan");
    drop(loan);
}
