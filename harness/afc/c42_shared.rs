// STATUS: NOT WIRED INTO ANY CHECK (no checks/C42.json, no overlay).  The harness compiles
// and runs, but CBMC needs > 8 GB / > 10 min for a single `WriteState::add` (see the
// final report): the table lives in one untyped byte region accessed through pointer
// casts at offsets (`read_off`/`write_off`) that are themselves loaded from that
// region, so after the first offset swap every access is a symbolic-offset
// byte_extract/byte_update over the whole region.  Kept for reference.
// C42 support - child module of aranya_fast_channels::shm::shared.
//
// `State::verif_new` is `State::open` with `Mapping::open` (shm_open + mmap) replaced
// by a heap allocation of the same layout; `SharedMem::layout`, `SharedMem::init` and
// `State::validate` are the real ones.  The observers read both channel lists through
// the real accessors.
extern crate alloc;

use super::*;

impl<CS: CipherSuite> State<CS> {
    pub(crate) fn verif_new(max_chans: usize) -> Result<Self, Error> {
        let layout = SharedMem::<CS>::layout(max_chans)?;
        // SAFETY: the layout has non-zero size.
        let base = unsafe { alloc::alloc::alloc_zeroed(layout.layout) };
        assert!(!base.is_null());
        let ptr = Mapping::<SharedMem<CS>>::verif_from_raw(base, layout.layout);
        SharedMem::init(ptr.as_ptr(), max_chans, &layout);
        let state = Self {
            ptr,
            max_chans,
            side_a: layout.side_a,
            side_b: layout.side_b,
        };
        state.validate()?;
        Ok(state)
    }

    /// A second handle onto the same memory (what a reader process would map).
    pub(crate) fn verif_alias(&self) -> Self {
        let layout = match SharedMem::<CS>::layout(self.max_chans) {
            Ok(l) => l,
            Err(_) => unreachable!(),
        };
        Self {
            ptr: Mapping::<SharedMem<CS>>::verif_from_raw(self.ptr.as_ptr().cast::<u8>(), layout.layout),
            max_chans: self.max_chans,
            side_a: self.side_a,
            side_b: self.side_b,
        }
    }

    /// (len, ids[0..len]) of side A (`false`) or side B (`true`), or None if the list
    /// does not pass its own checks.
    pub(crate) fn verif_side(&self, b: bool, ids: &mut [u64; 4]) -> Option<usize> {
        let off = Offset(if b { self.side_b } else { self.side_a });
        let m = match self.shm().side(off) {
            Ok(m) => m,
            Err(_) => return None,
        };
        let list = match m.lock() {
            Ok(l) => l,
            Err(_) => return None,
        };
        let len = match list.len() {
            Ok(l) => l,
            Err(_) => return None,
        };
        let cap = match list.cap() {
            Ok(c) => c,
            Err(_) => return None,
        };
        if len > cap || cap != self.max_chans || len > 4 {
            return None;
        }
        let mut i = 0;
        while i < len {
            let ch = match list.get(i) {
                Ok(Some(c)) => c,
                _ => return None,
            };
            ids[i] = match ch.id() {
                Ok(id) => id.to_u64(),
                Err(_) => return None,
            };
            i += 1;
        }
        Some(len)
    }

    /// (read offset is side B?, write offset is side B?) - both must be valid and differ.
    pub(crate) fn verif_offsets(&self) -> Option<(bool, bool)> {
        let shm = self.shm();
        let r = shm.read_off.load(Ordering::SeqCst);
        let w = shm.write_off.load(Ordering::SeqCst);
        if !self.valid_offset(r) || !self.valid_offset(w) || r == w {
            return None;
        }
        Some((r == self.side_b, w == self.side_b))
    }

    pub(crate) fn verif_next_id(&self) -> u64 {
        self.shm().next_chan_id.load(Ordering::SeqCst)
    }

    pub(crate) fn verif_generation(&self, b: bool) -> u32 {
        let off = Offset(if b { self.side_b } else { self.side_a });
        match self.shm().side(off) {
            // SAFETY: single threaded.
            Ok(m) => unsafe { m.inner_unsynchronized().generation.load(Ordering::SeqCst) },
            Err(_) => 0,
        }
    }
}
