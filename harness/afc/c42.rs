// STATUS: NOT WIRED INTO ANY CHECK (no checks/C42.json, no overlay).  The harness compiles
// and runs, but CBMC needs > 8 GB / > 10 min for a single `WriteState::add` (see the
// final report): the table lives in one untyped byte region accessed through pointer
// casts at offsets (`read_off`/`write_off`) that are themselves loaded from that
// region, so after the first offset swap every access is a symbolic-offset
// byte_extract/byte_update over the whole region.  Kept for reference.
// C42 (sequential kernel) - AFC shared-memory channel tables stay consistent.
// C40 (sequential kernel, shared-memory part) - the reader's cached seal key keeps its
// sequence number across writer operations that invalidate the cache.
//
// Child module of aranya_fast_channels::shm::write (appended by the overlay), with
// support impls in c42_posix.rs / c42_shared.rs.  The real WriteState::{add, remove,
// remove_all, remove_if, exists}, ReadState::{setup_seal_ctx, seal, exists},
// shared::{SharedMem::{layout, init, side}, State::{validate, write_off, swap_offsets,
// load_read_list}, ChanListData::*, ShmChan::{init, id, check, ..}}, the futex mutex
// (uncontended path) and the little-endian integer wrappers run single-threaded over a
// `SharedMem` placed in a heap allocation of the real layout (no shm_open/mmap).
//
// Outside: every interleaving of the writer with readers (schedules) - not decided here.
#![allow(dead_code, clippy::all)]

use aranya_crypto::{
    afc::{RawOpenKey, RawSealKey},
    dangerous::spideroak_crypto::{aead::Nonce, keys::SecretKeyBytes},
    hybrid_array::Array,
    typenum::U12,
};

use super::*;
use crate::{
    client::Client,
    shm::ReadState,
    state::AfcState,
};

#[path = "common.rs"]
mod common;
use common::{ConstRng, NONCE, TAG, ToyAead, VCs};

type CS = VCs<ToyAead>;

impl<C: CipherSuite, R: Csprng> WriteState<C, R> {
    pub(crate) fn verif_new(max_chans: usize, rng: R) -> Result<Self, Error> {
        Ok(Self {
            inner: State::verif_new(max_chans)?,
            rng,
            _no_sync: PhantomData,
        })
    }
}

macro_rules! proof {
    ($name:ident, $unwind:expr, $body:expr) => {
        #[kani::proof]
        #[kani::unwind($unwind)]
        #[kani::stub(aranya_crypto::zeroize::optimization_barrier, common::no_barrier)]
        fn $name() {
            $body
        }
    };
}

fn nonce_of(base: &[u8; NONCE]) -> Nonce<U12> {
    match Nonce::<U12>::try_from(&base[..]) {
        Ok(n) => n,
        Err(_) => unreachable!(),
    }
}

fn seal_keys(base: &[u8; NONCE]) -> Directed<RawSealKey<CS>, RawOpenKey<CS>> {
    Directed::SealOnly {
        seal: RawSealKey::<CS> {
            key: SecretKeyBytes::new(Array([0x42u8; 32])),
            base_nonce: nonce_of(base),
        },
    }
}

fn open_keys(base: &[u8; NONCE]) -> Directed<RawSealKey<CS>, RawOpenKey<CS>> {
    Directed::OpenOnly {
        open: RawOpenKey::<CS> {
            key: SecretKeyBytes::new(Array([0x42u8; 32])),
            base_nonce: nonce_of(base),
        },
    }
}

fn ok<T>(r: Result<T, Error>) -> Option<T> {
    match r {
        Ok(v) => Some(v),
        Err(e) => {
            core::mem::forget(e);
            None
        }
    }
}

// ---------------------------------------------------------------------------------
// Abstract table: a set of at most CAP ids.
// ---------------------------------------------------------------------------------

const CAP: usize = 2;

#[derive(Copy, Clone)]
struct Model {
    ids: [u64; CAP],
    len: usize,
    /// every id handed out so far is below this
    next: u64,
}

impl Model {
    fn has(&self, id: u64) -> bool {
        let mut i = 0;
        let mut f = false;
        while i < self.len {
            f |= self.ids[i] == id;
            i += 1;
        }
        f
    }

    fn remove_where(&mut self, pred: impl Fn(u64) -> bool) {
        let mut out = [0u64; CAP];
        let mut n = 0;
        let mut i = 0;
        while i < self.len {
            if !pred(self.ids[i]) {
                out[n] = self.ids[i];
                n += 1;
            }
            i += 1;
        }
        self.ids = out;
        self.len = n;
    }
}

/// Both copies hold exactly the model's ids (any order, no duplicates), the two offsets
/// are valid and distinct, and the next id is above everything handed out.
fn check_tables(w: &WriteState<CS, ConstRng>, m: &Model) {
    let st = &w.inner;
    assert!(st.verif_offsets().is_some());
    let mut side = 0;
    while side < 2 {
        let mut ids = [0u64; 4];
        let len = match st.verif_side(side == 1, &mut ids) {
            Some(l) => l,
            None => {
                assert!(false);
                return;
            }
        };
        assert!(len == m.len);
        let mut i = 0;
        while i < len {
            assert!(m.has(ids[i]));
            assert!(ids[i] < m.next);
            let mut j = 0;
            while j < i {
                assert!(ids[j] != ids[i]);
                j += 1;
            }
            i += 1;
        }
        side += 1;
    }
    assert!(st.verif_next_id() == m.next);
}

/// What the writer and a reader mapping the same memory answer for `id`.
fn check_exists(w: &WriteState<CS, ConstRng>, r: &ReadState<CS>, m: &Model, id: u64) {
    let lid = LocalChannelId::new(id);
    match ok(AranyaState::exists(w, lid)) {
        Some(b) => assert!(b == m.has(id)),
        None => assert!(false),
    }
    match AfcState::exists(r, lid) {
        Ok(b) => assert!(b == m.has(id)),
        Err(e) => {
            core::mem::forget(e);
            assert!(false);
        }
    }
}

/// One arbitrary writer operation, mirrored on the model.
/// 0 = add, 1 = remove(id), 2 = remove_all, 3 = remove_if(id in mask)
fn step(w: &WriteState<CS, ConstRng>, m: &mut Model, base: &[u8; NONCE], op: u8) {
    let label = LabelId::from_bytes([7u8; 32]);
    let peer = DeviceId::from_bytes([9u8; 32]);
    if op == 0 {
        let seal: bool = kani::any();
        let keys = if seal { seal_keys(base) } else { open_keys(base) };
        let was_full = m.len == CAP;
        let r = ok(w.add(keys, label, peer));
        match r {
            Some(id) => {
                // Succeeds only when there was room; the id is fresh.
                assert!(!was_full);
                assert!(id.to_u64() == m.next);
                m.ids[m.len] = id.to_u64();
                m.len += 1;
            }
            None => {
                // Fails exactly when the table is full.
                assert!(was_full);
            }
        }
        // The id is consumed either way: never handed out again.
        m.next += 1;
    } else if op == 1 {
        let id: u64 = kani::any();
        kani::assume(id < 4);
        assert!(ok(w.remove(LocalChannelId::new(id))).is_some());
        m.remove_where(|x| x == id);
    } else if op == 2 {
        assert!(ok(w.remove_all()).is_some());
        m.remove_where(|_| true);
    } else {
        let mask: u8 = kani::any();
        kani::assume(mask < 16);
        assert!(
            ok(w.remove_if(|p| (mask >> (p.local_channel_id.to_u64() & 7)) & 1 == 1)).is_some()
        );
        m.remove_where(|x| (mask >> (x & 7)) & 1 == 1);
    }
}

fn new_writer() -> WriteState<CS, ConstRng> {
    match ok(WriteState::<CS, ConstRng>::verif_new(CAP, ConstRng)) {
        Some(w) => w,
        None => unreachable!(),
    }
}

/// `adds` channels added first (real `add`s, checked), then the operations in `ops`
/// (kinds concrete, arguments symbolic); tables checked after every operation and a
/// symbolic id probed through the writer's and a reader's `exists`.
fn writer_ops(adds: usize, ops: &[u8]) -> usize {
    let base: [u8; NONCE] = kani::any();
    let w = new_writer();
    let r = ReadState::<CS> {
        inner: w.inner.verif_alias(),
    };
    let mut m = Model {
        ids: [0; CAP],
        len: 0,
        next: 0,
    };
    check_tables(&w, &m);
    let mut i = 0;
    while i < adds {
        step(&w, &mut m, &base, 0);
        i += 1;
    }
    check_tables(&w, &m);
    let mut i = 0;
    while i < ops.len() {
        step(&w, &mut m, &base, ops[i]);
        check_tables(&w, &m);
        i += 1;
    }
    let probe: u64 = kani::any();
    kani::assume(probe < 4);
    check_exists(&w, &r, &m, probe);
    core::mem::forget(r);
    core::mem::forget(w);
    m.len
}

const ADD: u8 = 0;
const REMOVE: u8 = 1;
const REMOVE_ALL: u8 = 2;
const REMOVE_IF: u8 = 3;

proof!(c42_add_from_empty, 48, {
    let n = writer_ops(0, &[ADD]);
    kani::cover!(n == 1, "added");
});
proof!(c42_add_from_one, 48, {
    let n = writer_ops(1, &[ADD]);
    kani::cover!(n == 2, "added second");
});
proof!(c42_add_on_full, 48, {
    let n = writer_ops(2, &[ADD]);
    kani::cover!(n == 2, "out of space, table unchanged");
});
proof!(c42_remove_from_full, 48, {
    let n = writer_ops(2, &[REMOVE]);
    kani::cover!(n == 1, "removed one");
    kani::cover!(n == 2, "id absent, nothing removed");
});
proof!(c42_remove_if_from_full, 48, {
    let n = writer_ops(2, &[REMOVE_IF]);
    kani::cover!(n == 0, "removed both");
    kani::cover!(n == 1, "removed one");
    kani::cover!(n == 2, "removed none");
});
proof!(c42_remove_all_from_full, 48, {
    let n = writer_ops(2, &[REMOVE_ALL]);
    kani::cover!(n == 0, "cleared");
});
proof!(c42_remove_then_add, 48, {
    let n = writer_ops(2, &[REMOVE, ADD]);
    kani::cover!(n == 2, "slot reused by a channel with a fresh id");
});
proof!(c42_remove_on_empty, 48, {
    let n = writer_ops(0, &[REMOVE, REMOVE_IF, REMOVE_ALL]);
    kani::cover!(n == 0, "still empty");
});
