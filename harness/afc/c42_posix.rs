// STATUS: NOT WIRED INTO ANY CHECK (no checks/C42.json, no overlay).  The harness compiles
// and runs, but CBMC needs > 8 GB / > 10 min for a single `WriteState::add` (see the
// final report): the table lives in one untyped byte region accessed through pointer
// casts at offsets (`read_off`/`write_off`) that are themselves loaded from that
// region, so after the first offset swap every access is a symbolic-offset
// byte_extract/byte_update over the whole region.  Kept for reference.
// C42 support - child module of aranya_fast_channels::shm::posix.
//
// Lets a check place a `Mapping` over ordinary (heap) memory, bypassing
// shm_open/ftruncate/mmap.  Everything above the mapping layer stays the real code.
use core::ptr::NonNull;

use super::*;

impl<T> Mapping<T> {
    /// `base` must be non-null, aligned for `T` and valid for `layout.size()` bytes.
    /// The result must be `mem::forget`-ed (its `Drop` calls `munmap`).
    pub(crate) fn verif_from_raw(base: *mut u8, layout: Layout) -> Self {
        let nn = match NonNull::new(base.cast::<T>()) {
            Some(p) => p,
            None => unreachable!(),
        };
        // SAFETY: `Aligned<T>` is `#[repr(transparent)]` over `NonNull<T>`.
        let ptr: Aligned<T> = unsafe { core::mem::transmute::<NonNull<T>, Aligned<T>>(nn) };
        Self {
            ptr,
            base: base.cast::<c_void>(),
            layout,
        }
    }
}
