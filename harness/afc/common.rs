// Shared harness environment for the AFC checks (C39, C40, C42).
//
// The code under test is generic over `CipherSuite`; these checks instantiate it with
// a cipher suite whose AEAD is a harness-level stand-in, so that everything *around*
// the AEAD (aranya-fast-channels Client/header/buf code, aranya-crypto afc::SealKey /
// OpenKey, spideroak-crypto hpke::SealCtx / OpenCtx / Seq, the default methods of
// the `Aead` trait) is the real code and only the cipher itself is replaced.  No
// `#[kani::stub]` is used, so counterexamples replay natively.
//
// Two stand-ins:
//  * `AdvAead`  - adversarial: checks the documented parameter contract, records
//                 its arguments in ghost state, then overwrites the data (and the
//                 tag when sealing) with arbitrary bytes and returns an arbitrary
//                 Ok/Err.  Worst case for "no plaintext left after an error".
//  * `ToyAead`  - deterministic identity cipher whose 16-byte tag is
//                 nonce[4..12] || xor-fold4(data) || xor-fold4(ad).  Not a MAC in any
//                 cryptographic sense; it makes the ciphertext||tag||header layout
//                 observable (which bytes are fed to the AEAD in which role).
#![allow(dead_code, static_mut_refs, clippy::all)]

use core::marker::PhantomData;

use aranya_crypto::{
    CipherSuite,
    dangerous::spideroak_crypto::{
        aead::{
            Aead, AeadKey, IndCca2, Lifetime, OpenError as AeadOpenError,
            SealError as AeadSealError, check_open_in_place_params, check_seal_in_place_params,
        },
        csprng::Csprng,
        hash::{Digest, Hash},
        hpke::{AeadId, HpkeAead},
        oid::{
            Identified, Oid,
            consts::{AES_256_GCM, SHA2_256},
        },
    },
    default::DefaultCipherSuite,
    typenum::{U12, U16, U32},
};

/// Stand-in for `zeroize::optimization_barrier`, whose body is an empty inline-asm
/// compiler barrier (`asm!("# {}", in(reg) ptr)`) that Kani cannot translate.  It has
/// no effect on program state, so the stub is an exact model.
pub fn no_barrier<T: ?Sized>(_val: &T) {}

pub const TAG: usize = 16;
pub const NONCE: usize = 12;
pub const AD: usize = 36;
/// Max data length the ghost recorder keeps.
pub const GMAX: usize = 48;

/// What the stand-in AEAD saw on its most recent `open_in_place` / `seal_in_place`.
pub struct Ghost {
    pub open_calls: u32,
    pub seal_calls: u32,
    pub last_ok: bool,
    pub nonce: [u8; NONCE],
    pub ad: [u8; AD],
    pub ad_len: usize,
    pub tag: [u8; TAG],
    pub tag_len: usize,
    pub data_len: usize,
    /// data as passed in (before the stand-in touched it)
    pub data_in: [u8; GMAX],
    /// data as left behind by the stand-in
    pub data_out: [u8; GMAX],
}

pub static mut GHOST: Ghost = Ghost {
    open_calls: 0,
    seal_calls: 0,
    last_ok: false,
    nonce: [0; NONCE],
    ad: [0; AD],
    ad_len: 0,
    tag: [0; TAG],
    tag_len: 0,
    data_len: 0,
    data_in: [0; GMAX],
    data_out: [0; GMAX],
};

pub fn ghost() -> &'static mut Ghost {
    // SAFETY: harnesses are single threaded.
    unsafe { &mut GHOST }
}

pub fn ghost_reset() {
    let g = ghost();
    g.open_calls = 0;
    g.seal_calls = 0;
    g.last_ok = false;
    g.data_len = 0;
    g.tag_len = 0;
    g.ad_len = 0;
}

fn copy_into(dst: &mut [u8], src: &[u8]) -> usize {
    let mut i = 0;
    while i < src.len() && i < dst.len() {
        dst[i] = src[i];
        i += 1;
    }
    src.len()
}

fn havoc(s: &mut [u8]) {
    let mut i = 0;
    while i < s.len() {
        s[i] = kani::any();
        i += 1;
    }
}

fn record(nonce: &[u8], data: &[u8], tag: &[u8], ad: &[u8]) {
    let g = ghost();
    copy_into(&mut g.nonce, nonce);
    g.ad_len = copy_into(&mut g.ad, ad);
    g.tag_len = copy_into(&mut g.tag, tag);
    g.data_len = copy_into(&mut g.data_in, data);
}

// ---------------------------------------------------------------------------------
// Adversarial AEAD
// ---------------------------------------------------------------------------------

pub struct AdvAead;

impl Aead for AdvAead {
    const LIFETIME: Lifetime = Lifetime::Messages(u64::MAX);
    type KeySize = U32;
    type NonceSize = U12;
    type Overhead = U16;
    const MAX_PLAINTEXT_SIZE: u64 = (1 << 36) - 32;
    const MAX_ADDITIONAL_DATA_SIZE: u64 = (1 << 61) - 1;
    type Key = AeadKey<U32>;

    fn new(_key: &Self::Key) -> Self {
        Self
    }

    fn seal_in_place(
        &self,
        nonce: &[u8],
        data: &mut [u8],
        overhead: &mut [u8],
        additional_data: &[u8],
    ) -> Result<(), AeadSealError> {
        check_seal_in_place_params::<Self>(nonce, data, overhead, additional_data)?;
        if overhead.len() != TAG {
            return Err(AeadSealError::InvalidOverheadSize);
        }
        record(nonce, data, overhead, additional_data);
        havoc(data);
        havoc(overhead);
        let g = ghost();
        copy_into(&mut g.data_out, data);
        copy_into(&mut g.tag, overhead);
        g.seal_calls += 1;
        g.last_ok = kani::any();
        if g.last_ok {
            Ok(())
        } else {
            Err(AeadSealError::Encryption)
        }
    }

    fn open_in_place(
        &self,
        nonce: &[u8],
        data: &mut [u8],
        overhead: &[u8],
        additional_data: &[u8],
    ) -> Result<(), AeadOpenError> {
        check_open_in_place_params::<Self>(nonce, data, overhead, additional_data)?;
        if overhead.len() != TAG {
            return Err(AeadOpenError::InvalidOverheadSize);
        }
        record(nonce, data, overhead, additional_data);
        // Whatever an implementation might leave behind, on success or failure.
        havoc(data);
        let g = ghost();
        copy_into(&mut g.data_out, data);
        g.open_calls += 1;
        g.last_ok = kani::any();
        if g.last_ok {
            Ok(())
        } else {
            Err(AeadOpenError::Authentication)
        }
    }
}

impl IndCca2 for AdvAead {}
impl Identified for AdvAead {
    const OID: &'static Oid = AES_256_GCM;
}
impl HpkeAead for AdvAead {
    const ID: AeadId = AeadId::Aes256Gcm;
}

// ---------------------------------------------------------------------------------
// Toy (identity + fold tag) AEAD
// ---------------------------------------------------------------------------------

pub struct ToyAead;

fn toy_tag(nonce: &[u8], data: &[u8], ad: &[u8]) -> [u8; TAG] {
    let mut t = [0u8; TAG];
    let mut i = 0;
    while i < 8 {
        t[i] = nonce[4 + i];
        i += 1;
    }
    let mut i = 0;
    while i < data.len() {
        t[8 + (i & 3)] ^= data[i];
        i += 1;
    }
    let mut i = 0;
    while i < ad.len() {
        t[12 + (i & 3)] ^= ad[i];
        i += 1;
    }
    t
}

impl Aead for ToyAead {
    const LIFETIME: Lifetime = Lifetime::Messages(u64::MAX);
    type KeySize = U32;
    type NonceSize = U12;
    type Overhead = U16;
    const MAX_PLAINTEXT_SIZE: u64 = (1 << 36) - 32;
    const MAX_ADDITIONAL_DATA_SIZE: u64 = (1 << 61) - 1;
    type Key = AeadKey<U32>;

    fn new(_key: &Self::Key) -> Self {
        Self
    }

    fn seal_in_place(
        &self,
        nonce: &[u8],
        data: &mut [u8],
        overhead: &mut [u8],
        additional_data: &[u8],
    ) -> Result<(), AeadSealError> {
        check_seal_in_place_params::<Self>(nonce, data, overhead, additional_data)?;
        if overhead.len() != TAG {
            return Err(AeadSealError::InvalidOverheadSize);
        }
        record(nonce, data, overhead, additional_data);
        let t = toy_tag(nonce, data, additional_data);
        let mut i = 0;
        while i < TAG {
            overhead[i] = t[i];
            i += 1;
        }
        let g = ghost();
        g.seal_calls += 1;
        g.last_ok = true;
        Ok(())
    }

    fn open_in_place(
        &self,
        nonce: &[u8],
        data: &mut [u8],
        overhead: &[u8],
        additional_data: &[u8],
    ) -> Result<(), AeadOpenError> {
        check_open_in_place_params::<Self>(nonce, data, overhead, additional_data)?;
        if overhead.len() != TAG {
            return Err(AeadOpenError::InvalidOverheadSize);
        }
        record(nonce, data, overhead, additional_data);
        let t = toy_tag(nonce, data, additional_data);
        let mut same = true;
        let mut i = 0;
        while i < TAG {
            same &= overhead[i] == t[i];
            i += 1;
        }
        let g = ghost();
        g.open_calls += 1;
        g.last_ok = same;
        if same {
            Ok(())
        } else {
            Err(AeadOpenError::Authentication)
        }
    }
}

impl IndCca2 for ToyAead {}
impl Identified for ToyAead {
    const OID: &'static Oid = AES_256_GCM;
}
impl HpkeAead for ToyAead {
    const ID: AeadId = AeadId::Aes256Gcm;
}

// ---------------------------------------------------------------------------------
// Cipher suite: stand-in AEAD, everything else as in the default suite (unused here).
// ---------------------------------------------------------------------------------

pub struct VCs<A>(PhantomData<A>);

/// The stand-in AEADs' common shape (so that raw keys can be built generically).
pub trait VA: aranya_crypto::Aead<Key = AeadKey<U32>, KeySize = U32, NonceSize = U12> {}
impl VA for AdvAead {}
impl VA for ToyAead {}

impl<A: aranya_crypto::Aead> CipherSuite for VCs<A> {
    type Aead = A;
    type Hash = ToyHash;
    type Kdf = <DefaultCipherSuite as CipherSuite>::Kdf;
    type Kem = <DefaultCipherSuite as CipherSuite>::Kem;
    type Mac = <DefaultCipherSuite as CipherSuite>::Mac;
    type Signer = <DefaultCipherSuite as CipherSuite>::Signer;
}

// ---------------------------------------------------------------------------------
// Toy hash (only used for the shared-memory `KeyId`, which no check looks at) and a
// deterministic "random" source.
// ---------------------------------------------------------------------------------

#[derive(Clone)]
pub struct ToyHash {
    acc: [u8; 32],
    pos: usize,
}

impl Hash for ToyHash {
    type DigestSize = U32;

    fn new() -> Self {
        Self {
            acc: [0; 32],
            pos: 0,
        }
    }

    fn update(&mut self, data: &[u8]) {
        let mut i = 0;
        while i < data.len() {
            self.acc[self.pos & 31] ^= data[i];
            self.pos = self.pos.wrapping_add(1);
            i += 1;
        }
    }

    fn digest(self) -> Digest<U32> {
        Digest::from_array(self.acc)
    }
}

impl Identified for ToyHash {
    const OID: &'static Oid = SHA2_256;
}

/// Fills with a constant; the only consumer is `ShmChan::init`, which randomises the
/// key slot a channel does not use.
pub struct ConstRng;

impl Csprng for ConstRng {
    fn fill_bytes(&self, dst: &mut [u8]) {
        let mut i = 0;
        while i < dst.len() {
            dst[i] = 0x5a;
            i += 1;
        }
    }
}
