"""Value model, symbolic executor and callee whitelist of engine E2 (mir-bmc).

Values are Z3 bit-vectors; booleans are 1-bit vectors; pointers are 32-bit abstract addresses
(object id << 16 | field path), see `ptr()`.  Everything the executor does not understand raises
mir.Unsupported ("code left the encodable subset").
"""
import re

import z3

from mir import Unsupported, split_top, Place, Operand

PTR_W = 32
LOCAL_OBJ_BASE = 0x4000          # object ids of address-taken locals
RUN, ASLEEP, FIN, DEAD = 0, 1, 2, 3   # thread status (DEAD = panicked / reached unreachable)
STATUS_W = 2


def bv(v, w):
    return z3.BitVecVal(v, w)


def b2bv(b):
    return z3.If(b, bv(1, 1), bv(0, 1))


def is_num(e):
    return z3.is_bv_value(e)


def simp(e):
    return z3.simplify(e)


def ptr_const(obj, off=0):
    return (obj << 16) | off


def field_off(off, i):
    if i > 2:
        raise Unsupported(f"field index {i} > 2 not representable in the abstract address")
    n = off * 4 + i + 1
    if n >= 1 << 16:
        raise Unsupported("field path too deep for the abstract address")
    return n


# --------------------------------------------------------------------------- shapes

INTS = {"u8": (8, False), "i8": (8, True), "u16": (16, False), "i16": (16, True), "u32": (32, False),
        "i32": (32, True), "u64": (64, False), "i64": (64, True), "usize": (64, False), "isize": (64, True),
        "bool": (1, False)}

UNIT = ("unit",)
PTR = ("ptr",)


def split_generic(ty):
    """'a::B<X, Y>' -> ('a::B', ['X','Y']);  'a::B' -> ('a::B', [])"""
    i = ty.find("<")
    if i < 0 or not ty.endswith(">"):
        return ty, []
    if ty.startswith("<"):
        raise Unsupported(f"qualified type not in subset: {ty!r}")
    return ty[:i].rstrip(":"), split_top(ty[i + 1:-1])


class TypeEnv:
    """type text -> shape.  `adts` = model table: last path segment -> function(args) -> shape."""

    def __init__(self, adts=None):
        self.adts = adts or {}
        self.cache = {}

    def shape(self, ty):
        ty = ty.strip()
        if ty in self.cache:
            return self.cache[ty]
        s = self._shape(ty)
        self.cache[ty] = s
        return s

    def _shape(self, ty):
        if ty in INTS:
            return ("int", INTS[ty][0], INTS[ty][1])
        if ty in ("()", "!"):
            return UNIT
        if ty.startswith("&") or ty.startswith("*const ") or ty.startswith("*mut "):
            return PTR
        if ty.startswith("("):
            return ("struct", tuple(self.shape(x) for x in split_top(ty[1:-1]) if x))
        head, args = split_generic(ty)
        args = [a for a in args if not a.startswith("'")]
        last = head.split("::")[-1]
        if last in self.adts:
            return self.adts[last](self, args)
        if last == "Option" and len(args) == 1:
            return ("enum", (("None", ()), ("Some", (self.shape(args[0]),))))
        if last == "Result" and len(args) == 2:
            return ("enum", (("Ok", (self.shape(args[0]),)), ("Err", (self.shape(args[1]),))))
        if last == "ControlFlow" and len(args) in (1, 2):
            c = self.shape(args[1]) if len(args) == 2 else UNIT
            return ("enum", (("Continue", (c,)), ("Break", (self.shape(args[0]),))))
        if last == "Range" and len(args) == 1:
            e = self.shape(args[0])
            return ("struct", (e, e))
        if last in ("NonNull", "Box") and len(args) == 1:
            return PTR
        if last in ("PhantomData", "Infallible"):
            return UNIT
        if head in ("core::sync::atomic::Ordering", "buggy::Bug", "core::alloc::Layout", "Layout", "str"):
            return ("opaque", last)
        raise Unsupported(f"type not in subset: {ty!r}")


def leaves(shape):
    """[(path, width)] scalar leaves of a shape."""
    k = shape[0]
    if k == "int":
        return [("", shape[1])]
    if k == "ptr":
        return [("", PTR_W)]
    if k in ("unit", "opaque"):
        return []
    if k == "struct":
        out = []
        for i, s in enumerate(shape[1]):
            for p, w in leaves(s):
                out.append((f"{i}" + ("." + p if p else ""), w))
        return out
    if k == "enum":
        out = [("#", 8)]
        for name, fields in shape[1]:
            for i, s in enumerate(fields):
                for p, w in leaves(s):
                    out.append((f"{name}.{i}" + ("." + p if p else ""), w))
        return out
    raise Unsupported(f"bad shape {shape}")


def sub_shape(shape, proj):
    """shape + one projection -> (sub shape, leaf path prefix)."""
    if proj[0] == "field":
        if shape[0] == "struct":
            if proj[1] >= len(shape[1]):
                raise Unsupported(f"field {proj[1]} out of range for shape {shape}")
            return shape[1][proj[1]], f"{proj[1]}"
        if shape[0] == "variant":
            fields = shape[2]
            if proj[1] >= len(fields):
                raise Unsupported(f"field {proj[1]} out of range for variant {shape[1]}")
            return fields[proj[1]], f"{shape[1]}.{proj[1]}"
        raise Unsupported(f"field projection on shape {shape[0]}")
    if proj[0] == "downcast":
        if shape[0] != "enum":
            raise Unsupported("downcast on non-enum")
        for name, fields in shape[1]:
            if name == proj[1]:
                return ("variant", name, fields), ""
        raise Unsupported(f"unknown variant {proj[1]}")
    raise Unsupported(f"projection {proj}")


def join_path(a, b):
    if not a:
        return b
    if not b:
        return a
    return a + "." + b


def variant_index(shape, name):
    for i, (n, _) in enumerate(shape[1]):
        if n == name:
            return i
    raise Unsupported(f"unknown variant {name} of {shape}")


# A value is a dict {leaf path: bitvector} together with its shape.
class Val:
    __slots__ = ("shape", "lv")

    def __init__(self, shape, lv):
        self.shape = shape
        self.lv = lv

    def scalar(self):
        if self.shape[0] not in ("int", "ptr"):
            raise Unsupported(f"scalar expected, got {self.shape}")
        return self.lv[""]

    def sub(self, prefix, shape):
        out = {}
        for p, _ in leaves(shape):
            out[p] = self.lv[join_path(prefix, p)]
        return Val(shape, out)


def zero_val(shape):
    return Val(shape, {p: bv(0, w) for p, w in leaves(shape)})


def int_val(e, signed=False):
    return Val(("int", e.size(), signed), {"": e})


def ptr_val(e):
    return Val(PTR, {"": e})


def unit_val():
    return Val(UNIT, {})


def enum_val(shape, variant, payload):
    """payload: list of Val for the variant's fields; other variants' leaves are zero."""
    v = zero_val(shape)
    v.lv["#"] = bv(variant_index(shape, variant), 8)
    fields = dict(shape[1])[variant]
    if len(fields) != len(payload):
        raise Unsupported(f"variant {variant} arity")
    for i, (fs, pv) in enumerate(zip(fields, payload)):
        if leaves(fs) != leaves(pv.shape):
            raise Unsupported(f"variant {variant} field {i}: shape mismatch {fs} vs {pv.shape}")
        for p, _ in leaves(fs):
            v.lv[join_path(f"{variant}.{i}", p)] = pv.lv[p]
    return v


def ite_val(c, a, b):
    return Val(a.shape, {p: z3.If(c, a.lv[p], b.lv[p]) for p in a.lv})


# --------------------------------------------------------------------------- model memory

class Cell:
    def __init__(self, name, obj, off, width, init=0, atomic=True):
        self.name = name
        self.addr = ptr_const(obj, off)
        self.obj = obj
        self.width = width
        self.init = init
        self.atomic = atomic
        self.key = "mem:" + name


class Obj:
    def __init__(self, name, oid, heap=False):
        self.name = name
        self.id = oid
        self.heap = heap


# --------------------------------------------------------------------------- execution context

class Ctx:
    """One symbolic path of one thread: state (key -> bitvector), path condition, side constraints, trace."""

    def __init__(self, tid, state, ndvars):
        self.tid = tid
        self.state = state
        self.cond = z3.BoolVal(True)
        self.constraints = []
        self.trace = []
        self.ndvars = ndvars   # shared dict: name -> placeholder constant of a per-step nondeterministic input
        self.events = []
        self.end = None  # ("loc", block) | ("fin",) | ("dead", reason)

    def nondet(self, name, width):
        if name not in self.ndvars:
            self.ndvars[name] = z3.BitVec("N!" + name, width)
        if self.ndvars[name].size() != width:
            raise Unsupported(f"nondet input {name} used with two widths")
        return self.ndvars[name]

    def fork(self, c):
        n = Ctx(self.tid, dict(self.state), self.ndvars)
        n.cond = simp(z3.And(self.cond, c))
        n.constraints = list(self.constraints)
        n.trace = list(self.trace)
        n.events = list(self.events)
        return n

    def get(self, key):
        if key not in self.state:
            raise Unsupported(f"read of {key} which is not part of the state here (dead or uninitialised local)")
        return self.state[key]

    def set(self, key, e):
        self.state[key] = e

    def raise_flag(self, name, cond=None):
        k = "flag:" + name
        cur = self.state[k]
        self.state[k] = bv(1, 1) if cond is None else simp(cur | b2bv(cond))


class Executor:
    """Executes blocks of one flattened thread program over a Ctx."""

    def __init__(self, model, prog):
        self.model = model          # ModelDef: objects, cells, prims, types, consts
        self.prog = prog            # prog.FlatProgram
        self.tenv = model.tenv

    # ---- locals
    def lkey(self, tid, local, path):
        return f"t{tid}:{local}|{path}"

    def local_shape(self, local):
        return self.tenv.shape(self.prog.locals[local])

    def read_local(self, ctx, local, prefix, shape):
        return Val(shape, {p: ctx.get(self.lkey(ctx.tid, local, join_path(prefix, p))) for p, _ in leaves(shape)})

    def write_local(self, ctx, local, prefix, val, shape):
        if leaves(shape) != leaves(val.shape):
            raise Unsupported(f"assignment shape mismatch for {local}: {shape} vs {val.shape}")
        for p, _ in leaves(shape):
            ctx.set(self.lkey(ctx.tid, local, join_path(prefix, p)), val.lv[p])

    # ---- constants
    def const_val(self, text, want=None):
        t = text.strip()
        m = re.fullmatch(r"(-?\d+)_([iu](?:8|16|32|64|size))", t)
        if m:
            w, sg = INTS[m.group(2)]
            return Val(("int", w, sg), {"": bv(int(m.group(1)), w)})
        if t in ("true", "false"):
            return Val(("int", 1, False), {"": bv(1 if t == "true" else 0, 1)})
        if t == "()":
            return unit_val()
        if t.startswith('"'):
            return Val(("opaque", "str"), {})
        if want is not None and want[0] in ("unit", "opaque"):
            return Val(want, {})
        if want is not None and want[0] == "enum":
            name = re.sub(r"<.*>", "", t).split("::")[-1]
            if name in dict(want[1]) and not dict(want[1])[name]:
                return enum_val(want, name, [])
        if re.match(r"PhantomData", t):
            return unit_val()
        # Option::<Infallible>::None passed as an argument
        if re.fullmatch(r"(core::option::)?Option::<(core::convert::)?Infallible>::None", t):
            sh = ("enum", (("None", ()), ("Some", (UNIT,))))
            return enum_val(sh, "None", [])
        return self.model.named_const(self, t)

    # ---- places
    def _walk(self, ctx, place):
        """Resolve a place to ('local', local, prefix, shape) or ('mem', addr_bv, shape_or_None, type_text)."""
        local = place.base
        kind = ("local", local, "", None)
        shape = None
        for pr in place.proj:
            if kind[0] == "local":
                if shape is None:
                    shape = self.local_shape(local)
                if pr[0] == "deref":
                    if shape != PTR:
                        raise Unsupported(f"deref of non-pointer {place!r}")
                    p = ctx.get(self.lkey(ctx.tid, local, kind[2]))
                    kind = ("mem", p, None, None)
                    shape = None
                else:
                    shape, pre = sub_shape(shape, pr)
                    kind = ("local", local, join_path(kind[2], pre), None)
            else:
                if pr[0] == "field":
                    a = kind[1]
                    if is_num(a):
                        v = a.as_long()
                        a2 = bv(ptr_const(v >> 16, field_off(v & 0xFFFF, pr[1])), PTR_W)
                    else:
                        field_off(0, pr[1])
                        a2 = simp((a & bv(0xFFFF0000, PTR_W)) | (((a & bv(0xFFFF, PTR_W)) * 4 + (pr[1] + 1)) & bv(0xFFFF, PTR_W)))
                    kind = ("mem", a2, None, pr[2])
                elif pr[0] == "deref":
                    # pointer stored in memory, then dereferenced
                    pv = self.load(ctx, kind[1], PTR, statement=True)
                    kind = ("mem", pv.scalar(), None, None)
                else:
                    raise Unsupported(f"enum downcast through a pointer not in subset: {place!r}")
        if kind[0] == "local":
            if shape is None:
                shape = self.local_shape(local)
            if shape[0] == "variant":
                raise Unsupported(f"whole-variant place {place!r}")
            return ("local", local, kind[2], shape)
        return kind

    def read_place(self, ctx, place):
        k = self._walk(ctx, place)
        if k[0] == "local":
            return self.read_local(ctx, k[1], k[2], k[3])
        if k[3] is None:
            raise Unsupported(f"load of a whole pointee {place!r} not in subset")
        return self.load(ctx, k[1], self.tenv.shape(k[3]), statement=True)

    def write_place(self, ctx, place, val):
        k = self._walk(ctx, place)
        if k[0] == "local":
            self.write_local(ctx, k[1], k[2], val, k[3])
            return
        raise Unsupported(f"store through a pointer in a statement not in subset: {place!r}")

    def addr_of(self, ctx, place):
        k = self._walk(ctx, place)
        if k[0] == "mem":
            return k[1]
        local, prefix = k[1], k[2]
        oid = self.prog.local_obj(local)
        off = 0
        if prefix:
            for seg in prefix.split("."):
                if not seg.isdigit():
                    raise Unsupported(f"address of an enum payload not in subset: {place!r}")
                off = field_off(off, int(seg))
        return bv(ptr_const(oid, off), PTR_W)

    # ---- memory
    def _local_candidates(self, tid, width_shape):
        """[(addr const, local, path)] leaves of address-taken locals whose sub-shape equals width_shape."""
        out = []
        for local, oid in self.prog.addr_taken.items():
            sh = self.local_shape(local)
            for off, sub, prefix in enum_struct_paths(sh):
                if leaves(sub) == leaves(width_shape) and sub[0] == width_shape[0]:
                    out.append((ptr_const(oid, off), local, prefix, sub))
        return out

    def check_access(self, ctx, p, what):
        """ACCESS event: dereferencing p must not hit a freed heap object."""
        if self.prog.absorbed:
            # absorption of reference-creation events assumes every checked pointer is into the one heap object
            o = [x for x in self.model.objects if x.heap][0]
            ctx.raise_flag("wild", simp((p >> 16) != bv(o.id, PTR_W)))
        for o in self.model.objects:
            if not o.heap:
                continue
            hit = simp((p >> 16) == bv(o.id, PTR_W))
            if z3.is_false(hit):
                continue
            ctx.raise_flag("uaf", z3.And(hit, ctx.get("freed:" + o.name) == 1))
            ctx.events.append(f"ACCESS({o.name}) by {what}")

    def load(self, ctx, p, shape, statement=False):
        """Load a value of `shape` through pointer p.  In a statement only thread-private places may be read."""
        p = simp(p)
        cands = self._local_candidates(ctx.tid, shape)
        if is_num(p):
            a = p.as_long()
            for addr, local, prefix, sub in cands:
                if addr == a:
                    return self.read_local(ctx, local, prefix, sub)
            if statement:
                raise Unsupported(f"plain (non-atomic) load from address {a:#x} which is not a thread-private place")
            raise Unsupported(f"load from unknown address {a:#x}")
        if not cands:
            ctx.raise_flag("wild")
            return zero_val(shape)
        res = zero_val(shape)
        anyhit = z3.BoolVal(False)
        for addr, local, prefix, sub in cands:
            hit = p == bv(addr, PTR_W)
            try:
                v = self.read_local(ctx, local, prefix, sub)
            except Unsupported:
                continue   # that local has no value here (dead): a hit on it counts as a wild pointer below
            res = ite_val(hit, v, res)
            anyhit = z3.Or(anyhit, hit)
        ctx.raise_flag("wild", z3.Not(anyhit))
        return res

    def cell_rw(self, ctx, p, width, what):
        """Resolve pointer p to shared cells of `width`: returns (read expr, writer(new expr))."""
        p = simp(p)
        cells = [c for c in self.model.cells if c.width == width]
        self.check_access(ctx, p, what)
        if is_num(p):
            a = p.as_long()
            for c in cells:
                if c.addr == a:
                    return ctx.get(c.key), (lambda e, c=c: ctx.set(c.key, simp(e)))
            raise Unsupported(f"{what}: address {a:#x} is not a declared shared cell of width {width}")
        if not cells:
            raise Unsupported(f"{what}: no shared cell of width {width}")
        rd = bv(0, width)
        anyhit = z3.BoolVal(False)
        for c in cells:
            hit = p == bv(c.addr, PTR_W)
            rd = z3.If(hit, ctx.get(c.key), rd)
            anyhit = z3.Or(anyhit, hit)
        ctx.raise_flag("wild", z3.Not(anyhit))

        def wr(e):
            for c in cells:
                ctx.set(c.key, simp(z3.If(p == bv(c.addr, PTR_W), e, ctx.get(c.key))))
        return simp(rd), wr

    # ---- operands / rvalues
    def operand(self, ctx, op, want=None):
        if op.kind == "const":
            return self.const_val(op.const, want)
        return self.read_place(ctx, op.place)

    def rvalue(self, ctx, rv, dshape):
        k = rv.kind
        if k == "use":
            return self.operand(ctx, rv.a, dshape)
        if k == "ref":
            return ptr_val(self.addr_of(ctx, rv.a))
        if k == "discr":
            v = self.read_place(ctx, rv.a)
            if v.shape[0] != "enum":
                raise Unsupported("discriminant of non-enum")
            return Val(("int", 64, True), {"": z3.ZeroExt(56, v.lv["#"])})
        if k == "bin":
            a = self.operand(ctx, rv.a)
            b = self.operand(ctx, rv.b)
            if a.shape[0] not in ("int", "ptr") or b.shape[0] not in ("int", "ptr"):
                raise Unsupported(f"binary op on non-scalars")
            x, y = a.scalar(), b.scalar()
            if x.size() != y.size():
                raise Unsupported("binary op width mismatch")
            sg = a.shape[0] == "int" and a.shape[2]
            op = rv.op
            if op == "Eq":
                r = b2bv(x == y)
            elif op == "Ne":
                r = b2bv(x != y)
            elif op == "Lt":
                r = b2bv(x < y if sg else z3.ULT(x, y))
            elif op == "Le":
                r = b2bv(x <= y if sg else z3.ULE(x, y))
            elif op == "Gt":
                r = b2bv(x > y if sg else z3.UGT(x, y))
            elif op == "Ge":
                r = b2bv(x >= y if sg else z3.UGE(x, y))
            elif op in ("BitAnd", "BitOr", "BitXor"):
                r = {"BitAnd": x & y, "BitOr": x | y, "BitXor": x ^ y}[op]
                return Val(a.shape, {"": simp(r)})
            else:
                raise Unsupported(f"binary op {op} not in subset (overflow semantics not modelled)")
            return Val(("int", 1, False), {"": simp(r)})
        if k == "un":
            a = self.operand(ctx, rv.a)
            if rv.op == "Not" and a.shape[0] == "int":
                return Val(a.shape, {"": simp(~a.scalar())})
            raise Unsupported(f"unary op {rv.op}")
        if k == "cast":
            a = self.operand(ctx, rv.a)
            if rv.op == "PtrToPtr" and a.shape == PTR and dshape == PTR:
                return a
            if rv.op == "IntToInt" and a.shape[0] == "int" and dshape[0] == "int":
                x = a.scalar()
                w = dshape[1]
                if w == x.size():
                    r = x
                elif w < x.size():
                    r = z3.Extract(w - 1, 0, x)
                else:
                    r = z3.SignExt(w - x.size(), x) if a.shape[2] else z3.ZeroExt(w - x.size(), x)
                return Val(dshape, {"": simp(r)})
            raise Unsupported(f"cast {rv.op} not in subset")
        if k == "agg":
            if rv.op == "tuple":
                if dshape[0] == "unit" and not rv.extra:
                    return unit_val()
                if dshape[0] != "struct" or len(dshape[1]) != len(rv.extra):
                    raise Unsupported("tuple aggregate shape mismatch")
                return self._struct(ctx, dshape, rv.extra)
            if dshape[0] in ("opaque", "unit"):
                return Val(dshape, {})
            if dshape[0] == "struct":
                if len(dshape[1]) != len(rv.extra):
                    raise Unsupported(f"aggregate {rv.ty}: {len(rv.extra)} operands for shape {dshape}")
                return self._struct(ctx, dshape, rv.extra)
            if dshape[0] == "enum":
                name = re.sub(r"<.*>", "", rv.ty).split("::")[-1]
                fields = dict(dshape[1]).get(name)
                if fields is None or len(fields) != len(rv.extra):
                    raise Unsupported(f"aggregate {rv.ty} does not fit {dshape}")
                return enum_val(dshape, name, [self.operand(ctx, o, fs) for o, fs in zip(rv.extra, fields)])
            raise Unsupported(f"aggregate {rv.ty} into {dshape}")
        raise Unsupported(f"rvalue kind {k}")

    def _struct(self, ctx, dshape, ops):
        lv = {}
        for i, (o, fs) in enumerate(zip(ops, dshape[1])):
            v = self.operand(ctx, o, fs)
            if leaves(v.shape) != leaves(fs):
                raise Unsupported(f"aggregate field {i}: shape mismatch {fs} vs {v.shape}")
            for p, _ in leaves(fs):
                lv[join_path(str(i), p)] = v.lv[p]
        return Val(dshape, lv)

    def place_shape(self, ctx, place):
        k = self._walk(ctx, place)
        if k[0] == "local":
            return k[3]
        raise Unsupported(f"destination through pointer not in subset: {place!r}")

    # ---- blocks
    def exec_stmts(self, ctx, blk):
        for st in blk.stmts:
            try:
                dshape = self.place_shape(ctx, st.place)
                v = self.rvalue(ctx, st.rv, dshape)
                self.write_place(ctx, st.place, v)
            except Unsupported as e:
                raise Unsupported(f"{blk.name}: `{st.text}`: {e}") from None

    def exec_term(self, ctx, blk):
        """Execute the terminator; returns [(ctx, next block name | None)] (None: ctx.end is set)."""
        t = blk.term
        try:
            return self._exec_term(ctx, blk, t)
        except Unsupported as e:
            raise Unsupported(f"{blk.name}: `{t.text}`: {e}") from None

    def _exec_term(self, ctx, blk, t):
        if t.kind == "goto":
            return [(ctx, t.target)]
        if t.kind == "return":
            ctx.end = ("fin",)
            ctx.set(f"st:{ctx.tid}", bv(FIN, STATUS_W))
            return [(ctx, None)]
        if t.kind in ("unreachable", "resume"):
            ctx.raise_flag("unreachable")
            ctx.end = ("dead", t.kind)
            ctx.set(f"st:{ctx.tid}", bv(DEAD, STATUS_W))
            return [(ctx, None)]
        if t.kind == "switch":
            v = self.operand(ctx, t.op).scalar()
            out = []
            rest = z3.BoolVal(True)
            for val, tgt in t.targets:
                c = simp(v == bv(val, v.size()))
                rest = z3.And(rest, z3.Not(c))
                if z3.is_false(c):
                    continue
                out.append((ctx.fork(c), tgt))
                if z3.is_true(c):
                    return out[-1:]
            rest = simp(rest)
            if not z3.is_false(rest):
                if t.otherwise is None:
                    raise Unsupported("switchInt without otherwise")
                out.append((ctx.fork(rest), t.otherwise))
            return out
        if t.kind == "assert":
            v = self.operand(ctx, t.op).scalar()
            ok = simp(v == bv(1 if t.expected else 0, 1))
            out = []
            if not z3.is_false(ok):
                out.append((ctx.fork(ok), t.target))
            bad = simp(z3.Not(ok))
            if not z3.is_false(bad):
                c2 = ctx.fork(bad)
                c2.raise_flag("panic")
                c2.end = ("dead", "assert " + (t.msg or ""))
                c2.set(f"st:{c2.tid}", bv(DEAD, STATUS_W))
                out.append((c2, None))
            return out
        if t.kind == "drop":
            raise Unsupported("drop terminator (drop glue) not in subset")
        if t.kind == "call":
            prim = self.model.find_prim(t.callee)
            if prim is None:
                raise Unsupported(f"callee {t.callee!r} is neither an encoded function nor in the whitelist")
            dshape = self.place_shape(ctx, t.dest)
            args = [self.operand(ctx, a) for a in t.args]
            res = prim.fn(self, ctx, t, args, dshape)
            if ctx.end is not None:
                return [(ctx, None)]
            if res is None:
                res = Val(dshape, {}) if not leaves(dshape) else None
            if res is None:
                raise Unsupported(f"primitive {prim.name} returned nothing for a non-unit destination")
            if leaves(res.shape) != leaves(dshape):
                raise Unsupported(f"primitive {prim.name}: result shape {res.shape} vs destination {dshape}")
            self.write_place(ctx, t.dest, res)
            if t.target is None:
                raise Unsupported(f"call to {t.callee} has no return target but primitive returned")
            return [(ctx, t.target)]
        raise Unsupported(f"terminator {t.kind}")


def enum_struct_paths(shape, off=0, prefix=""):
    """All (abstract offset, sub shape, leaf prefix) reachable through struct field projections (incl. root)."""
    out = [(off, shape, prefix)]
    if shape[0] == "struct":
        for i, s in enumerate(shape[1]):
            if i > 2:
                break
            out.extend(enum_struct_paths(s, field_off(off, i), join_path(prefix, str(i))))
    return out


# --------------------------------------------------------------------------- whitelist of callee semantics

class Prim:
    def __init__(self, name, pattern, fn, visible, doc, checks_access=False, absorbable=False):
        self.name = name
        self.rx = re.compile(pattern)
        self.fn = fn
        self.visible = visible
        self.doc = doc
        self.checks_access = checks_access   # the operation ACCESS-checks (or FREE-checks) the heap object it touches
        self.absorbable = absorbable         # pure ACCESS event that may be absorbed by a following checking operation


def _atomic_width(callee):
    m = re.match(r"^Atomic::<(\w+)>::", callee)
    if not m or m.group(1) not in INTS:
        raise Unsupported(f"atomic type in {callee}")
    return INTS[m.group(1)][0]


def p_atomic_load(ex, ctx, t, args, dshape):
    w = _atomic_width(t.callee)
    rd, _ = ex.cell_rw(ctx, args[0].scalar(), w, "atomic load")
    ctx.events.append("load")
    return Val(dshape, {"": rd})


def p_atomic_store(ex, ctx, t, args, dshape):
    w = _atomic_width(t.callee)
    _, wr = ex.cell_rw(ctx, args[0].scalar(), w, "atomic store")
    wr(args[1].scalar())
    ctx.events.append("store")
    return unit_val()


def p_atomic_swap(ex, ctx, t, args, dshape):
    w = _atomic_width(t.callee)
    rd, wr = ex.cell_rw(ctx, args[0].scalar(), w, "atomic swap")
    wr(args[1].scalar())
    ctx.events.append("swap")
    return Val(dshape, {"": rd})


def p_atomic_cas(ex, ctx, t, args, dshape):
    """compare_exchange / compare_exchange_weak: one indivisible step; the weak form may also fail spuriously."""
    w = _atomic_width(t.callee)
    rd, wr = ex.cell_rw(ctx, args[0].scalar(), w, "atomic compare_exchange")
    ok = rd == args[1].scalar()
    if t.callee.endswith("_weak"):
        ok = z3.And(ok, ctx.nondet("weak_cas_ok", 1) == 1)
    wr(z3.If(ok, args[2].scalar(), rd))
    ctx.events.append("compare_exchange")
    if dshape[0] != "enum":
        raise Unsupported("compare_exchange destination")
    v = zero_val(dshape)
    v.lv["#"] = simp(z3.If(ok, bv(0, 8), bv(1, 8)))
    v.lv["Ok.0"] = rd
    v.lv["Err.0"] = rd
    return v


def p_atomic_fetch_add(ex, ctx, t, args, dshape):
    w = _atomic_width(t.callee)
    rd, wr = ex.cell_rw(ctx, args[0].scalar(), w, "atomic fetch_add")
    wr(rd + args[1].scalar())
    ctx.events.append("fetch_add")
    return Val(dshape, {"": rd})


def p_atomic_fetch_sub(ex, ctx, t, args, dshape):
    w = _atomic_width(t.callee)
    rd, wr = ex.cell_rw(ctx, args[0].scalar(), w, "atomic fetch_sub")
    ctx.raise_flag("rc_underflow", rd == 0)
    wr(rd - args[1].scalar())
    ctx.events.append("fetch_sub")
    return Val(dshape, {"": rd})


def p_nop_unit(ex, ctx, t, args, dshape):
    return Val(dshape, {p: bv(0, w) for p, w in leaves(dshape)})


def p_identity(ex, ctx, t, args, dshape):
    if len(args) != 1 or leaves(args[0].shape) != leaves(dshape):
        raise Unsupported(f"{t.callee}: not an identity on shapes {args[0].shape} -> {dshape}")
    return Val(dshape, dict(args[0].lv))


def _local_of_ptr(ex, ctx, p, want_shape):
    p = simp(p)
    if not is_num(p):
        raise Unsupported("pointer to a local is symbolic")
    for addr, local, prefix, sub in ex._local_candidates(ctx.tid, want_shape):
        if addr == p.as_long():
            return local, prefix, sub
    raise Unsupported(f"pointer {p.as_long():#x} does not name a local of shape {want_shape}")


def p_range_next(ex, ctx, t, args, dshape):
    m = re.match(r"^<core::ops::Range<(\w+)> as Iterator>::next$", t.callee)
    ity = ex.tenv.shape(m.group(1))
    rsh = ("struct", (ity, ity))
    local, prefix, sub = _local_of_ptr(ex, ctx, args[0].scalar(), rsh)
    r = ex.read_local(ctx, local, prefix, sub)
    s, e = r.lv["0"], r.lv["1"]
    lt = (s < e) if ity[2] else z3.ULT(s, e)
    nxt = Val(sub, {"0": simp(z3.If(lt, s + 1, s)), "1": e})
    ex.write_local(ctx, local, prefix, nxt, sub)
    v = zero_val(dshape)
    v.lv["#"] = simp(z3.If(lt, bv(1, 8), bv(0, 8)))
    v.lv["Some.0"] = s
    return v


def p_is_ok(ex, ctx, t, args, dshape):
    m = re.match(r"^core::result::Result::<(.*)>::is_ok$", t.callee)
    a = split_top(m.group(1))
    sh = ex.tenv.shape(f"core::result::Result<{a[0]}, {a[1]}>")
    v = ex.load(ctx, args[0].scalar(), sh)
    return Val(dshape, {"": simp(b2bv(v.lv["#"] == 0))})


def _variant_names(shape):
    return [n for n, _ in shape[1]] if shape[0] == "enum" else []


def p_try_branch(ex, ctx, t, args, dshape):
    a = args[0]
    names = _variant_names(a.shape)
    if _variant_names(dshape) != ["Continue", "Break"]:
        raise Unsupported("Try::branch destination is not ControlFlow")
    cshape = dict(dshape[1])["Continue"][0]
    bshape = dict(dshape[1])["Break"][0]
    if names == ["Ok", "Err"]:
        okv = a.sub("Ok.0", dict(a.shape[1])["Ok"][0])
        errv = a.sub("Err.0", dict(a.shape[1])["Err"][0])
        cont = enum_val(dshape, "Continue", [Val(cshape, dict(okv.lv))])
        if _variant_names(bshape) != ["Ok", "Err"]:
            raise Unsupported("Try::branch residual")
        brk = enum_val(dshape, "Break", [enum_val(bshape, "Err", [errv])])
        return ite_val(a.lv["#"] == 0, cont, brk)
    if names == ["None", "Some"]:
        sv = a.sub("Some.0", dict(a.shape[1])["Some"][0])
        cont = enum_val(dshape, "Continue", [Val(cshape, dict(sv.lv))])
        if _variant_names(bshape) != ["None", "Some"]:
            raise Unsupported("Try::branch residual")
        brk = enum_val(dshape, "Break", [enum_val(bshape, "None", [])])
        return ite_val(a.lv["#"] == 1, cont, brk)
    raise Unsupported(f"Try::branch on {a.shape}")


def p_from_residual(ex, ctx, t, args, dshape):
    a = args[0]
    names = _variant_names(a.shape)
    if names == ["Ok", "Err"] and _variant_names(dshape) == ["Ok", "Err"]:
        e = a.sub("Err.0", dict(a.shape[1])["Err"][0])
        if leaves(e.shape) != leaves(dict(dshape[1])["Err"][0]):
            raise Unsupported("from_residual with a converting From impl")
        return enum_val(dshape, "Err", [Val(dict(dshape[1])["Err"][0], dict(e.lv))])
    if names == ["None", "Some"] and _variant_names(dshape) == ["None", "Some"]:
        return enum_val(dshape, "None", [])
    raise Unsupported(f"from_residual {a.shape} -> {dshape}")


def p_bug_new(ex, ctx, t, args, dshape):
    ctx.raise_flag("bug")
    ctx.events.append(f"BUG {t.args[0].const if t.args and t.args[0].kind == 'const' else ''}")
    return Val(dshape, {})


def p_panic(ex, ctx, t, args, dshape):
    ctx.raise_flag("panic")
    ctx.events.append("PANIC")
    ctx.end = ("dead", "panic")
    ctx.set(f"st:{ctx.tid}", bv(DEAD, STATUS_W))
    return None


def _futex_index(ex, addr):
    addr = simp(addr)
    if not is_num(addr):
        raise Unsupported("futex address is not a constant of the model")
    a = addr.as_long()
    tab = ex.model.futex_addrs
    if a not in tab:
        tab.append(a)
    return tab.index(a) + 1


def p_futex_wait(ex, ctx, t, args, dshape):
    """futex_wait(addr, v): atomically { if *addr != v return; else sleep on addr }."""
    addr = args[0].scalar()
    rd, _ = ex.cell_rw(ctx, addr, 32, "futex_wait")
    ix = bv(_futex_index(ex, addr), 2)
    sleep = rd == args[1].scalar()
    k = f"st:{ctx.tid}"
    ctx.set(k, simp(z3.If(sleep, bv(ASLEEP, STATUS_W), ctx.get(k))))
    ctx.set(f"sa:{ctx.tid}", simp(z3.If(sleep, ix, ctx.get(f"sa:{ctx.tid}"))))
    ctx.set(f"slept:{ctx.tid}", simp(ctx.get(f"slept:{ctx.tid}") | b2bv(sleep)))
    ctx.events.append("futex_wait")
    return unit_val()


def p_futex_wake(ex, ctx, t, args, dshape):
    """futex_wake(addr, n): n == 1 wakes exactly one sleeper on addr if there is one (which one: free)."""
    addr = args[0].scalar()
    n = simp(args[1].scalar())
    if not is_num(n) or n.as_long() != 1:
        raise Unsupported("futex_wake with a count other than the constant 1")
    ex.check_access(ctx, addr, "futex_wake")
    ix = bv(_futex_index(ex, addr), 2)
    T = ex.model.nthreads
    w = ctx.nondet("wake", 2)
    sleepers = []
    for u in range(T):
        s = z3.And(ctx.get(f"st:{u}") == ASLEEP, ctx.get(f"sa:{u}") == ix)
        sleepers.append(s)
    anys = z3.Or(*sleepers)
    # the chosen thread must be a sleeper whenever one exists
    ctx.constraints.append(z3.Implies(anys, z3.Or(*[z3.And(w == u, sleepers[u]) for u in range(T)])))
    for u in range(T):
        k = f"st:{u}"
        ctx.set(k, simp(z3.If(z3.And(anys, w == u), bv(RUN, STATUS_W), ctx.get(k))))
    ctx.set("woke", simp(ctx.get("woke") | b2bv(anys)))
    ctx.events.append("futex_wake")
    if _variant_names(dshape) != ["Ok", "Err"]:
        raise Unsupported("futex_wake destination")
    return enum_val(dshape, "Ok", [unit_val()])


def p_nonnull_as_ref(ex, ctx, t, args, dshape):
    """NonNull::as_ref(&NonNull<T>) -> &T : loads the pointer and creates a reference = ACCESS of the pointee."""
    pv = ex.load(ctx, args[0].scalar(), PTR)
    ex.check_access(ctx, pv.scalar(), "NonNull::as_ref")
    return ptr_val(pv.scalar())


def p_access(ex, ctx, t, args, dshape):
    ex.check_access(ctx, args[0].scalar(), t.callee)
    return Val(dshape, {p: bv(0, w) for p, w in leaves(dshape)})


def p_free(ex, ctx, t, args, dshape):
    """FREE event of the heap object the pointer refers to (offset must be 0 = start of the allocation)."""
    p = simp(args[0].scalar())
    found = z3.BoolVal(False)
    for o in ex.model.objects:
        if not o.heap:
            continue
        hit = simp(p == bv(ptr_const(o.id, 0), PTR_W))
        if z3.is_false(hit):
            continue
        fk = "freed:" + o.name
        ctx.raise_flag("double_free", z3.And(hit, ctx.get(fk) == 1))
        ctx.set(fk, simp(z3.If(hit, bv(1, 1), ctx.get(fk))))
        ctx.set("frees:" + o.name, simp(ctx.get("frees:" + o.name) + z3.If(hit, bv(1, 3), bv(0, 3))))
        found = z3.Or(found, hit)
        ctx.events.append(f"FREE({o.name})")
    ctx.raise_flag("wild", z3.Not(found))
    for hook in ex.model.free_hooks:
        hook(ex, ctx, p)
    return Val(dshape, {})


BASE_PRIMS = [
    Prim("atomic_load", r"^Atomic::<\w+>::load$", p_atomic_load, True, "Atomic::load = one indivisible read of the cell (SC)", checks_access=True),
    Prim("atomic_store", r"^Atomic::<\w+>::store$", p_atomic_store, True, "Atomic::store = one indivisible write (SC)", checks_access=True),
    Prim("atomic_swap", r"^Atomic::<\w+>::swap$", p_atomic_swap, True, "Atomic::swap = one indivisible read-modify-write (SC)", checks_access=True),
    Prim("atomic_cas", r"^Atomic::<\w+>::compare_exchange(_weak)?$", p_atomic_cas, True,
         "Atomic::compare_exchange(_weak) = one indivisible compare-and-set returning Ok(old)/Err(old); weak may fail spuriously", checks_access=True),
    Prim("atomic_fetch_add", r"^Atomic::<\w+>::fetch_add$", p_atomic_fetch_add, True, "Atomic::fetch_add = indivisible wrapping add returning the old value", checks_access=True),
    Prim("atomic_fetch_sub", r"^Atomic::<\w+>::fetch_sub$", p_atomic_fetch_sub, True, "Atomic::fetch_sub = indivisible wrapping sub returning the old value", checks_access=True),
    Prim("fence", r"^(core::sync::atomic::)?fence$", p_nop_unit, False, "atomic::fence = no-op under sequential consistency"),
    Prim("range_into_iter", r"^<core::ops::Range<\w+> as IntoIterator>::into_iter$", p_identity, False, "Range::into_iter = identity"),
    Prim("range_next", r"^<core::ops::Range<\w+> as Iterator>::next$", p_range_next, False, "Range::next = if start<end {Some(start++)} else {None}"),
    Prim("is_ok", r"^core::result::Result::<.*>::is_ok$", p_is_ok, False, "Result::is_ok = discriminant == Ok"),
    Prim("try_branch", r"^<.* as core::ops::Try>::branch$", p_try_branch, False, "Try::branch for Result/Option"),
    Prim("from_residual", r"^<.* as core::ops::FromResidual<.*>>::from_residual$", p_from_residual, False,
         "FromResidual::from_residual for Result (identity From) / Option"),
    Prim("into_identity", r"^<(.+) as Into<\1>>::into$", p_identity, False, "<T as Into<T>>::into = identity"),
    Prim("bug_new", r"^buggy::Bug::new$", p_bug_new, False, "buggy::Bug::new = error marker (flag `bug`)"),
    Prim("panic", r"^(core::panicking::)?panic$", p_panic, False, "panic = error marker, thread stops"),
    Prim("sched_yield", r"^sched_yield$", p_nop_unit, False, "libc::sched_yield = scheduling hint, no effect on state (returns 0)"),
    Prim("spin_loop", r"^(core::hint::)?spin_loop$", p_nop_unit, False, "hint::spin_loop = no effect"),
    Prim("futex_wait", r"^futex_wait$", p_futex_wait, True, "futex_wait(addr,v): atomically if *addr != v return else sleep until woken"),
    Prim("futex_wake", r"^futex_wake$", p_futex_wake, True, "futex_wake(addr,1): wakes exactly one sleeper on addr if any (free choice), returns Ok(())"),
    Prim("nonnull_as_ref", r"^NonNull::<.*>::as_ref::<'_>$", p_nonnull_as_ref, True, "NonNull::as_ref = ACCESS event of the pointee", checks_access=True, absorbable=True),
    Prim("nonnull_as_ptr", r"^NonNull::<.*>::as_ptr$", p_identity, False, "NonNull::as_ptr = identity on the address"),
    Prim("box_from_raw", r"^Box::<.*>::from_raw$", p_identity, False, "Box::from_raw = identity on the address"),
    Prim("drop_box", r"^core::mem::drop::<Box<.*>>$", p_free, True, "mem::drop::<Box<T>> (T without drop glue that touches shared state) = FREE event", checks_access=True),
    Prim("unsafecell_get", r"^UnsafeCell::<.*>::get$", p_identity, False, "UnsafeCell::get = identity on the address"),
    Prim("ptr_cast", r"^core::ptr::mut_ptr::<impl \*mut \w+>::cast::<\w+>$", p_identity, False, "pointer cast = identity on the address"),
    Prim("layout_for_value", r"^Layout::for_value::<\w+>$", p_access, True, "Layout::for_value(&T) = ACCESS event (needs a valid reference)", checks_access=True),
    Prim("drop_in_place", r"^drop_in_place::<ArcStrInner>$", p_access, True, "drop_in_place::<ArcStrInner> (no drop glue: AtomicUsize + str) = ACCESS event", checks_access=True),
    Prim("dealloc", r"^alloc::alloc::dealloc$", p_free, True, "alloc::dealloc(ptr, layout) = FREE event", checks_access=True),
]
