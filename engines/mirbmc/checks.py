"""Check drivers of engine E2: configurations, queries, witnesses, self-tests, replay files, native validation."""
import os
import subprocess
import sys
import time

import z3

from mir import Unsupported
import bmc
import models
import sem


class Broken(Exception):
    pass


class Env:
    def __init__(self, **kw):
        self.__dict__.update(kw)

    def want(self, name):
        return not self.only or name in self.only


def _z3_seed(seed):
    z3.set_param("smt.random_seed", seed)
    z3.set_param("sat.random_seed", seed)


def new_row(name, what, bounds):
    return {"harness": name, "status": "pass", "what": what, "bounds": bounds, "checks_total": 0, "covers_sat": 0,
            "covers_total": 0, "solver_s": 0.0, "queries": []}


def finish_row(env, row, stats, t0):
    row["checks_total"] = stats.queries + stats.selfchecks
    row["solver_s"] = round(stats.solver_s, 2)
    row["time_s"] = round(time.time() - t0, 1)
    row["covers"] = f"{row['covers_sat']}/{row['covers_total']}"
    env.out["rows"].append(row)


def fail(env, row, reason):
    row["status"] = "broken"
    row["reason"] = reason
    env.out["broken"].append(f"{row['harness']}: {reason}")


def write_replay(env, row, prop, header, lines, kind="replay"):
    if kind == "replay":
        # VERIF_REPLAY_DIR: used when the engine is pointed at a deliberately mutated copy (teeth tests), so that
        # those counterexamples do not land among the replays of the real repository
        d = os.path.join(os.environ.get("VERIF_REPLAY_DIR") or os.path.join(env.verif, "replays"), env.pid)
    else:
        d = env.logdir
    os.makedirs(d, exist_ok=True)
    path = os.path.join(d, f"{row['harness']}-{prop}.{'txt' if kind == 'replay' else kind + '.txt'}")
    with open(path, "w") as f:
        f.write("\n".join(header) + "\n\n" + "\n".join(lines) + "\n")
    return path


def describe_model(sysm, u):
    m = sysm.model
    out = [f"model {m.name}: {m.nthreads} threads, K={u.K} steps, spurious wake-ups <= {u.spurious}, "
           f"partial-order reduction={'on' if u.por else 'off'}, thread symmetry={'on' if u.symmetric else 'off'}",
           "one step = one shared-memory operation (atomic / futex / ACCESS / FREE / client event) of one thread plus",
           "its thread-local continuation; sequential consistency.",
           "encoded functions: " + "; ".join(m.encoded)]
    return out


def run_queries(env, row, stats, sysm, u, bads, wits, threshold=True, expect_bad=None, combine=False):
    """bads: {name: (expr, description)} expected unsat; wits: {name: expr} expected sat.
    expect_bad (self-test): {name} that must be sat (mutated model); then nothing is reported as a violation.
    Returns True when the row is still good."""
    def note(q, r, dt):
        row["queries"].append({"q": q, "result": str(r), "s": round(dt, 2)})
        print(f"[mirbmc]   {row['harness']}: {q}: {r} ({dt:.1f}s)", file=sys.stderr, flush=True)

    items = dict(bads)
    if threshold:
        items["bound_is_complete"] = (u.still_running(), f"some schedule takes more than {u.K - 1} steps")
    if expect_bad:
        for name in expect_bad:
            e, desc = items[name]
            r, m, dt = u.check([e])
            row["covers_total"] += 1
            note("selftest:" + name, r, dt)
            if r != z3.sat:
                fail(env, row, f"self-test: the mutated model does not exhibit `{name}` ({r}); the engine has no teeth")
                return False
            lines, ok, _ = u.reexecute(m)
            p = write_replay(env, row, name, describe_model(sysm, u) + [f"SELF-TEST (mutated encoder input): {desc}"], lines,
                             kind="selftest")
            if not ok:
                fail(env, row, f"self-test: schedule for `{name}` does not re-execute ({p})")
                return False
            row["covers_sat"] += 1
            row.setdefault("selftest_traces", []).append(p)
        return True
    good = True
    todo = dict(items)
    if combine and len(items) > 1:
        r, m, dt = u.check([z3.Or(*[e for e, _ in items.values()])])
        note("any-of:" + ",".join(items), r, dt)
        if r == z3.unsat:
            todo = {}
        elif r != z3.sat:
            fail(env, row, f"solver answered {r} on the combined query")
            return False
    for name, (e, desc) in todo.items():
        r, m, dt = u.check([e])
        note(name, r, dt)
        if r == z3.unsat:
            continue
        if r != z3.sat:
            fail(env, row, f"solver answered {r} on `{name}`")
            return False
        lines, ok, _ = u.reexecute(m)
        if name == "bound_is_complete":
            p = write_replay(env, row, name, describe_model(sysm, u) + [desc], lines, kind="long-schedule")
            fail(env, row, f"K={u.K} is not a completeness threshold any more: {desc} (schedule: {p}); "
                           "the code or the bound changed, the claim would silently shrink")
            good = False
            continue
        p = write_replay(env, row, name, describe_model(sysm, u) + [f"VIOLATION: {desc}"], lines)
        if not ok:
            fail(env, row, f"counterexample for `{name}` did not re-execute on the concrete CFG interpreter ({p})")
            good = False
            continue
        row["status"] = "violation"
        row.setdefault("failed", []).append(name)
        env.out["violations"].append({"harness": row["harness"], "check": name, "desc": desc,
                                      "loc": ", ".join(sysm.model.encoded), "replay": p})
        good = False
    for name, e in wits.items():
        r, m, dt = u.check([e])
        row["covers_total"] += 1
        note("witness:" + name, r, dt)
        if r == z3.sat:
            row["covers_sat"] += 1
        elif row["status"] == "violation":
            row.setdefault("unreached_witnesses", []).append(name)
        else:
            fail(env, row, f"vacuity witness `{name}` is {r} (expected sat) at K={u.K}")
            good = False
    return good


# =========================================================================== C43

def c43_props(u, T):
    bads = {
        "two_holders": (u.flag("two_holders"), "two threads are inside the critical section at once"),
        "unlock_bug_branch": (z3.Or(u.flag("bug"), u.flag("unlock_err")),
                              "sys_unlock reached a buggy::Bug branch (unlock of unlocked mutex / invalid state) or returned Err"),
        "lost_wakeup": (u.deadlock(), "every thread is finished or asleep in futex_wait and at least one is asleep (lost wake-up)"),
        "model_abort": (z3.Or(u.flag("wild"), u.flag("unreachable"), u.flag("panic"), u.flag("uaf")),
                        "an `unreachable` terminator / panic / wild pointer was reached"),
    }
    wits = {
        "all_finish": u.all_finished(),
        "sleep_then_finish": z3.And(u.all_finished(), z3.Or(*[u.final(f"slept:{t}") == 1 for t in range(T)])),
        "wake_delivered": z3.And(u.all_finished(), u.final("woke") == 1),
    }
    if u.spurious:
        wits["spurious_wake_then_finish"] = z3.And(u.all_finished(), u.final("spur") != 0)
    return bads, wits


C43_CONFIGS = [
    # name, tier, threads, rounds, K, spurious, combine
    ("c43_t2_r1", "quick", 2, 1, 22, 0, False),
    ("c43_t2_r1_spurious2", "quick", 2, 1, 40, 2, False),
    ("c43_t2_r2", "thorough", 2, 2, 50, 0, True),
    ("c43_t3_r1", "quick", 3, 1, 50, 0, True),  # 3 lockers: lost wake-ups that need a barging third thread
    ("c43_t3_r1_spurious1", "thorough", 3, 1, 60, 1, True),
]


def check_c43(mf, env):
    _z3_seed(env.seed)
    for name, tier, T, R, K, S, combine in C43_CONFIGS:
        if not env.want(name) or (env.tier == "quick" and tier != "quick"):
            continue
        t0 = time.time()
        stats = bmc.Stats()
        row = new_row(name, f"{T} threads x {R} round(s) of `sys_lock; critical section; sys_unlock` on one mutex"
                      + (f", up to {S} spurious futex wake-ups" if S else ", no spurious wake-ups"),
                      f"threads={T}, rounds={R}, K={K} shared-memory steps (checked to be a completeness threshold: "
                      f"no schedule is longer), SC only")
        try:
            md = models.build_c43(mf, T, R)
            sysm = bmc.System(md, stats)
            u = bmc.Unrolling(sysm, K, S, por=True, symmetric=True)
            bads, wits = c43_props(u, T)
            run_queries(env, row, stats, sysm, u, bads, wits, threshold=True, combine=combine)
            row["state_bits"] = sum(sysm.ks.all.values())
            row["constants_from_mir"] = dict(md.consts_used)
            row["whitelist_used"] = sorted(md.used_prims)
        except Unsupported as e:
            fail(env, row, f"code left the encodable subset: {e}")
        finish_row(env, row, stats, t0)
    if env.want("c43_selftest_mutants"):
        c43_selftest(mf, env)
    if env.want("c43_native_trace"):
        c43_native(mf, env)


def c43_selftest(mf, env):
    """Vacuity witness of the engine: deliberately broken encoder inputs must produce the violations."""
    t0 = time.time()
    stats = bmc.Stats()
    row = new_row("c43_selftest_mutants",
                  "engine self-test: (a) sys_lock's swap(SLEEPING) split into load+store => two holders must be found "
                  "(2 threads x 2 rounds); (b) futex_wait's check and sleep made two steps => a lost wake-up must be found",
                  "2 threads, K=50 / K=24")
    try:
        for mut, T, R, K, expect in (("swap_nonatomic", 2, 2, 50, "two_holders"),
                                     ("futex_wait_nonatomic", 2, 1, 24, "lost_wakeup")):
            md = models.build_c43(mf, T, R, mutation=mut)
            sysm = bmc.System(md, stats)
            u = bmc.Unrolling(sysm, K, 0, por=True, symmetric=True)
            bads, _ = c43_props(u, T)
            if not run_queries(env, row, stats, sysm, u, bads, {}, threshold=False, expect_bad=[expect]):
                break
    except Unsupported as e:
        fail(env, row, f"code left the encodable subset: {e}")
    finish_row(env, row, stats, t0)


# ---- native validation of the encoder: sequential / scripted traces against the compiled code

C43_NATIVE_MOD = r'''
#[doc(hidden)]
#[allow(missing_docs, dead_code, unreachable_pub, clippy::all, clippy::pedantic, clippy::restriction)]
pub mod __verif_native {
    use super::*;
    pub struct M(Mutex<()>);
    impl M {
        pub fn new() -> Self { Self(Mutex::new(())) }
        pub fn lock(&self) { self.0.sys_lock() }
        pub fn unlock(&self) -> bool { self.0.sys_unlock().is_ok() }
        pub fn key(&self) -> u32 { self.0.key.load(Ordering::SeqCst) }
        pub fn set_key(&self, v: u32) { self.0.key.store(v, Ordering::SeqCst) }
    }
}
'''

C43_NATIVE_BIN = r'''
use std::sync::Arc;
use std::thread;
use std::time::Duration;
use aranya_fast_channels::__verif_mutex::M;

fn main() {
    // S1: sequential lock/unlock
    let m = M::new();
    println!("s1.new {}", m.key());
    m.lock();
    println!("s1.locked {}", m.key());
    let ok = m.unlock();
    println!("s1.unlock_ok {}", ok as u32);
    println!("s1.unlocked {}", m.key());
    // S2: unlock while the word says "locked with sleepers" but nobody sleeps (missed wake-up is harmless)
    let m = M::new();
    m.lock();
    m.set_key(2);
    let ok = m.unlock();
    println!("s2.unlock_ok {}", ok as u32);
    println!("s2.unlocked {}", m.key());
    // S3: one real waiter
    let m = Arc::new(M::new());
    m.lock();
    let m2 = Arc::clone(&m);
    let h = thread::spawn(move || {
        m2.lock();
        let k = m2.key();
        let ok = m2.unlock();
        (k, ok)
    });
    while m.key() != 2 { thread::sleep(Duration::from_millis(1)); }
    thread::sleep(Duration::from_millis(100));
    println!("s3.waiter_asleep {}", m.key());
    let ok = m.unlock();
    println!("s3.unlock_ok {}", ok as u32);
    let (k, ok2) = h.join().unwrap();
    println!("s3.waiter_locked {}", k);
    println!("s3.waiter_unlock_ok {}", ok2 as u32);
    println!("s3.final {}", m.key());
}
'''


def _drive(sysm, cur, t, until, lines, limit=200):
    """Run thread t step by step (concrete interpreter) until `until(state)`."""
    T = sysm.model.nthreads
    n = 0
    while not until(cur):
        n += 1
        if n > limit:
            raise Broken("native validation: scripted model run does not reach its target")
        done = False
        for w in range(T):
            new, ls, ok = bmc.concrete_step(sysm, cur, t, {"wake": w}, n)
            if ok:
                cur = new
                lines.extend(ls)
                done = True
                break
        if not done:
            raise Broken("native validation: model step failed: " + "; ".join(ls))
    return cur


def c43_model_trace(mf):
    """The model's values at the observation points of C43_NATIVE_BIN."""
    obs = []
    lines = []
    stats = bmc.Stats()
    # S1
    sysm = bmc.System(models.build_c43(mf, 1, 1), stats, selfcheck=False)
    cur = {k: sysm.ks.init[k] for k in sysm.ks.all}
    obs.append(("s1.new", cur["mem:key"]))
    cur = _drive(sysm, cur, 0, lambda s: s["incs:0"] == 1, lines)
    obs.append(("s1.locked", cur["mem:key"]))
    cur = _drive(sysm, cur, 0, lambda s: s["st:0"] == sem.FIN, lines)
    obs.append(("s1.unlock_ok", 0 if (cur["flag:unlock_err"] or cur["flag:bug"]) else 1))
    obs.append(("s1.unlocked", cur["mem:key"]))
    # S2
    cur = {k: sysm.ks.init[k] for k in sysm.ks.all}
    cur = _drive(sysm, cur, 0, lambda s: s["incs:0"] == 1, lines)
    cur = dict(cur)
    cur["mem:key"] = 2
    cur = _drive(sysm, cur, 0, lambda s: s["st:0"] == sem.FIN, lines)
    obs.append(("s2.unlock_ok", 0 if (cur["flag:unlock_err"] or cur["flag:bug"]) else 1))
    obs.append(("s2.unlocked", cur["mem:key"]))
    # S3
    sysm = bmc.System(models.build_c43(mf, 2, 1), stats, selfcheck=False)
    cur = {k: sysm.ks.init[k] for k in sysm.ks.all}
    cur = _drive(sysm, cur, 0, lambda s: s["incs:0"] == 1, lines)
    cur = _drive(sysm, cur, 1, lambda s: s["st:1"] == sem.ASLEEP, lines)
    obs.append(("s3.waiter_asleep", cur["mem:key"]))
    cur = _drive(sysm, cur, 0, lambda s: s["st:0"] == sem.FIN, lines)
    obs.append(("s3.unlock_ok", 0 if (cur["flag:unlock_err"] or cur["flag:bug"]) else 1))
    if cur["st:1"] != sem.RUN:
        raise Broken("native validation: model did not wake the waiter")
    cur = _drive(sysm, cur, 1, lambda s: s["incs:1"] == 1, lines)
    obs.append(("s3.waiter_locked", cur["mem:key"]))
    cur = _drive(sysm, cur, 1, lambda s: s["st:1"] == sem.FIN, lines)
    obs.append(("s3.waiter_unlock_ok", 0 if (cur["flag:unlock_err"] or cur["flag:bug"]) else 1))
    obs.append(("s3.final", cur["mem:key"]))
    return obs, lines


def c43_native(mf, env):
    t0 = time.time()
    stats = bmc.Stats()
    row = new_row("c43_native_trace",
                  "encoder validation: three scripted schedules (sequential lock/unlock; unlock with the SLEEPING word "
                  "and no sleeper; one real futex waiter) run on the compiled code in the scratch copy and on the "
                  "model's concrete CFG interpreter; the observed mutex words and results must agree",
                  "3 scripts, 12 observation points; not a solver query (validates atomics + futex semantics of the whitelist)")
    try:
        if env.scratch is None:
            raise Broken("no scratch copy (development run)")
        obs, lines = c43_model_trace(mf)
        sc = env.scratch
        crate = os.path.join(sc.src, "crates", "aranya-fast-channels")
        with open(os.path.join(crate, "src", "mutex.rs"), "a") as f:
            f.write(C43_NATIVE_MOD)
        with open(os.path.join(crate, "src", "lib.rs"), "a") as f:
            f.write("\n#[doc(hidden)]\npub use mutex::__verif_native as __verif_mutex;\n")
        os.makedirs(os.path.join(crate, "src", "bin"), exist_ok=True)
        with open(os.path.join(crate, "src", "bin", "verif_native.rs"), "w") as f:
            f.write(C43_NATIVE_BIN)
        cmd = ["cargo", "+nightly", "build", "--offline", "--bin", "verif_native", "--features", "posix,memory,libc"]
        p = subprocess.run(cmd, cwd=crate, env=sc.env(), capture_output=True, text=True, timeout=600)
        if p.returncode != 0:
            raise Broken("native validation build failed: " + "\n".join(p.stderr.strip().split("\n")[-12:]))
        exe = os.path.join(sc.target, "debug", "verif_native")
        q = subprocess.run([exe], capture_output=True, text=True, timeout=60)
        if q.returncode != 0:
            raise Broken(f"native validation binary failed rc={q.returncode}: {q.stderr[-400:]}")
        native = [tuple(l.split()) for l in q.stdout.strip().split("\n")]
        native = [(a, int(b)) for a, b in native]
        row["native"] = native
        row["model"] = obs
        row["covers_total"] = len(obs)
        row["covers_sat"] = sum(1 for x, y in zip(native, obs) if x == y)
        if native != obs:
            diff = [(x, y) for x, y in zip(native, obs) if x != y]
            fail(env, row, f"model and native execution disagree: (native, model) = {diff[:4]}")
        env.out["notes"].append(f"native validation build+run {time.time() - t0:.0f}s")
    except (Broken, Unsupported, subprocess.TimeoutExpired) as e:
        fail(env, row, f"{e}")
    finish_row(env, row, stats, t0)


CHECKS = {
    "C43": {"crate": "aranya-fast-channels", "features": ["posix", "memory", "libc"], "mir_file": "afc.mir", "fn": check_c43},
}


# =========================================================================== C44

def c44_props(u, T):
    fin = u.all_finished()
    bads = {
        "two_live_loans": (u.flag("two_live_loans"), "lend() returned a second Loan while another Loan was still live"),
        "first_lend_failed": (u.flag("first_lend_failed"), "lend() on a fresh Lender returned None"),
        "access_after_revocation": (u.flag("access_after_revocation"),
                                    "Loan::get_ref/get_mut that started after the Lender's drop had returned yielded Some"),
        "two_exclusive_users": (u.flag("two_exclusive_users"), "two threads use `&mut X` from loans at the same time"),
        "use_after_free": (u.flag("uaf"), "ACCESS (reference creation, atomic operation or use of the data) after FREE"),
        "double_free": (u.flag("double_free"), "the shared allocation is freed twice"),
        "free_with_live_handle": (u.flag("free_with_live_handle"), "FREE while a handle whose drop has not started still exists"),
        "not_freed_exactly_once": (z3.And(fin, u.final("frees:data") != 1),
                                   "all handles are gone but the allocation was not freed exactly once (leak)"),
        "model_abort": (z3.Or(u.flag("wild"), u.flag("unreachable"), u.flag("panic"), u.flag("client_error")),
                        "an `unreachable` terminator / panic / wild pointer / client protocol error was reached"),
        "stuck": (u.deadlock(), "a thread is blocked forever"),
    }
    wits = {
        "all_finish_freed_once": z3.And(fin, u.final("frees:data") == 1),
        "lender_frees": z3.And(fin, u.final("freed_by") == 1),
        "loan_frees": z3.And(fin, u.final("freed_by") == 2),
        "revoked_access_is_none": z3.And(fin, u.final("got_none") == 1),
        "access_granted": z3.And(fin, u.final("got_some") == 1, u.final("uses") == 1),
        "second_lend_refused": z3.And(fin, u.final("lend_none:1") == 1),
        "second_lend_after_drop": z3.And(fin, u.final("lend_some:1") == 1),
    }
    return bads, wits


C44_CONFIGS = [
    ("c44_t2_get_mut", "quick", 2, "get_mut", 34),
    ("c44_t2_get_ref", "quick", 2, "get_ref", 34),
    ("c44_t3_get_mut", "thorough", 3, "get_mut", 42),
]


def check_c44(mf, env):
    _z3_seed(env.seed)
    for name, tier, T, getter, K in C44_CONFIGS:
        if not env.want(name) or (env.tier == "quick" and tier != "quick"):
            continue
        t0 = time.time()
        stats = bmc.Stats()
        row = new_row(name, "owner thread: lend -> hand loan to borrower thread; lend again (" +
                      ("hand to a third thread" if T == 3 else "drop it if granted") + "); read shared; drop Lender. "
                      f"borrower thread(s): receive loan; {getter}; use &S and the exclusive data; drop Loan",
                      f"threads={T}, K={K} shared-memory steps (checked to be a completeness threshold), SC only")
        try:
            md = models.build_c44(mf, T, getter)
            sysm = bmc.System(md, stats)
            u = bmc.Unrolling(sysm, K, 0, por=True, symmetric=False)
            bads, wits = c44_props(u, T)
            run_queries(env, row, stats, sysm, u, bads, wits, threshold=True, combine=(T == 3))
            row["state_bits"] = sum(sysm.ks.all.values())
            row["constants_from_mir"] = dict(md.consts_used)
            row["whitelist_used"] = sorted(md.used_prims)
        except Unsupported as e:
            fail(env, row, f"code left the encodable subset: {e}")
        finish_row(env, row, stats, t0)
    if env.want("c44_selftest_mutants"):
        t0 = time.time()
        stats = bmc.Stats()
        row = new_row("c44_selftest_mutants",
                      "engine self-test: (a) BiArc::drop's swap split into load+store => both droppers may read SHARED and "
                      "nobody frees (leak) must be found; (b) try_clone's swap replaced by a load (never marks SHARED) => "
                      "two live loans must be found", "2 threads K=40; 3 threads K=42")
        try:
            for mut, T, K, expect in (("drop_swap_nonatomic", 2, 40, ["not_freed_exactly_once"]),
                                      ("try_clone_no_mark", 3, 42, ["two_live_loans"])):
                md = models.build_c44(mf, T, "get_mut", mutation=mut)
                sysm = bmc.System(md, stats)
                u = bmc.Unrolling(sysm, K, 0, por=True, symmetric=False)
                bads, _ = c44_props(u, T)
                if not run_queries(env, row, stats, sysm, u, bads, {}, threshold=False, expect_bad=expect):
                    break
        except Unsupported as e:
            fail(env, row, f"code left the encodable subset: {e}")
        finish_row(env, row, stats, t0)


# =========================================================================== C33

def c33_props(u, T):
    fin = u.all_finished()
    bads = {
        "use_after_free": (u.flag("uaf"), "ACCESS (reference creation, refcount operation, read of the text, layout/drop_in_place) after FREE"),
        "double_free": (u.flag("double_free"), "the shared text allocation is freed twice"),
        "refcount_underflow": (u.flag("rc_underflow"), "fetch_sub on a zero reference count"),
        "not_freed_exactly_once": (z3.And(fin, u.final("frees:text") != 1), "all handles dropped but the allocation was not freed exactly once (leak)"),
        "model_abort": (z3.Or(u.flag("wild"), u.flag("unreachable"), u.flag("panic"), u.flag("client_error")),
                        "an `unreachable` terminator / panic (refcount overflow assert) / wild pointer was reached"),
        "stuck": (u.deadlock(), "a thread is blocked forever"),
    }
    wits = {
        "all_finish_freed_once": z3.And(fin, u.final("frees:text") == 1, u.final("uses") == 1),
        "first_thread_frees": z3.And(fin, u.final("freed_by") == 1),
        "last_thread_frees": z3.And(fin, u.final("freed_by") == T),
    }
    return bads, wits


C33_CONFIGS = [
    ("c33_t2_c1", "quick", 2, 1, 34),
    ("c33_t2_c2", "thorough", 2, 2, 46),
    ("c33_t3_c0", "quick", 3, 0, 28),
    ("c33_t3_c1", "thorough", 3, 1, 48),
]


def check_c33(mf, env):
    _z3_seed(env.seed)
    for name, tier, T, C, K in C33_CONFIGS:
        if not env.want(name) or (env.tier == "quick" and tier != "quick"):
            continue
        t0 = time.time()
        stats = bmc.Stats()
        row = new_row(name, f"{T} threads, each owning one ArcStr handle to the same heap text: "
                      f"{C} x [clone; read through the clone; drop the clone]; read; drop",
                      f"threads={T}, clones per thread={C}, K={K} shared-memory steps (checked to be a completeness threshold), SC only")
        try:
            md = models.build_c33(mf, T, C)
            sysm = bmc.System(md, stats)
            u = bmc.Unrolling(sysm, K, 0, por=True, symmetric=True)
            bads, wits = c33_props(u, T)
            run_queries(env, row, stats, sysm, u, bads, wits, threshold=True, combine=True)
            row["state_bits"] = sum(sysm.ks.all.values())
            row["constants_from_mir"] = dict(md.consts_used)
            row["whitelist_used"] = sorted(md.used_prims)
        except Unsupported as e:
            fail(env, row, f"code left the encodable subset: {e}")
        finish_row(env, row, stats, t0)
    if env.want("c33_selftest_mutants"):
        t0 = time.time()
        stats = bmc.Stats()
        row = new_row("c33_selftest_mutants",
                      "engine self-test: (a) clone's fetch_add replaced by a load => use-after-free must be found; "
                      "(b) drop's fetch_sub replaced by a load => leak or double free must be found", "2 threads, 1 clone, K=34")
        try:
            for mut, expect in (("clone_no_increment", "use_after_free"), ("drop_no_decrement", "not_freed_exactly_once")):
                md = models.build_c33(mf, 2, 1, mutation=mut)
                sysm = bmc.System(md, stats)
                u = bmc.Unrolling(sysm, 34, 0, por=True, symmetric=True)
                bads, _ = c33_props(u, 2)
                if not run_queries(env, row, stats, sysm, u, bads, {}, threshold=False, expect_bad=[expect]):
                    break
        except Unsupported as e:
            fail(env, row, f"code left the encodable subset: {e}")
        finish_row(env, row, stats, t0)


CHECKS["C44"] = {"crate": "aranya-fast-channels", "features": ["posix", "memory", "libc"], "mir_file": "afc.mir", "fn": check_c44}
CHECKS["C33"] = {"crate": "aranya-policy-text", "features": [], "mir_file": "text.mir", "fn": check_c33}
