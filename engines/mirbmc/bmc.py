"""Bounded interleaving model (engine E2): K-step unrolling, queries, schedule extraction and re-execution."""
import time
from collections import defaultdict

import z3

from mir import Unsupported
import sem
from sem import bv, simp, RUN, ASLEEP, FIN, DEAD, STATUS_W
import prog as P

BASE_FLAGS = ["uaf", "double_free", "wild", "bug", "panic", "unreachable", "rc_underflow"]


class Stats:
    def __init__(self):
        self.queries = 0
        self.solver_s = 0.0
        self.selfchecks = 0


class System:
    """Model + flattened thread programs + macro-step summaries (independent of K)."""

    def __init__(self, model, stats, selfcheck=True):
        self.model = model
        self.stats = stats
        T = model.nthreads
        ks = self.ks = P.KeySpace()
        for c in model.cells:
            ks.add_global(c.key, c.width, c.init)
        for o in model.objects:
            if o.heap:
                ks.add_global("freed:" + o.name, 1, 0)
                ks.add_global("frees:" + o.name, 3, 0)
        for f in BASE_FLAGS + list(model.flags):
            ks.add_global("flag:" + f, 1, 0)
        for t in range(T):
            ks.add_global(f"st:{t}", STATUS_W, RUN)
            ks.add_global(f"sa:{t}", 2, 0)
            ks.add_global(f"slept:{t}", 1, 0)
            ks.add_global(f"pc:{t}", 8, 0)
        ks.add_global("woke", 1, 0)
        ks.add_global("spur", 3, 0)
        for k, (w, init) in model.extra_globals.items():
            ks.add_global(k, w, init)
        self.progs = []
        self.execs = []
        for t in range(T):
            fn, args = model.clients[t]
            pr = P.FlatProgram(model, t, fn, f"T{t}")
            self.progs.append(pr)
            self.execs.append(sem.Executor(model, pr))
            for l in pr.state_locals():
                for k, w in pr.local_keys(l):
                    ks.add_local(k, w, 0)
        self.key_width = dict(ks.all)
        self._sc_solver = z3.Solver() if selfcheck else None
        # thread start: run the thread-local prelude concretely
        for t in range(T):
            self._prelude(t)
        self.summ = []
        self.consts = []
        for t in range(T):
            d, c = self._summaries(t, selfcheck)
            self.summ.append(d)
            self.consts.append(c)

    def _summaries(self, t, selfcheck):
        """Forward constant propagation over the location graph of thread t (thread-local keys only), then the
        final summaries.  A key is treated as constant at a location only if every thread-local path reaching
        that location (from the thread start) assigns it the same numeral."""
        pr = self.progs[t]
        ks = self.ks
        ex = self.execs[t]
        init_loc = pr.locs[ks.init[f"pc:{t}"]]
        consts = {init_loc: {k: ks.init[k] for k in self._live_keys(pr, init_loc)}}
        work = [init_loc]
        rounds = 0
        while work:
            rounds += 1
            if rounds > 20 * (len(pr.locs) + 1):
                raise Unsupported(f"T{t}: constant propagation does not converge")
            loc = work.pop()
            sm = P.summarize(ex, pr, ks, loc, None, consts[loc])
            for p in sm.paths:
                if p.end[0] != "loc":
                    continue
                l2 = p.end[1]
                vals = {}
                for k in self._live_keys(pr, l2):
                    e = simp(p.state[k])
                    if sem.is_num(e):
                        vals[k] = e.as_long()
                if l2 not in consts:
                    consts[l2] = vals
                    work.append(l2)
                else:
                    old = consts[l2]
                    new = {k: v for k, v in old.items() if vals.get(k) == v}
                    if new != old:
                        consts[l2] = new
                        if l2 not in work:
                            work.append(l2)
        # a thread-local key is part of the state only if it is live and not constant at some location
        needed = set()
        for loc, c in consts.items():
            for k in self._live_keys(pr, loc):
                if k not in c:
                    needed.add(k)
        for k in [k for k in ks.all if k.startswith(f"t{t}:") and k not in needed]:
            del ks.all[k]
            ks.init.pop(k, None)
        d = {}
        for loc in pr.locs:
            if loc not in consts:
                continue   # not reachable from the thread start
            d[loc] = P.summarize(ex, pr, ks, loc, self._selfcheck if selfcheck else None, consts[loc])
        return d, consts

    # ---- read/write sets of the macro steps over shared keys (for the partial-order reduction)
    STICKY = ("flag:", "slept:", "woke")

    def rw_sets(self):
        """{(t, loc): (reads, writes)} over non-sticky global keys.  Sticky keys (error flags, witness bits) are
        only ever OR-ed (`raise_flag`) and never read by the code, so steps commute on them; this is re-checked
        here: a sticky placeholder may occur only in the update of that same key, and that update is monotone."""
        ks = self.ks
        out = {}
        chk = z3.Solver()
        for t in range(self.model.nthreads):
            for loc, sm in self.summ[t].items():
                reads, writes = {f"st:{t}"}, set()
                exprs = [(None, sm.constraint)] + ([(None, sm.guard)] if sm.guard is not None else [])
                exprs += list(sm.updates.items())
                for k, e in exprs:
                    for name in _placeholders(e):
                        if name.startswith(self.STICKY):
                            if name != k:
                                raise Unsupported(f"sticky key {name} is read by the step at {loc}")
                            continue
                        if name in ks.globals:
                            reads.add(name)
                    if k is not None and k in ks.globals:
                        if k.startswith(self.STICKY):
                            ph = P.placeholder(k, ks.all[k])
                            chk.push()
                            chk.add(z3.substitute(e, (ph, bv(1, 1))) != 1)
                            r = chk.check()
                            chk.pop()
                            self.stats.selfchecks += 1
                            if r != z3.unsat:
                                raise Unsupported(f"sticky key {k} is not monotone at {loc}")
                        elif k != f"pc:{t}":
                            writes.add(k)
                out[(t, loc)] = (reads, writes)
        return out

    def _selfcheck(self, conds, where):
        s = self._sc_solver
        self.stats.selfchecks += 1
        s.push()
        s.add(z3.Not(z3.Or(*conds)))
        r = s.check()
        s.pop()
        if r != z3.unsat:
            raise Unsupported(f"encoder self-check failed at {where}: path conditions not exhaustive")
        for i in range(len(conds)):
            for j in range(i + 1, len(conds)):
                s.push()
                s.add(conds[i], conds[j])
                r = s.check()
                s.pop()
                if r != z3.unsat:
                    raise Unsupported(f"encoder self-check failed at {where}: path conditions overlap")

    def _prelude(self, t):
        pr = self.progs[t]
        ks = self.ks
        fn, args = self.model.clients[t]
        state = {k: bv(ks.init[k], w) for k, w in ks.globals.items()}
        for k, w in ks.all.items():
            if k.startswith(f"t{t}:"):
                state[k] = bv(0, w)
        for local, val in args.items():
            fl = f"c.{local}"
            sh = self.model.tenv.shape(pr.locals[fl])
            if sem.leaves(sh) != sem.leaves(val.shape):
                raise Unsupported(f"client argument {local}: shape mismatch")
            for p, _ in sem.leaves(sh):
                state[f"t{t}:{fl}|{p}"] = val.lv[p]
        ctx = sem.Ctx(t, state, {})
        paths = P.run_to_next_location(self.execs[t], pr, [(ctx, pr.entry)])
        if len(paths) != 1 or not z3.is_true(simp(paths[0].cond)):
            raise Unsupported(f"T{t}: thread prelude is not a single concrete path")
        p = paths[0]
        if p.end[0] != "loc":
            raise Unsupported(f"T{t}: client program has no visible operation")
        for k, e in p.state.items():
            if k in ks.all and (not k.startswith(f"t{t}:") or k in self._live_keys(pr, p.end[1])):
                e = simp(e)
                if not sem.is_num(e):
                    raise Unsupported(f"T{t}: prelude value of {k} not concrete")
                ks.init[k] = e.as_long()
        ks.init[f"pc:{t}"] = pr.loc_id[p.end[1]]
        pr.prelude_trace = p.trace

    @staticmethod
    def _live_keys(pr, loc):
        s = set()
        for l in pr.live_at_term[loc]:
            for k, _ in pr.local_keys(l):
                s.add(k)
        return s


def _placeholders(e):
    seen = set()
    out = set()
    stack = [e]
    while stack:
        x = stack.pop()
        i = x.get_id()
        if i in seen:
            continue
        seen.add(i)
        if z3.is_const(x) and x.decl().kind() == z3.Z3_OP_UNINTERPRETED:
            n = x.decl().name()
            if n.startswith("P!"):
                out.add(n[2:])
        else:
            stack.extend(x.children())
    return out


class Unrolling:
    """K-step unrolling of a System.  spurious = max number of spurious futex wake-ups (0 = none)."""

    def __init__(self, system, K, spurious=0, por=True, symmetric=False):
        """por: keep only schedules without an adjacent pair of independent steps in descending thread order
        (every Mazurkiewicz trace keeps its lexicographically least linearisation: same length, same final state,
        same sticky flags).  symmetric: the threads run identical programs from identical states, so thread t+1
        may start only after thread t has started (sound together with por, see engines/mirbmc/README)."""
        self.sys = system
        self.K = K
        self.spurious = spurious
        self.por = por
        self.symmetric = symmetric
        self.query_timeout_s = 1500
        ks = system.ks
        T = system.model.nthreads
        self.T = T
        self.V = [{k: z3.BitVec(f"{k}@{i}", w) for k, w in ks.all.items()} for i in range(K + 1)]
        self.sched = [z3.BitVec(f"sched@{i}", 8) for i in range(K)]
        self.ND = [{n: z3.BitVec(f"nd:{n}@{i}", v.size()) for n, v in ks.ndvars.items()} for i in range(K)]
        cons = []
        for k, w in ks.all.items():
            cons.append(self.V[0][k] == bv(ks.init[k], w))
        for i in range(K):
            cons.extend(self._step(i))
        if por:
            cons.extend(self._por())
        if symmetric:
            cons.extend(self._symmetry())
        self.cons = cons

    def _por(self):
        sysm = self.sys
        rw = sysm.rw_sets()
        T = self.T
        indep = {}
        self.por_pairs = 0
        for a in range(T):
            for b in range(a):
                for la in sysm.summ[a]:
                    ra, wa = rw[(a, la)]
                    for lb in sysm.summ[b]:
                        rb, wb = rw[(b, lb)]
                        if (wa & (rb | wb)) or (wb & ra):
                            continue
                        indep.setdefault((a, la, b), []).append(lb)
                        self.por_pairs += 1
        cons = []
        for i in range(self.K - 1):
            for (a, la, b), lbs in indep.items():
                pa = sysm.progs[a]
                pb = sysm.progs[b]
                first = z3.And(self.sched[i] == bv(a, 8), self.V[i][f"st:{a}"] == RUN,
                               self.V[i][f"pc:{a}"] == bv(pa.loc_id[la], 8))
                second = z3.And(self.sched[i + 1] == bv(b, 8), self.V[i + 1][f"st:{b}"] == RUN,
                                z3.Or(*[self.V[i + 1][f"pc:{b}"] == bv(pb.loc_id[lb], 8) for lb in lbs]))
                cons.append(z3.Not(z3.And(first, second)))
        return cons

    def _symmetry(self):
        T = self.T
        cons = []
        started = [z3.BoolVal(False)] * T
        for i in range(self.K):
            for t in range(1, T):
                cons.append(z3.Implies(self.sched[i] == bv(t, 8), started[t - 1]))
            started = [z3.Or(started[t], self.sched[i] == bv(t, 8)) for t in range(T)]
        return cons

    def _subst_pairs(self, i):
        ks = self.sys.ks
        pairs = [(P.placeholder(k, w), self.V[i][k]) for k, w in ks.all.items()]
        pairs += [(v, self.ND[i][n]) for n, v in ks.ndvars.items()]
        return pairs

    def _step(self, i):
        sysm = self.sys
        T = self.T
        cur, nxt = self.V[i], self.V[i + 1]
        sch = self.sched[i]
        pairs = self._subst_pairs(i)
        cons = [z3.ULE(sch, bv(T, 8))]
        cases = defaultdict(list)
        real_enabled = []
        for t in range(T):
            pr = sysm.progs[t]
            tsel = sch == bv(t, 8)
            run = cur[f"st:{t}"] == RUN
            en_locs = []
            for loc, sm in sysm.summ[t].items():
                here = cur[f"pc:{t}"] == bv(pr.loc_id[loc], 8)
                at = z3.And(tsel, run, here)
                for key, e in sm.updates.items():
                    cases[key].append((at, z3.substitute(e, *pairs)))
                if not z3.is_true(sm.constraint):
                    cons.append(z3.Implies(at, z3.substitute(sm.constraint, *pairs)))
                if sm.guard is not None:
                    en_locs.append(z3.And(here, z3.substitute(sm.guard, *pairs)))
                else:
                    en_locs.append(here)
            en = z3.And(run, z3.Or(*en_locs)) if any(sm.guard is not None for sm in sysm.summ[t].values()) else run
            real_enabled.append(en)
            if self.spurious > 0:
                sp = z3.And(tsel, cur[f"st:{t}"] == ASLEEP)
                sp_ok = z3.And(cur[f"st:{t}"] == ASLEEP, z3.ULT(cur["spur"], bv(self.spurious, 3)))
                cases[f"st:{t}"].append((sp, bv(RUN, STATUS_W)))
                cases["spur"].append((sp, cur["spur"] + 1))
                cons.append(z3.Implies(tsel, z3.Or(en, sp_ok)))
            else:
                cons.append(z3.Implies(tsel, en))
        cons.append(z3.Implies(sch == bv(T, 8), z3.Not(z3.Or(*real_enabled))))
        for key in self.sys.ks.all:
            e = cur[key]
            for g, v in reversed(cases.get(key, [])):
                e = z3.If(g, v, e)
            cons.append(nxt[key] == e)
        return cons

    # ---- predicates over the final state
    def final(self, key):
        return self.V[self.K][key]

    def flag(self, name):
        return self.final("flag:" + name) == 1

    def all_finished(self):
        return z3.And(*[self.final(f"st:{t}") == FIN for t in range(self.T)])

    def real_enabled_at(self, i, t):
        sysm = self.sys
        cur = self.V[i]
        pr = sysm.progs[t]
        run = cur[f"st:{t}"] == RUN
        if not any(sm.guard is not None for sm in sysm.summ[t].values()):
            return run
        pairs = self._subst_pairs(min(i, self.K - 1)) if i < self.K else None
        ens = []
        for loc, sm in sysm.summ[t].items():
            here = cur[f"pc:{t}"] == bv(pr.loc_id[loc], 8)
            if sm.guard is None:
                ens.append(here)
            else:
                pr_pairs = [(P.placeholder(k, w), cur[k]) for k, w in sysm.ks.all.items()]
                ens.append(z3.And(here, z3.substitute(sm.guard, *pr_pairs)))
        return z3.And(run, z3.Or(*ens))

    def deadlock(self):
        """No thread can take a real step, and at least one is asleep (blocked on the futex) or blocked."""
        K = self.K
        none = z3.Not(z3.Or(*[self.real_enabled_at(K, t) for t in range(self.T)]))
        stuck = z3.Or(*[z3.Or(self.final(f"st:{t}") == ASLEEP, self.final(f"st:{t}") == RUN) for t in range(self.T)])
        return z3.And(none, stuck)

    def still_running(self):
        """The K-th step is a real (non-idle) step: some schedule needs more than K-1 steps."""
        return self.sched[self.K - 1] != bv(self.T, 8)

    # ---- solving
    def check(self, extra, timeout_s=None):
        st = self.sys.stats
        # bit-blasting pipeline; `solve-eqs` turns the next-state equalities into a functional (variable free)
        # encoding, `aig` compresses the circuit (measured: 100x faster than the default QF_BV strategy here)
        s = z3.Then("simplify", "propagate-values", "solve-eqs", "simplify", "bit-blast", "aig", "sat").solver()
        timeout_s = timeout_s or self.query_timeout_s
        if timeout_s:
            try:
                s.set("timeout", int(timeout_s * 1000))
            except z3.Z3Exception:
                pass
        s.add(*self.cons)
        s.add(*extra)
        t0 = time.time()
        r = s.check()
        dt = time.time() - t0
        st.queries += 1
        st.solver_s += dt
        m = s.model() if r == z3.sat else None
        return r, m, dt

    def to_smt2(self, extra):
        s = z3.Solver()
        s.add(*self.cons)
        s.add(*extra)
        return "(set-logic QF_BV)\n" + s.to_smt2()

    # ---- schedule extraction + re-execution
    def extract(self, m):
        T = self.T
        steps = []
        for i in range(self.K):
            sv = m.eval(self.sched[i], model_completion=True).as_long()
            st = {k: m.eval(v, model_completion=True).as_long() for k, v in self.V[i].items()}
            nd = {n: m.eval(v, model_completion=True).as_long() for n, v in self.ND[i].items()}
            steps.append((sv, st, nd))
        final = {k: m.eval(v, model_completion=True).as_long() for k, v in self.V[self.K].items()}
        return steps, final

    def reexecute(self, m):
        """Re-run the schedule of model m block by block with concrete values; returns (lines, ok, final state)."""
        sysm = self.sys
        ks = sysm.ks
        steps, final = self.extract(m)
        lines = []
        ok = True
        cur = {k: ks.init[k] for k in ks.all}
        lines.extend(describe_start(sysm, cur))
        idle_seen = False
        for i, (sv, mst, nd) in enumerate(steps):
            if mst != cur:
                diff = [k for k in cur if cur[k] != mst[k]]
                lines.append(f"  !! re-execution diverges from the solver model before step {i}: {diff[:6]}")
                ok = False
                cur = dict(mst)
            if sv == self.T:
                if not idle_seen:
                    lines.append(f"step {i:3d}: (idle: no thread can take a step)")
                idle_seen = True
                continue
            cur, ls, good = concrete_step(sysm, cur, sv, nd, i)
            lines.extend(ls)
            ok = ok and good
            if not good:
                break
        if ok and final != cur:
            diff = [k for k in cur if cur[k] != final[k]]
            lines.append(f"  !! re-execution diverges from the solver model at the end: {diff[:6]}")
            ok = False
        return lines, ok, cur


def shown_keys(sysm):
    ks = sysm.ks
    return [k for k in ks.globals if k.startswith(("mem:", "freed:"))] + list(sysm.model.extra_globals) + \
           [k for k in ks.globals if k.startswith("flag:")]


def fmt_state(sysm, st):
    out = []
    for k in shown_keys(sysm):
        if k.startswith("flag:") and st[k] == 0:
            continue
        out.append(f"{k.split(':', 1)[1] if k.startswith('mem:') else k}={st[k]}")
    T = sysm.model.nthreads
    return " ".join(out) + "  status=" + ",".join(["RUN", "ASLEEP", "FIN", "DEAD"][st[f"st:{u}"]] for u in range(T))


def describe_start(sysm, cur):
    lines = []
    for t in range(sysm.model.nthreads):
        pr = sysm.progs[t]
        lines.append(f"  T{t} start (thread-local): " + " -> ".join(pr.describe(b) for b in pr.prelude_trace))
    lines.append("  initial: " + fmt_state(sysm, cur))
    return lines


def concrete_step(sysm, cur, t, nd, i=0):
    """Execute one step of thread t from concrete state `cur` block by block.  Returns (new state, lines, ok)."""
    ks = sysm.ks
    pr = sysm.progs[t]
    lines = []
    ok = True
    if cur[f"st:{t}"] == ASLEEP:
        new = dict(cur)
        new[f"st:{t}"] = RUN
        new["spur"] += 1
        return new, [f"step {i:3d}: T{t} SPURIOUS WAKE-UP (futex_wait returns without a wake)"], True
    if cur[f"st:{t}"] != RUN:
        return cur, [f"  !! step {i}: T{t} scheduled but not runnable"], False
    loc = pr.locs[cur[f"pc:{t}"]]
    state = {k: bv(v, ks.all[k]) for k, v in cur.items()}
    for k, v in sysm.consts[t][loc].items():
        if k not in state:
            state[k] = bv(v, sysm.key_width[k])
    ndv = {n: bv(nd.get(n, 0), v.size()) for n, v in ks.ndvars.items()}
    ctx = sem.Ctx(t, state, ndv)
    ctx.trace.append(loc)
    blk = pr.blocks[loc]
    sm = sysm.summ[t][loc]
    if sm.guard is not None:
        pairs = [(P.placeholder(k, w), bv(cur[k], w)) for k, w in ks.all.items()]
        if not z3.is_true(simp(z3.substitute(sm.guard, *pairs))):
            return cur, [f"  !! step {i}: T{t} scheduled at a blocked location"], False
    succ = sysm.execs[t].exec_term(ctx, blk)
    paths = P.run_to_next_location(sysm.execs[t], pr, succ)
    paths = [p for p in paths if z3.is_true(simp(p.cond))]
    if len(paths) != 1:
        return cur, [f"  !! step {i}: concrete re-execution produced {len(paths)} paths"], False
    p = paths[0]
    for c in p.constraints:
        if not z3.is_true(simp(c)):
            lines.append(f"  !! step {i}: nondeterministic choice violates its constraint")
            ok = False
    new = dict(cur)
    if p.end[0] == "loc":
        live = System._live_keys(pr, p.end[1])
        new[f"pc:{t}"] = pr.loc_id[p.end[1]]
    else:
        live = set()
        new[f"pc:{t}"] = 255
    for k, e in p.state.items():
        if k not in ks.all or k == f"pc:{t}":
            continue
        if k.startswith(f"t{t}:") and k not in live:
            continue
        e = simp(e)
        if not sem.is_num(e):
            lines.append(f"  !! step {i}: value of {k} not concrete")
            ok = False
            continue
        new[k] = e.as_long()
    term = blk.term
    lines.append(f"step {i:3d}: T{t} {pr.describe(loc)}  {term.callee}   [{'; '.join(p.events)}]")
    rest = [pr.describe(b) for b in p.trace[1:]]
    if rest:
        lines.append(f"            then thread-local: {' -> '.join(rest)}" + (f"  => {p.end[0]}" if p.end[0] != 'loc' else ""))
    lines.append("            state: " + fmt_state(sysm, new))
    return new, lines, ok
