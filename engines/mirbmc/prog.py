"""Thread programs of engine E2: inlining of the real CFGs into a client, liveness, macro-step summaries.

A *location* is a basic block whose terminator is a visible operation (touches shared state: atomics, futex,
ACCESS/FREE events, client events).  One BMC step of a thread = the visible operation at its location followed
by the thread-local continuation (statements, gotos, switches, thread-local whitelisted calls) up to the next
location.  Thread-local code commutes with every step of every other thread, so this is the interleaving
semantics "one shared-memory operation per step".
"""
import re

import z3

import mir
from mir import Unsupported, Place, Operand, Rvalue, Assign, Term, Block
import sem
from sem import bv, simp, leaves


def _ren_place(pl, pfx):
    return Place(f"{pfx}.{pl.base}", pl.proj)


def _ren_op(op, pfx):
    if op.kind == "const":
        return op
    return Operand(op.kind, place=_ren_place(op.place, pfx))


def _ren_rv(rv, pfx):
    k = rv.kind
    if k in ("use", "un", "cast"):
        return Rvalue(k, a=_ren_op(rv.a, pfx), op=rv.op, ty=rv.ty)
    if k in ("ref", "discr"):
        return Rvalue(k, a=_ren_place(rv.a, pfx), op=rv.op)
    if k == "bin":
        return Rvalue(k, a=_ren_op(rv.a, pfx), b=_ren_op(rv.b, pfx), op=rv.op)
    if k == "agg":
        return Rvalue(k, op=rv.op, ty=rv.ty, b=rv.b, extra=[_ren_op(o, pfx) for o in rv.extra])
    raise Unsupported(f"rvalue kind {k}")


class FlatProgram:
    """Client CFG with every call to an encoded function inlined (fresh locals per call site)."""

    def __init__(self, model, tid, client_fn, label):
        self.model = model
        self.tid = tid
        self.label = label
        self.blocks = {}
        self.order = []
        self.locals = {}       # flat local -> type text
        self.src = {}          # flat block -> (function name, bb, prefix)
        self.addr_taken = {}   # flat local -> abstract object id
        self.debug = {}
        self.entry = self._inline(client_fn, "c", None, None, 0)
        self._find_addr_taken()
        self._classify()
        self._liveness()

    # ---- inlining
    def _inline(self, fn, pfx, dest, ret_target, depth):
        if depth > 8:
            raise Unsupported("call depth > 8 (recursion?)")
        for l, ty in fn.locals.items():
            self.locals[f"{pfx}.{l}"] = ty
        for l, nm in fn.debug.items():
            self.debug[f"{pfx}.{l}"] = nm
        for bname in fn.order:
            b = fn.blocks[bname]
            if b.cleanup:
                continue
            nb = Block(f"{pfx}.{bname}")
            self.blocks[nb.name] = nb
            self.order.append(nb.name)
            self.src[nb.name] = (fn.name, bname, pfx)
            for st in b.stmts:
                nb.stmts.append(Assign(_ren_place(st.place, pfx), _ren_rv(st.rv, pfx), st.text))
            t = b.term
            if t.kind == "goto":
                nb.term = Term("goto", target=f"{pfx}.{t.target}", text=t.text)
            elif t.kind == "switch":
                nb.term = Term("switch", op=_ren_op(t.op, pfx), targets=[(v, f"{pfx}.{x}") for v, x in t.targets],
                               otherwise=f"{pfx}.{t.otherwise}" if t.otherwise else None, text=t.text)
            elif t.kind == "assert":
                nb.term = Term("assert", op=_ren_op(t.op, pfx), expected=t.expected, msg=t.msg,
                               target=f"{pfx}.{t.target}", text=t.text)
            elif t.kind == "return":
                if ret_target is None:
                    nb.term = Term("return", text=t.text)
                else:
                    if dest is not None:
                        nb.stmts.append(Assign(dest, Rvalue("use", a=Operand("move", place=Place(f"{pfx}._0"))),
                                               f"(return value of {fn.name})"))
                    nb.term = Term("goto", target=ret_target, text="return;")
            elif t.kind in ("unreachable", "resume"):
                nb.term = Term(t.kind, text=t.text)
            elif t.kind == "drop":
                raise Unsupported(f"{fn.name}:{bname}: drop terminator not in subset")
            elif t.kind == "call":
                callee_fn = self.model.resolve_function(t.callee)
                if callee_fn is None:
                    nb.term = Term("call", dest=_ren_place(t.dest, pfx), callee=t.callee,
                                   args=[_ren_op(a, pfx) for a in t.args],
                                   target=f"{pfx}.{t.target}" if t.target else None, text=t.text)
                    if self.model.find_prim(t.callee) is None:
                        raise Unsupported(f"{fn.name}:{bname}: callee {t.callee!r} is neither an encoded function nor whitelisted")
                else:
                    if t.target is None:
                        raise Unsupported(f"{fn.name}:{bname}: diverging call to an encoded function")
                    if len(callee_fn.args) != len(t.args):
                        raise Unsupported(f"{fn.name}:{bname}: arity mismatch calling {t.callee}")
                    short = re.sub(r"[^A-Za-z0-9_]", "", callee_fn.name.split("::")[-1])
                    p2 = f"{pfx}>{short}@{bname}"
                    for (al, _), a in zip(callee_fn.args, t.args):
                        nb.stmts.append(Assign(Place(f"{p2}.{al}"), Rvalue("use", a=_ren_op(a, pfx)),
                                               f"(argument {al} of {callee_fn.name})"))
                    entry = self._inline(callee_fn, p2, _ren_place(t.dest, pfx), f"{pfx}.{t.target}", depth + 1)
                    nb.term = Term("goto", target=entry, text=t.text)
            else:
                raise Unsupported(f"terminator {t.kind}")
        return f"{pfx}.{fn.order[0]}"

    def _find_addr_taken(self):
        n = 0
        for bn in self.order:
            for st in self.blocks[bn].stmts:
                if st.rv.kind == "ref" and not any(p[0] == "deref" for p in st.rv.a.proj):
                    l = st.rv.a.base
                    if l not in self.addr_taken:
                        self.addr_taken[l] = sem.LOCAL_OBJ_BASE + n
                        n += 1

    def local_obj(self, local):
        if local not in self.addr_taken:
            raise Unsupported(f"address of local {local} taken but not registered")
        return self.addr_taken[local]

    # ---- visible blocks
    def _classify(self):
        """Visible blocks.  A pure ACCESS event (prim.absorbable: NonNull::as_ref) is made thread-local when, on
        every thread-local path after it, the next shared-memory operation of the thread is one that itself
        ACCESS-checks the (single) heap object: `freed` is monotone, so whenever the reference creation would have
        hit freed memory the following operation hits it as well, and an interleaved FREE is caught there."""
        vis = {}
        for bn in self.order:
            t = self.blocks[bn].term
            if t.kind == "call":
                pr = self.model.find_prim(t.callee)
                if pr is not None and pr.visible:
                    vis[bn] = pr
        heaps = [o for o in self.model.objects if o.heap]
        can_absorb = len(heaps) == 1 and all(c.obj == heaps[0].id for c in self.model.cells)
        absorbed = {bn for bn, pr in vis.items() if getattr(pr, "absorbable", False)} if can_absorb else set()

        def next_ops(bn):
            """visible (non-absorbed) blocks reachable after bn's terminator through thread-local code; None in
            the set means a path ends (return/unreachable) before any."""
            out = set()
            seen = set()
            stack = list(self.succs(bn))
            if not stack:
                out.add(None)
            while stack:
                x = stack.pop()
                if x in seen:
                    continue
                seen.add(x)
                if x in vis and x not in absorbed:
                    out.add(x)
                    continue
                nx = self.succs(x)
                if not nx:
                    out.add(None)
                stack.extend(nx)
            return out

        changed = True
        while changed:
            changed = False
            for bn in sorted(absorbed):
                ops = next_ops(bn)
                if None in ops or not all(getattr(vis[x], "checks_access", False) for x in ops):
                    absorbed.discard(bn)
                    changed = True
        self.absorbed = absorbed
        self.visible = {bn: pr for bn, pr in vis.items() if bn not in absorbed}
        self.locs = [bn for bn in self.order if bn in self.visible]
        if len(self.locs) > 250:
            raise Unsupported("too many locations")
        self.loc_id = {bn: i for i, bn in enumerate(self.locs)}

    # ---- liveness (granularity: whole locals)
    @staticmethod
    def _op_uses(op, out):
        if op is not None and op.kind != "const":
            out.add(op.place.base)

    def _stmt_ud(self, st):
        uses = set()
        rv = st.rv
        if rv.kind in ("use", "un", "cast"):
            self._op_uses(rv.a, uses)
        elif rv.kind in ("ref", "discr"):
            uses.add(rv.a.base)
        elif rv.kind == "bin":
            self._op_uses(rv.a, uses)
            self._op_uses(rv.b, uses)
        elif rv.kind == "agg":
            for o in rv.extra:
                self._op_uses(o, uses)
        d = None
        if st.place.proj:
            uses.add(st.place.base)
        else:
            d = st.place.base
        return uses, d

    def _term_ud(self, t):
        uses = set()
        d = None
        if t.kind in ("switch", "assert"):
            self._op_uses(t.op, uses)
        elif t.kind == "call":
            for a in t.args:
                self._op_uses(a, uses)
            if t.dest.proj:
                uses.add(t.dest.base)
            else:
                d = t.dest.base
        return uses, d

    def succs(self, bn):
        t = self.blocks[bn].term
        if t.kind == "goto":
            return [t.target]
        if t.kind == "switch":
            return [x for _, x in t.targets] + ([t.otherwise] if t.otherwise else [])
        if t.kind in ("assert", "call"):
            return [t.target] if t.target else []
        return []

    def _aliases(self):
        """May-point-to closure: for every address-taken local L the set of locals that may hold (directly or
        inside an aggregate) a pointer into L.  Flow-insensitive; any value computed from an alias is an alias."""
        al = {l: set() for l in self.addr_taken}
        edges = []   # (sources, dest)
        for bn in self.order:
            b = self.blocks[bn]
            for st in b.stmts:
                u, _ = self._stmt_ud(st)
                if st.rv.kind == "ref" and not any(p[0] == "deref" for p in st.rv.a.proj):
                    al[st.rv.a.base].add(st.place.base)
                edges.append((u, st.place.base))
            t = b.term
            if t.kind == "call":
                u = set()
                for a in t.args:
                    self._op_uses(a, u)
                edges.append((u, t.dest.base))
        changed = True
        while changed:
            changed = False
            for L, s in al.items():
                for srcs, d in edges:
                    if d not in s and d != L and (srcs & s):
                        s.add(d)
                        changed = True
        self.alias_of = {}   # local -> set of address-taken locals it may point into
        for L, s in al.items():
            for a in s:
                self.alias_of.setdefault(a, set()).add(L)

    def _with_aliases(self, uses):
        out = set(uses)
        for u in uses:
            out |= self.alias_of.get(u, set())
        return out

    def _liveness(self):
        self._aliases()
        live_in = {bn: set() for bn in self.order}
        self.live_at_term = {bn: set() for bn in self.order}
        changed = True
        while changed:
            changed = False
            for bn in reversed(self.order):
                b = self.blocks[bn]
                out = set()
                for s in self.succs(bn):
                    out |= live_in[s]
                u, d = self._term_ud(b.term)
                if d in self.addr_taken:
                    d = d  # a full overwrite still kills
                cur = (out - ({d} if d else set())) | self._with_aliases(u)
                lat = set(cur)
                for st in reversed(b.stmts):
                    u, d = self._stmt_ud(st)
                    if d:
                        cur.discard(d)
                    cur |= self._with_aliases(u)
                if lat != self.live_at_term[bn] or cur != live_in[bn]:
                    self.live_at_term[bn] = lat
                    live_in[bn] = cur
                    changed = True
        self.live_in = live_in

    # ---- state keys
    def local_keys(self, local):
        sh = self.model.tenv.shape(self.locals[local])
        return [(f"t{self.tid}:{local}|{p}", w) for p, w in leaves(sh)]

    def state_locals(self):
        s = set()
        for bn in self.locs:
            s |= self.live_at_term[bn]
        return sorted(s)

    def describe(self, bn):
        fnname, bb, pfx = self.src[bn]
        return f"{fnname.split('::')[-1]}:{bb}"


class Path:
    def __init__(self, ctx, end):
        self.cond = ctx.cond
        self.state = ctx.state
        self.constraints = ctx.constraints
        self.trace = ctx.trace
        self.events = ctx.events
        self.end = end


def run_to_next_location(ex, prog, start_ctxs, max_blocks=400):
    """Continue each (ctx, block) through thread-local code until a location / end.  Returns [Path]."""
    done = []
    work = list(start_ctxs)
    budget = max_blocks
    while work:
        ctx, bn = work.pop()
        if bn is None:
            done.append(Path(ctx, ctx.end))
            continue
        budget -= 1
        if budget < 0:
            raise Unsupported(f"{prog.label}: more than {max_blocks} thread-local blocks without a shared-memory operation (local loop?)")
        blk = prog.blocks[bn]
        ctx.trace.append(bn)
        ex.exec_stmts(ctx, blk)
        if bn in prog.visible:
            done.append(Path(ctx, ("loc", bn)))
            continue
        for c2, nxt in ex.exec_term(ctx, blk):
            work.append((c2, nxt))
    return done


class Summary:
    """Effect of one macro step from a location, as expressions over placeholder constants."""

    def __init__(self, loc, updates, constraint, guard, paths):
        self.loc = loc
        self.updates = updates        # key -> expr
        self.constraint = constraint  # Bool that must hold when the step is taken
        self.guard = guard            # Bool: location enabled (blocking primitives), or None
        self.paths = paths


def placeholder(key, width):
    return z3.BitVec("P!" + key, width)


def summarize(ex, prog, keyspace, loc, selfcheck, consts=None):
    """consts: thread-local keys known (by forward constant propagation) to hold one fixed value at `loc`."""
    tid = prog.tid
    consts = consts or {}
    state = {}
    for k, w in keyspace.globals.items():
        state[k] = placeholder(k, w)
    for l in prog.live_at_term[loc]:
        for k, w in prog.local_keys(l):
            state[k] = bv(consts[k], w) if k in consts else placeholder(k, w)
    ndvars = keyspace.ndvars
    ctx = sem.Ctx(tid, state, ndvars)
    ctx.trace.append(loc + " (visible op)")
    blk = prog.blocks[loc]
    prim = prog.visible[loc]
    guard = None
    if getattr(prim, "guard", None) is not None:
        args = [ex.operand(ctx, a) for a in blk.term.args]
        guard = simp(prim.guard(ex, ctx, blk.term, args))
    succ = ex.exec_term(ctx, blk)
    paths = run_to_next_location(ex, prog, succ)
    # self-check: the path conditions are exhaustive and pairwise exclusive
    if selfcheck is not None:
        selfcheck([p.cond for p in paths], f"{prog.label}:{loc}")
    updates = {}
    keys = set()
    for p in paths:
        end = p.end
        if end[0] == "loc":
            p.state[f"pc:{tid}"] = bv(prog.loc_id[end[1]], 8)
            live = set()
            for l in prog.live_at_term[end[1]]:
                for k, _ in prog.local_keys(l):
                    live.add(k)
                    if k not in p.state:
                        raise Unsupported(f"{prog.label}: local {l} is live at {end[1]} but has no value on the path from {loc}")
        else:
            live = set()
            p.state[f"pc:{tid}"] = bv(255, 8)
        p.keep = {}
        for k, e in p.state.items():
            if k.startswith(f"t{tid}:"):
                if k not in live or k not in keyspace.all:
                    continue   # dead here, or constant at every location where it is live (see System._summaries)
            if k not in keyspace.all:
                raise Unsupported(f"{prog.label}: key {k} not in key space")
            ph = placeholder(k, keyspace.all[k])
            if e.eq(ph):
                continue
            p.keep[k] = e
            keys.add(k)
    for k in sorted(keys):
        ph = placeholder(k, keyspace.all[k])
        e = ph
        for p in reversed(paths):
            v = p.keep.get(k, ph)
            e = z3.If(p.cond, v, e)
        updates[k] = simp(e)
    cons = []
    for p in paths:
        for c in p.constraints:
            cons.append(z3.Implies(p.cond, c))
    constraint = simp(z3.And(*cons)) if cons else z3.BoolVal(True)
    return Summary(loc, updates, constraint, guard, paths)


class KeySpace:
    def __init__(self):
        self.globals = {}   # key -> width
        self.init = {}      # key -> int
        self.all = {}
        self.ndvars = {}

    def add_global(self, key, width, init=0):
        self.globals[key] = width
        self.all[key] = width
        self.init[key] = init

    def add_local(self, key, width, init=0):
        self.all[key] = width
        self.init.setdefault(key, init)
