"""Parser for the subset of `rustc -Zunpretty=mir` text used by engine E2 (mir-bmc).

Only the functions asked for are parsed.  Anything that does not match the grammar below raises
Unsupported => the check exits 2 ("code left the encodable subset"), never a pass.

grammar (per function body)
    let [mut] _N: TYPE;          debug NAME => ...;         scope N { ... }   (scopes are flattened)
    bbN: { STATEMENT* TERMINATOR }      bbN (cleanup): {...}   (cleanup blocks are kept but flagged)
statements
    PLACE = RVALUE;     StorageLive(_N);  StorageDead(_N);  ConstEvalCounter;  nop;
terminators
    goto -> bbN;   switchInt(OP) -> [v: bbN, ..., otherwise: bbN];   return;   unreachable;   resume;
    PLACE = CALLEE(OP, ...) -> [return: bbN, unwind ...];     PLACE = CALLEE(OP, ...) -> unwind ...;
    assert(OP | !OP, "msg", ...) -> [success: bbN, unwind ...];      drop(PLACE) -> [return: bbN, unwind ...];
"""
import re


class Unsupported(Exception):
    """The code left the encodable subset."""


# --------------------------------------------------------------------------- small helpers

OPEN = {"(": ")", "[": "]", "{": "}", "<": ">"}
CLOSE = {v: k for k, v in OPEN.items()}


def split_top(s, sep=","):
    """Split on `sep` at bracket depth 0 (brackets: () [] {} <>; `->` and string literals are skipped)."""
    out = []
    depth = 0
    cur = []
    i = 0
    n = len(s)
    while i < n:
        c = s[i]
        if c == '"':
            j = i + 1
            while j < n and s[j] != '"':
                if s[j] == "\\":
                    j += 1
                j += 1
            cur.append(s[i:j + 1])
            i = j + 1
            continue
        if c == "-" and i + 1 < n and s[i + 1] == ">":
            cur.append("->")
            i += 2
            continue
        if c == "=" and i + 1 < n and s[i + 1] == ">":
            cur.append("=>")
            i += 2
            continue
        if c in OPEN:
            depth += 1
        elif c in CLOSE:
            depth -= 1
            if depth < 0:
                raise Unsupported(f"unbalanced brackets in {s!r}")
        if c == sep and depth == 0:
            out.append("".join(cur).strip())
            cur = []
        else:
            cur.append(c)
        i += 1
    if depth != 0:
        raise Unsupported(f"unbalanced brackets in {s!r}")
    last = "".join(cur).strip()
    if last or out:
        out.append(last)
    return out


def match_paren(s, i):
    """s[i] is an opening bracket; return index of its partner."""
    depth = 0
    n = len(s)
    j = i
    while j < n:
        c = s[j]
        if c == '"':
            j += 1
            while j < n and s[j] != '"':
                if s[j] == "\\":
                    j += 1
                j += 1
        elif c == "-" and j + 1 < n and s[j + 1] == ">":
            j += 1
        elif c in OPEN:
            depth += 1
        elif c in CLOSE:
            depth -= 1
            if depth == 0:
                return j
        j += 1
    raise Unsupported(f"unbalanced brackets in {s!r}")


# --------------------------------------------------------------------------- IR

class Place:
    __slots__ = ("base", "proj")

    def __init__(self, base, proj=()):
        self.base = base          # "_3"
        self.proj = tuple(proj)   # ("deref",) | ("field", i, type) | ("downcast", Variant)

    def __repr__(self):
        s = self.base
        for p in self.proj:
            if p[0] == "deref":
                s = f"(*{s})"
            elif p[0] == "field":
                s = f"({s}.{p[1]})"
            else:
                s = f"({s} as {p[1]})"
        return s


class Operand:
    __slots__ = ("kind", "place", "const")

    def __init__(self, kind, place=None, const=None):
        self.kind = kind  # copy | move | const
        self.place = place
        self.const = const

    def __repr__(self):
        return f"const {self.const}" if self.kind == "const" else f"{self.kind} {self.place!r}"


class Rvalue:
    __slots__ = ("kind", "a", "b", "op", "ty", "extra")

    def __init__(self, kind, a=None, b=None, op=None, ty=None, extra=None):
        self.kind = kind  # use | ref | bin | un | discr | cast | agg
        self.a = a
        self.b = b
        self.op = op
        self.ty = ty
        self.extra = extra

    def __repr__(self):
        return f"Rvalue({self.kind}, {self.a!r}, {self.b!r}, op={self.op}, ty={self.ty}, extra={self.extra})"


class Assign:
    __slots__ = ("place", "rv", "text")

    def __init__(self, place, rv, text=""):
        self.place = place
        self.rv = rv
        self.text = text


class Term:
    __slots__ = ("kind", "op", "targets", "otherwise", "dest", "callee", "args", "target", "text", "expected", "msg")

    def __init__(self, kind, **kw):
        self.kind = kind  # goto | switch | return | unreachable | resume | call | assert | drop
        for k in self.__slots__[1:]:
            setattr(self, k, kw.get(k))


class Block:
    def __init__(self, name, cleanup=False):
        self.name = name
        self.cleanup = cleanup
        self.stmts = []
        self.term = None


class Function:
    def __init__(self, name, header):
        self.name = name
        self.header = header
        self.args = []        # [(local, type)]
        self.ret = None
        self.locals = {}      # local -> type text
        self.debug = {}       # local -> source name
        self.blocks = {}      # "bb3" -> Block
        self.order = []
        self.ctfe = False
        self.line = 0
        self.text = ""


# --------------------------------------------------------------------------- places / operands / rvalues

def parse_place(s):
    s = s.strip()
    if re.fullmatch(r"_\d+", s):
        return Place(s)
    if s.startswith("(") and match_paren(s, 0) == len(s) - 1:
        inner = s[1:-1].strip()
        if inner.startswith("*"):
            p = parse_place(inner[1:])
            return Place(p.base, p.proj + (("deref",),))
        # (PLACE as Variant)
        m = re.fullmatch(r"(.*) as ([A-Za-z_][A-Za-z_0-9]*)", inner)
        if m and _is_place(m.group(1)):
            p = parse_place(m.group(1))
            return Place(p.base, p.proj + (("downcast", m.group(2)),))
        # (PLACE.N: TYPE)
        # find the ": " that follows ".N" at depth 0
        parts = _split_field(inner)
        if parts:
            base_s, idx, ty = parts
            p = parse_place(base_s)
            return Place(p.base, p.proj + (("field", idx, ty),))
    raise Unsupported(f"place not in subset: {s!r}")


def _is_place(s):
    try:
        parse_place(s)
        return True
    except Unsupported:
        return False


def _split_field(inner):
    # inner = "<place>.<digits>: <type>"; <place> is "_N" or a parenthesised place
    if inner.startswith("("):
        j = match_paren(inner, 0)
        rest = inner[j + 1:]
        base = inner[:j + 1]
    else:
        m = re.match(r"_\d+", inner)
        if not m:
            return None
        base = m.group(0)
        rest = inner[m.end():]
    m = re.match(r"\.(\d+): (.*)$", rest, re.S)
    if not m:
        return None
    return base, int(m.group(1)), m.group(2).strip()


def parse_operand(s):
    s = s.strip()
    if s.startswith("copy "):
        return Operand("copy", place=parse_place(s[5:]))
    if s.startswith("move "):
        return Operand("move", place=parse_place(s[5:]))
    if s.startswith("const "):
        return Operand("const", const=s[6:].strip())
    raise Unsupported(f"operand not in subset: {s!r}")


BINOPS = {"Eq", "Ne", "Lt", "Le", "Gt", "Ge", "Add", "Sub", "BitAnd", "BitOr", "BitXor",
          "AddUnchecked", "SubUnchecked"}
UNOPS = {"Not", "Neg"}


def parse_rvalue(s):
    s = s.strip()
    m = re.fullmatch(r"(.*) as (.*) \((\w+)\)", s, re.S)
    if m and (s.startswith("copy ") or s.startswith("move ") or s.startswith("const ")):
        return Rvalue("cast", a=parse_operand(m.group(1)), ty=m.group(2).strip(), op=m.group(3))
    if s.startswith(("copy ", "move ", "const ")):
        return Rvalue("use", a=parse_operand(s))
    if s.startswith("&raw const "):
        return Rvalue("ref", a=parse_place(s[len("&raw const "):]), op="raw const")
    if s.startswith("&raw mut "):
        return Rvalue("ref", a=parse_place(s[len("&raw mut "):]), op="raw mut")
    if s.startswith("&mut "):
        return Rvalue("ref", a=parse_place(s[5:]), op="mut")
    if s.startswith("&"):
        return Rvalue("ref", a=parse_place(s[1:]), op="shared")
    m = re.match(r"([A-Za-z]+)\(", s)
    if m and match_paren(s, m.end() - 1) == len(s) - 1:
        name = m.group(1)
        inner = s[m.end():-1]
        if name == "discriminant":
            return Rvalue("discr", a=parse_place(inner))
        if name in BINOPS:
            a, b = split_top(inner)
            return Rvalue("bin", a=parse_operand(a), b=parse_operand(b), op=name)
        if name in UNOPS:
            return Rvalue("un", a=parse_operand(inner), op=name)
    if s.startswith("(") and match_paren(s, 0) == len(s) - 1:
        items = split_top(s[1:-1])
        return Rvalue("agg", op="tuple", extra=[parse_operand(x) for x in items if x != ""])
    if s.startswith("["):
        raise Unsupported(f"array rvalue not in subset: {s!r}")
    # ADT aggregates:  Path { f: op, .. } | Path(op, ..) | Path
    if s.endswith("}"):
        i = s.index(" {")
        path = s[:i].strip()
        inner = s[i + 2:-1].strip()
        fields = []
        for it in split_top(inner):
            if not it:
                continue
            m = re.match(r"([A-Za-z_][A-Za-z_0-9]*): (.*)$", it, re.S)
            if not m:
                raise Unsupported(f"aggregate field not in subset: {it!r}")
            fields.append((m.group(1), parse_operand(m.group(2))))
        return Rvalue("agg", op="adt", ty=path, extra=[f[1] for f in fields], b=[f[0] for f in fields])
    if s.endswith(")"):
        # find the opening paren of the trailing argument list
        depth = 0
        i = len(s) - 1
        while i >= 0:
            c = s[i]
            if c == ")":
                depth += 1
            elif c == "(":
                depth -= 1
                if depth == 0:
                    break
            i -= 1
        path = s[:i].strip()
        if not re.match(r"[A-Za-z_<]", path):
            raise Unsupported(f"rvalue not in subset: {s!r}")
        items = split_top(s[i + 1:-1])
        return Rvalue("agg", op="adt", ty=path, extra=[parse_operand(x) for x in items if x != ""])
    if re.match(r"[A-Za-z_<]", s) and " " not in _strip_generics(s):
        return Rvalue("agg", op="adt", ty=s, extra=[])
    raise Unsupported(f"rvalue not in subset: {s!r}")


def _strip_generics(s):
    out = []
    depth = 0
    for c in s:
        if c == "<":
            depth += 1
        elif c == ">":
            depth -= 1
        elif depth == 0:
            out.append(c)
    return "".join(out)


# --------------------------------------------------------------------------- statements / terminators

IGNORED_STMT = re.compile(r"^(StorageLive\(_\d+\)|StorageDead\(_\d+\)|ConstEvalCounter|nop);$")


def parse_targets(s):
    """'[return: bb1, unwind continue]' or '[0: bb3, otherwise: bb2]' -> dict"""
    s = s.strip()
    if not (s.startswith("[") and s.endswith("]")):
        raise Unsupported(f"targets not in subset: {s!r}")
    d = {}
    for it in split_top(s[1:-1]):
        if it.startswith("unwind"):
            d["unwind"] = it[len("unwind"):].strip(": ").strip()
            continue
        k, v = it.split(":", 1)
        d[k.strip()] = v.strip()
    return d


def parse_line(line, blk):
    """Parse one statement/terminator line (already stripped, ends with ';')."""
    if IGNORED_STMT.match(line):
        return
    body = line[:-1].strip()
    if body.startswith("goto -> "):
        blk.term = Term("goto", target=body[len("goto -> "):].strip(), text=line)
        return
    if body == "return":
        blk.term = Term("return", text=line)
        return
    if body == "unreachable":
        blk.term = Term("unreachable", text=line)
        return
    if body == "resume":
        blk.term = Term("resume", text=line)
        return
    if body.startswith("switchInt("):
        j = match_paren(body, len("switchInt"))
        op = parse_operand(body[len("switchInt("):j])
        rest = body[j + 1:].strip()
        if not rest.startswith("-> "):
            raise Unsupported(f"switchInt not in subset: {line!r}")
        t = parse_targets(rest[3:])
        other = t.pop("otherwise", None)
        tg = []
        for k, v in t.items():
            if not re.fullmatch(r"-?\d+", k):
                raise Unsupported(f"switchInt value not in subset: {k!r}")
            tg.append((int(k), v))
        blk.term = Term("switch", op=op, targets=tg, otherwise=other, text=line)
        return
    if body.startswith("assert("):
        j = match_paren(body, len("assert"))
        items = split_top(body[len("assert("):j])
        cond = items[0]
        expected = True
        if cond.startswith("!"):
            expected = False
            cond = cond[1:]
        rest = body[j + 1:].strip()
        if not rest.startswith("-> "):
            raise Unsupported(f"assert not in subset: {line!r}")
        t = parse_targets(rest[3:])
        blk.term = Term("assert", op=parse_operand(cond), expected=expected, msg=items[1] if len(items) > 1 else "",
                        target=t.get("success"), text=line)
        return
    if body.startswith("drop("):
        j = match_paren(body, len("drop"))
        pl = parse_place(body[len("drop("):j])
        rest = body[j + 1:].strip()
        t = parse_targets(rest[3:]) if rest.startswith("-> [") else {}
        blk.term = Term("drop", dest=pl, target=t.get("return"), text=line)
        return
    # assignment or call
    m = re.match(r"(\S.*?) = (.*)$", body, re.S)
    if not m:
        raise Unsupported(f"statement not in subset: {line!r}")
    lhs, rhs = m.group(1), m.group(2)
    # a call has ' -> ' at depth 0 after a ')'
    arrow = _find_call_arrow(rhs)
    if arrow is not None:
        call, tail = rhs[:arrow].strip(), rhs[arrow + 4:].strip()
        if not call.endswith(")"):
            raise Unsupported(f"call not in subset: {line!r}")
        depth = 0
        i = len(call) - 1
        while i >= 0:
            c = call[i]
            if c == '"':
                i -= 1
                while i >= 0 and call[i] != '"':
                    i -= 1
            elif c == ")":
                depth += 1
            elif c == "(":
                depth -= 1
                if depth == 0:
                    break
            i -= 1
        callee = call[:i].strip()
        args = [parse_operand(a) for a in split_top(call[i + 1:-1]) if a != ""]
        target = None
        if tail.startswith("["):
            target = parse_targets(tail).get("return")
        elif not tail.startswith("unwind"):
            raise Unsupported(f"call targets not in subset: {line!r}")
        blk.term = Term("call", dest=parse_place(lhs), callee=callee, args=args, target=target, text=line)
        return
    blk.stmts.append(Assign(parse_place(lhs), parse_rvalue(rhs), text=line))


def _find_call_arrow(rhs):
    depth = 0
    i = 0
    n = len(rhs)
    while i < n:
        c = rhs[i]
        if c == '"':
            i += 1
            while i < n and rhs[i] != '"':
                if rhs[i] == "\\":
                    i += 1
                i += 1
        elif c == "-" and rhs[i:i + 2] == "->":
            if depth == 0 and rhs[i - 1:i + 3] == " -> ":
                return i - 1
            i += 1
        elif c in "([{":
            depth += 1
        elif c in ")]}":
            depth -= 1
        i += 1
    return None


# --------------------------------------------------------------------------- functions / constants

HEADER = re.compile(r"^fn (.*) \{$")


def index_mir(text):
    """Return (functions: list of (name_with_args_header, start_line, end_line), consts: {name: [(header, body)]})."""
    lines = text.split("\n")
    fns = []
    consts = []
    i = 0
    n = len(lines)
    while i < n:
        ln = lines[i]
        if ln.startswith("fn ") and ln.endswith("{"):
            j = i + 1
            while j < n and lines[j] != "}":
                j += 1
            fns.append((ln, i, j))
            i = j + 1
            continue
        if ln.startswith("const ") or ln.startswith("static "):
            if ln.endswith("{"):
                j = i + 1
                while j < n and lines[j] != "}":
                    j += 1
                consts.append((ln, "\n".join(lines[i + 1:j])))
                i = j + 1
                continue
            consts.append((ln, None))
        i += 1
    return lines, fns, consts


def parse_function(lines, header, start, end):
    m = HEADER.match(header)
    sig = m.group(1)
    # name = up to the '(' that opens the argument list: the first '(' at angle-depth 0
    depth = 0
    k = None
    i = 0
    while i < len(sig):
        c = sig[i]
        if c == "-" and sig[i:i + 2] == "->":
            i += 2
            continue
        if c == "<":
            depth += 1
        elif c == ">":
            depth -= 1
        elif c == "(" and depth == 0:
            k = i
            break
        i += 1
    if k is None:
        raise Unsupported(f"function header not in subset: {header!r}")
    name = sig[:k]
    j = match_paren(sig, k)
    f = Function(name, header)
    f.line = start + 1
    for a in split_top(sig[k + 1:j]):
        if not a:
            continue
        mm = re.match(r"(_\d+): (.*)$", a, re.S)
        if not mm:
            raise Unsupported(f"argument not in subset: {a!r}")
        f.args.append((mm.group(1), mm.group(2).strip()))
        f.locals[mm.group(1)] = mm.group(2).strip()
    rest = sig[j + 1:].strip()
    f.ret = rest[3:].strip() if rest.startswith("-> ") else "()"
    f.text = "\n".join(lines[start:end + 1])
    cur = None
    for ln in lines[start + 1:end]:
        s = ln.strip()
        if not s:
            continue
        if cur is None:
            mm = re.fullmatch(r"let (mut )?(_\d+): (.*);", s)
            if mm:
                f.locals[mm.group(2)] = mm.group(3).strip()
                continue
            mm = re.fullmatch(r"debug (\S+) => (.*);", s)
            if mm:
                if re.fullmatch(r"_\d+", mm.group(2)):
                    f.debug[mm.group(2)] = mm.group(1)
                continue
            if re.fullmatch(r"scope \d+( \(inlined .*\))? \{", s) or s == "}":
                continue
            mm = re.fullmatch(r"(bb\d+)( \(cleanup\))?: \{", s)
            if mm:
                cur = Block(mm.group(1), cleanup=bool(mm.group(2)))
                f.blocks[cur.name] = cur
                f.order.append(cur.name)
                continue
            raise Unsupported(f"{name}: line not in subset: {s!r}")
        else:
            if s == "}":
                if cur.term is None:
                    if not cur.cleanup:
                        raise Unsupported(f"{name}:{cur.name}: block without terminator")
                    cur.term = Term("resume", text="(cleanup)")
                cur = None
                continue
            if s == "ConstEvalCounter;":
                f.ctfe = True
            if cur.term is not None and not cur.cleanup:
                raise Unsupported(f"{name}:{cur.name}: statement after terminator: {s!r}")
            if not s.endswith(";"):
                raise Unsupported(f"{name}:{cur.name}: multi-line statement not in subset: {s!r}")
            if cur.cleanup:
                # cleanup blocks are only reachable through unwinding, which the model treats as a terminal
                # 'panic' state: their content is not required to be in the subset (they are never executed).
                try:
                    parse_line(s, cur)
                except Unsupported:
                    pass
                continue
            try:
                parse_line(s, cur)
            except Unsupported as e:
                raise Unsupported(f"{name}:{cur.name}: {e}") from None
    if "_0" not in f.locals:
        f.locals["_0"] = f.ret
    return f


class MirFile:
    def __init__(self, text, origin=""):
        self.origin = origin
        self.lines, self.fn_index, self.const_index = index_mir(text)

    def find_function(self, pattern):
        """Exactly one non-CTFE function whose header matches the regex; else Unsupported."""
        rx = re.compile(pattern)
        hits = [(h, s, e) for (h, s, e) in self.fn_index if rx.search(h)]
        if not hits:
            raise Unsupported(f"function matching /{pattern}/ not found in MIR of {self.origin}")
        fs = [parse_function(self.lines, h, s, e) for (h, s, e) in hits]
        non_ctfe = [f for f in fs if not f.ctfe]
        if len(non_ctfe) != 1:
            raise Unsupported(f"/{pattern}/ matches {len(non_ctfe)} runtime MIR bodies in {self.origin} (expected 1)")
        return non_ctfe[0]

    def find_const(self, ref):
        """Resolve `const some::path::NAME` used inside a body to (type, literal-or-body).

        Definitions are printed with a different (shortened or impl-at) path than uses, so the match is on the last
        path segment; all definitions with that name must agree, otherwise the reference is ambiguous => Unsupported.
        """
        name = ref.split("::")[-1]
        if not re.fullmatch(r"[A-Za-z_][A-Za-z_0-9]*", name):
            raise Unsupported(f"constant reference not in subset: {ref!r}")
        found = []
        for hdr, body in self.const_index:
            m = re.match(r"^const (?:.*::)?" + re.escape(name) + r": (.*?) = (.*)$", hdr)
            if not m:
                continue
            ty = m.group(1).strip()
            val = m.group(2).strip()
            if body is None:
                mm = re.fullmatch(r"const (.*);", val)
                if not mm:
                    raise Unsupported(f"constant definition not in subset: {hdr!r}")
                found.append((ty, ("lit", mm.group(1))))
            else:
                found.append((ty, ("body", body)))
        uniq = []
        for x in found:
            if x not in uniq:
                uniq.append(x)
        if len(uniq) != 1:
            raise Unsupported(f"constant {ref!r}: {len(uniq)} distinct definitions named {name} in {self.origin} (need exactly 1)")
        return uniq[0]
