"""Model definitions of engine E2: which real functions are encoded, the client programs, the oracles."""
import re

import z3

import mir
from mir import Unsupported
import sem
from sem import bv, simp, b2bv, Val, Prim, Obj, Cell, PTR, UNIT, leaves, ptr_const, field_off


class ModelDef:
    def __init__(self, name, nthreads, mirfile, adts=None):
        self.name = name
        self.nthreads = nthreads
        self.mirfile = mirfile
        self.tenv = sem.TypeEnv(adts or {})
        self.objects = []
        self.cells = []
        self.flags = []
        self.extra_globals = {}
        self.free_hooks = []
        self.futex_addrs = []
        self.prims = []           # model specific primitives (looked up before BASE_PRIMS)
        self.functions = []       # (compiled callee regex, mir.Function)
        self.clients = []         # per thread: (mir.Function, {arg local: Val})
        self.encoded = []         # headers of the real functions encoded (for the evidence)
        self.used_prims = set()
        self.consts_used = {}

    def add_function(self, header_rx, callee_rx, mutate=None):
        f = self.mirfile.find_function(header_rx)
        if mutate is not None:
            mutate(f)
        self.functions.append((re.compile(callee_rx), f))
        self.encoded.append(f.name)
        return f

    def resolve_function(self, callee):
        hits = [f for rx, f in self.functions if rx.search(callee)]
        if len(hits) > 1:
            raise Unsupported(f"callee {callee!r} matches {len(hits)} encoded functions")
        return hits[0] if hits else None

    def find_prim(self, callee):
        for p in self.prims + sem.BASE_PRIMS:
            if p.rx.search(callee):
                self.used_prims.add(p.name)
                return p
        return None

    def named_const(self, ex, text):
        ty, (kind, payload) = self.mirfile.find_const(text)
        sh = self.tenv.shape(ty)
        if kind == "lit":
            v = ex.const_val(payload)
        else:
            v = self._const_body(ex, payload, sh)
        if leaves(v.shape) != leaves(sh):
            raise Unsupported(f"constant {text}: value does not fit its type {ty}")
        self.consts_used[text.split("::")[-1]] = str(simp(v.lv[""])) if "" in v.lv else "?"
        return Val(sh, v.lv)

    BUILTIN_CONSTS = {"core::num::<impl isize>::MAX": ("isize", (1 << 63) - 1),
                      "core::num::<impl usize>::MAX": ("usize", (1 << 64) - 1)}

    def _const_body(self, ex, body, sh):
        lines = [l.strip() for l in body.split("\n") if l.strip()]
        stmts = [l for l in lines if l.startswith("_0 = ")]
        others = [l for l in lines if not (l.startswith("let ") or l.startswith("bb0: {") or l in ("}", "return;") or l.startswith("_0 = "))]
        if len(stmts) != 1 or others:
            raise Unsupported(f"constant body not in subset: {lines}")
        m = re.fullmatch(r"_0 = const (.*) as (\w+) \(IntToInt\);", stmts[0])
        if m and m.group(1) in self.BUILTIN_CONSTS and sh[0] == "int":
            ty, val = self.BUILTIN_CONSTS[m.group(1)]
            return Val(sh, {"": bv(val & ((1 << sh[1]) - 1), sh[1])})
        m = re.fullmatch(r"_0 = const (.*);", stmts[0])
        if m:
            return ex.const_val(m.group(1))
        raise Unsupported(f"constant body not in subset: {stmts[0]}")


def parse_client(text):
    lines = text.strip("\n").split("\n")
    return mir.parse_function(lines, lines[0], 0, len(lines) - 1)


# =========================================================================== C43: futex mutex

def _p_cs_enter(ex, ctx, t, args, dshape):
    T = ex.model.nthreads
    others = [ctx.get(f"incs:{u}") == 1 for u in range(T) if u != ctx.tid]
    ctx.raise_flag("two_holders", z3.Or(*others) if others else z3.BoolVal(False))
    ctx.set(f"incs:{ctx.tid}", bv(1, 1))
    ctx.events.append("CS_ENTER")
    return Val(dshape, {})


def _p_cs_exit(ex, ctx, t, args, dshape):
    ctx.set(f"incs:{ctx.tid}", bv(0, 1))
    ctx.events.append("CS_EXIT")
    return Val(dshape, {})


def _p_expect_ok(ex, ctx, t, args, dshape):
    ctx.raise_flag("unlock_err", args[0].lv["#"] != 0)
    return Val(dshape, {})


def _split_call(fn, callee_rx, first, second, tmp_ty=None):
    """CFG mutation used by the self-test: replace the block whose terminator calls `callee_rx` by two blocks
    (`first` then `second`), i.e. make an indivisible operation divisible.  first/second build terminators."""
    hits = [b for b in fn.order if fn.blocks[b].term.kind == "call" and re.search(callee_rx, fn.blocks[b].term.callee)
            and not fn.blocks[b].cleanup]
    return hits


def mutate_swap_nonatomic(fn):
    """self-test mutation: in sys_lock, `swap(SLEEPING)` becomes a separate load and store (not indivisible)."""
    hits = [b for b in fn.order if fn.blocks[b].term.kind == "call" and fn.blocks[b].term.callee.endswith("::swap")]
    if len(hits) != 1:
        raise Unsupported(f"self-test mutation: expected exactly one swap in {fn.name}, found {len(hits)}")
    b = fn.blocks[hits[0]]
    t = b.term
    nb = mir.Block(hits[0] + "_mut")
    fn.blocks[nb.name] = nb
    fn.order.append(nb.name)
    fn.locals["_9000"] = "()"
    # load old value, then (next step) store the new one
    nb.term = mir.Term("call", dest=mir.Place("_9000"), callee=t.callee.replace("::swap", "::store"),
                       args=list(t.args), target=t.target, text="(self-test mutation) store half of the split swap")
    b.term = mir.Term("call", dest=t.dest, callee=t.callee.replace("::swap", "::load"),
                      args=[t.args[0], t.args[2]], target=nb.name, text="(self-test mutation) load half of the split swap")
    # the stored value / pointer operands were `move`d: make the first use a copy
    for a in b.term.args:
        if a.kind == "move":
            a.kind = "copy"


def mutate_futex_wait_nonatomic(fn):
    """self-test mutation: futex_wait's value check and the going-to-sleep become two steps (a wake-up that
    arrives in between is lost)."""
    hits = [b for b in fn.order if fn.blocks[b].term.kind == "call" and fn.blocks[b].term.callee == "futex_wait"]
    if len(hits) != 1:
        raise Unsupported(f"self-test mutation: expected exactly one futex_wait in {fn.name}")
    b = fn.blocks[hits[0]]
    t = b.term
    fn.locals["_9001"] = "u32"
    fn.locals["_9002"] = "bool"
    fn.locals["_9003"] = "core::sync::atomic::Ordering"
    chk = mir.Block(hits[0] + "_chk")
    slp = mir.Block(hits[0] + "_slp")
    for x in (chk, slp):
        fn.blocks[x.name] = x
        fn.order.append(x.name)
    ptr_op = mir.Operand("copy", place=t.args[0].place)
    b.term = mir.Term("call", dest=mir.Place("_9001"), callee="Atomic::<u32>::load",
                      args=[ptr_op, mir.Operand("move", place=mir.Place("_9003"))], target=chk.name,
                      text="(self-test mutation) futex_wait: read the word ...")
    chk.stmts.append(mir.Assign(mir.Place("_9002"), mir.Rvalue("bin", a=mir.Operand("move", place=mir.Place("_9001")),
                                                               b=t.args[1], op="Eq"), "(self-test mutation) compare"))
    chk.term = mir.Term("switch", op=mir.Operand("move", place=mir.Place("_9002")), targets=[(0, t.target)],
                        otherwise=slp.name, text="(self-test mutation) switch")
    slp.term = mir.Term("call", dest=t.dest, callee="__verif::futex_sleep", args=[ptr_op], target=t.target,
                        text="(self-test mutation) ... and only later go to sleep unconditionally")


def _p_futex_sleep(ex, ctx, t, args, dshape):
    ctx.set(f"st:{ctx.tid}", bv(sem.ASLEEP, sem.STATUS_W))
    ctx.set(f"sa:{ctx.tid}", bv(sem._futex_index(ex, args[0].scalar()), 2))
    ctx.set(f"slept:{ctx.tid}", bv(1, 1))
    ctx.events.append("sleep (unconditional)")
    return Val(dshape, {})


C43_CLIENT_ROUND = """
    bb{a}: {{
        _2 = Mutex::<T>::sys_lock(copy _1) -> [return: bb{b}, unwind continue];
    }}

    bb{b}: {{
        _3 = __verif::cs_enter() -> [return: bb{c}, unwind continue];
    }}

    bb{c}: {{
        _4 = __verif::cs_exit() -> [return: bb{d}, unwind continue];
    }}

    bb{d}: {{
        _5 = Mutex::<T>::sys_unlock(copy _1) -> [return: bb{e}, unwind continue];
    }}

    bb{e}: {{
        _6 = __verif::expect_ok(move _5) -> [return: bb{f}, unwind continue];
    }}
"""


def c43_client_text(rounds):
    s = ["fn __verif::client_c43(_1: &Mutex<T>) -> () {",
         "    let mut _0: ();", "    let _2: ();", "    let _3: ();", "    let _4: ();",
         "    let mut _5: core::result::Result<(), buggy::Bug>;", "    let _6: ();", ""]
    n = 0
    for r in range(rounds):
        s.append(C43_CLIENT_ROUND.format(a=n, b=n + 1, c=n + 2, d=n + 3, e=n + 4, f=n + 5).strip("\n"))
        s.append("")
        n += 5
    s += [f"    bb{n}: {{", "        return;", "    }", "}"]
    return "\n".join(s)


def build_c43(mirfile, nthreads, rounds, mutation=None):
    m = ModelDef("C43", nthreads, mirfile)
    m.add_function(r"^fn mutex::<impl at [^>]*mutex\.rs[^>]*>::sys_lock\(_1: &Mutex<T>\) -> \(\)",
                   r"^Mutex::<T>::sys_lock$", mutate={"swap_nonatomic": mutate_swap_nonatomic,
                                                      "futex_wait_nonatomic": mutate_futex_wait_nonatomic}.get(mutation))
    m.add_function(r"^fn mutex::<impl at [^>]*mutex\.rs[^>]*>::sys_unlock\(_1: &Mutex<T>\) -> core::result::Result<\(\), buggy::Bug>",
                   r"^Mutex::<T>::sys_unlock$")
    m.add_function(r"^fn cold\(\) -> \(\)", r"^cold$")
    m.objects = [Obj("mutex", 1, heap=False)]
    m.cells = [Cell("key", 1, field_off(0, 0), 32, init=0)]
    m.flags = ["two_holders", "unlock_err"]
    for t in range(nthreads):
        m.extra_globals[f"incs:{t}"] = (1, 0)
    m.prims = [
        Prim("cs_enter", r"^__verif::cs_enter$", _p_cs_enter, True, "client: enter critical section (flags two holders)"),
        Prim("cs_exit", r"^__verif::cs_exit$", _p_cs_exit, True, "client: leave critical section"),
        Prim("expect_ok", r"^__verif::expect_ok$", _p_expect_ok, False, "client: sys_unlock must return Ok"),
        Prim("futex_sleep", r"^__verif::futex_sleep$", _p_futex_sleep, True, "self-test only: unconditional sleep"),
    ]
    txt = c43_client_text(rounds)
    m.client_text = txt
    for t in range(nthreads):
        m.clients.append((parse_client(txt), {"_1": sem.ptr_val(bv(ptr_const(1, 0), sem.PTR_W))}))
    return m


# =========================================================================== generic client primitives

def _mbox_keys(model, idx):
    sh = model.mailboxes[idx]
    return [(f"mbox:{idx}|{p}", w) for p, w in leaves(sh)]


def add_mailbox(model, idx, shape):
    model.mailboxes[idx] = shape
    model.extra_globals[f"mbox:{idx}:full"] = (1, 0)
    for k, w in _mbox_keys(model, idx):
        model.extra_globals[k] = (w, 0)


def _const_index(v):
    e = simp(v.scalar())
    if not sem.is_num(e):
        raise Unsupported("mailbox index must be a constant")
    return e.as_long()


def _p_send(ex, ctx, t, args, dshape):
    """client: hand a value to another thread (models `thread::spawn(move || ..)` / a channel send)."""
    idx = _const_index(args[0])
    sh = ex.model.mailboxes[idx]
    if leaves(sh) != leaves(args[1].shape):
        raise Unsupported("send: value shape does not match the mailbox")
    ctx.raise_flag("client_error", ctx.get(f"mbox:{idx}:full") == 1)
    ctx.set(f"mbox:{idx}:full", bv(1, 1))
    for p, _ in leaves(sh):
        ctx.set(f"mbox:{idx}|{p}", args[1].lv[p])
    ctx.events.append(f"SEND({idx})")
    return Val(dshape, {})


def _p_recv(ex, ctx, t, args, dshape):
    idx = _const_index(args[0])
    sh = ex.model.mailboxes[idx]
    if leaves(sh) != leaves(dshape):
        raise Unsupported("recv: destination shape does not match the mailbox")
    ctx.set(f"mbox:{idx}:full", bv(0, 1))
    ctx.events.append(f"RECV({idx})")
    return Val(dshape, {p: ctx.get(f"mbox:{idx}|{p}") for p, _ in leaves(sh)})


def _g_recv(ex, ctx, t, args):
    idx = _const_index(args[0])
    return ctx.get(f"mbox:{idx}:full") == 1


def _p_use(ex, ctx, t, args, dshape):
    """client: read/write the data behind a reference = ACCESS event."""
    ex.check_access(ctx, args[0].scalar(), "client use of the reference")
    ctx.set("uses", bv(1, 1))
    return Val(dshape, {})


def _p_send_loan(ex, ctx, t, args, dshape):
    """client: hand an Option<Loan> to another thread.  Only Some/None travels through the mailbox; the handle
    itself is checked to be the expected pointer to the shared object (the receiver owns an equal constant)."""
    idx = _const_index(args[0])
    v = args[1]
    ctx.raise_flag("client_error", ctx.get(f"mbox:{idx}:full") == 1)
    ctx.raise_flag("client_error", z3.And(v.lv["#"] == 1, v.lv["Some.0.0.0"] != bv(ptr_const(1, 0), sem.PTR_W)))
    ctx.set(f"mbox:{idx}:full", bv(1, 1))
    ctx.set(f"mbox:{idx}|#", v.lv["#"])
    ctx.events.append(f"SEND({idx})")
    return Val(dshape, {})


def _p_recv_loan(ex, ctx, t, args, dshape):
    idx = _const_index(args[0])
    ctx.set(f"mbox:{idx}:full", bv(0, 1))
    ctx.events.append(f"RECV({idx})")
    out = sem.zero_val(dshape)
    out.lv["#"] = ctx.get(f"mbox:{idx}|#")
    for p, _ in leaves(args[1].shape):
        out.lv["Some.0." + p if p else "Some.0"] = args[1].lv[p]
    return out


def generic_prims():
    recv = Prim("recv", r"^__verif::recv$", _p_recv, True, "client: blocking receive of a value handed over by another thread")
    recv.guard = _g_recv
    recv_loan = Prim("recv_loan", r"^__verif::recv_loan$", _p_recv_loan, True,
                     "client: blocking receive of an Option<Loan> (Some/None token + the receiver's equal handle constant)")
    recv_loan.guard = _g_recv
    return [
        Prim("send", r"^__verif::send$", _p_send, True, "client: hand a value to another thread"),
        Prim("send_loan", r"^__verif::send_loan$", _p_send_loan, True, "client: hand an Option<Loan> to another thread"),
        recv, recv_loan,
        Prim("use", r"^__verif::use_ref$", _p_use, True, "client: use the data behind a reference = ACCESS event", checks_access=True),
    ]


# =========================================================================== C44: BiArc / Lender / Loan

BIARC = ("struct", (PTR,))
HANDLE = ("struct", (BIARC,))
OPT_LOAN = ("enum", (("None", ()), ("Some", (HANDLE,))))


def _p_loan_created(ex, ctx, t, args, dshape):
    some = args[0].lv["#"] == 1
    n = ctx.get("live_loans")
    ctx.raise_flag("two_live_loans", z3.And(some, n != 0))
    ctx.set("live_loans", simp(z3.If(some, n + 1, n)))
    h = ctx.get("handles_live")
    ctx.set("handles_live", simp(z3.If(some, h + 1, h)))
    which = _const_index(args[1])
    ctx.set(f"lend_some:{which}", simp(z3.If(some, bv(1, 1), ctx.get(f"lend_some:{which}"))))
    ctx.set(f"lend_none:{which}", simp(z3.If(some, ctx.get(f"lend_none:{which}"), bv(1, 1))))
    if which == 0:
        ctx.raise_flag("first_lend_failed", z3.Not(some))
    ctx.events.append("LEND_RESULT")
    return Val(dshape, {})


def _p_loan_drop_begins(ex, ctx, t, args, dshape):
    ctx.set("live_loans", simp(ctx.get("live_loans") - 1))
    ctx.set("handles_live", simp(ctx.get("handles_live") - 1))
    ctx.events.append("LOAN_DROP_BEGINS")
    return Val(dshape, {})


def _p_lender_drop_begins(ex, ctx, t, args, dshape):
    ctx.set("handles_live", simp(ctx.get("handles_live") - 1))
    ctx.events.append("LENDER_DROP_BEGINS")
    return Val(dshape, {})


def _p_lender_gone(ex, ctx, t, args, dshape):
    ctx.set("lender_gone", bv(1, 1))
    ctx.events.append("LENDER_DROP_RETURNED")
    return Val(dshape, {})


def _p_observe_gone(ex, ctx, t, args, dshape):
    ctx.events.append("OBSERVE_LENDER_GONE")
    return Val(dshape, {"": ctx.get("lender_gone")})


def _p_check_revoked(ex, ctx, t, args, dshape):
    gone = args[0].scalar() == 1
    some = args[1].lv["#"] == 1
    ctx.raise_flag("access_after_revocation", z3.And(gone, some))
    ctx.set("got_none", simp(z3.If(some, ctx.get("got_none"), bv(1, 1))))
    ctx.set("got_some", simp(z3.If(some, bv(1, 1), ctx.get("got_some"))))
    return Val(dshape, {})


def _p_excl_begin(ex, ctx, t, args, dshape):
    ex.check_access(ctx, args[0].scalar(), "use of &mut X")
    T = ex.model.nthreads
    others = [ctx.get(f"using:{u}") == 1 for u in range(T) if u != ctx.tid]
    ctx.raise_flag("two_exclusive_users", z3.Or(*others) if others else z3.BoolVal(False))
    ctx.set(f"using:{ctx.tid}", bv(1, 1))
    ctx.events.append("EXCLUSIVE_USE_BEGIN")
    return Val(dshape, {})


def _p_excl_end(ex, ctx, t, args, dshape):
    ex.check_access(ctx, args[0].scalar(), "use of &mut X")
    ctx.set(f"using:{ctx.tid}", bv(0, 1))
    ctx.events.append("EXCLUSIVE_USE_END")
    return Val(dshape, {})


def _free_hook_c44(ex, ctx, p):
    ctx.raise_flag("free_with_live_handle", ctx.get("handles_live") != 0)
    ctx.set("freed_by", bv(ctx.tid + 1, 2))


C44_OWNER_HEAD = """fn __verif::owner(_1: Lender<S, X>) -> () {
    let mut _0: ();
    let _2: &Lender<S, X>;
    let mut _3: core::option::Option<Loan<S, X>>;
    let _4: ();
    let _5: ();
    let mut _6: core::option::Option<Loan<S, X>>;
    let _7: ();
    let _8: ();
    let _9: &S;
    let _10: ();
    let _11: ();
    let _12: &mut BiArc<Data<S, X>>;
    let _13: ();
    let _14: ();
    let mut _15: isize;
    let mut _16: Loan<S, X>;
    let _17: ();
    let _18: &mut BiArc<Data<S, X>>;
    let _19: ();

    bb0: {
        _2 = &_1;
        _3 = Lender::<S, X>::lend(copy _2) -> [return: bb1, unwind continue];
    }

    bb1: {
        _4 = __verif::loan_created(copy _3, const 0_u32) -> [return: bb2, unwind continue];
    }

    bb2: {
        _5 = __verif::send_loan(const 0_u32, move _3) -> [return: bb3, unwind continue];
    }

    bb3: {
        _6 = Lender::<S, X>::lend(copy _2) -> [return: bb4, unwind continue];
    }

    bb4: {
        _7 = __verif::loan_created(copy _6, const 1_u32) -> [return: bb5, unwind continue];
    }
"""

# second loan handed to a third thread
C44_OWNER_SEND2 = """
    bb5: {
        _8 = __verif::send_loan(const 1_u32, move _6) -> [return: bb10, unwind continue];
    }
"""

# second loan (if any) dropped by the owner thread itself
C44_OWNER_KEEP2 = """
    bb5: {
        _15 = discriminant(_6);
        switchInt(move _15) -> [0: bb10, 1: bb6, otherwise: bb9];
    }

    bb6: {
        _16 = move ((_6 as Some).0: Loan<S, X>);
        _17 = __verif::loan_drop_begins() -> [return: bb7, unwind continue];
    }

    bb7: {
        _18 = &mut (_16.0: BiArc<Data<S, X>>);
        _19 = <BiArc<Data<S, X>> as Drop>::drop(copy _18) -> [return: bb10, unwind continue];
    }

    bb9: {
        unreachable;
    }
"""

C44_OWNER_TAIL = """
    bb10: {
        _9 = Lender::<S, X>::shared(copy _2) -> [return: bb11, unwind continue];
    }

    bb11: {
        _10 = __verif::use_ref(copy _9) -> [return: bb12, unwind continue];
    }

    bb12: {
        _11 = __verif::lender_drop_begins() -> [return: bb13, unwind continue];
    }

    bb13: {
        _12 = &mut (_1.0: BiArc<Data<S, X>>);
        _13 = <BiArc<Data<S, X>> as Drop>::drop(copy _12) -> [return: bb14, unwind continue];
    }

    bb14: {
        _14 = __verif::lender_gone() -> [return: bb15, unwind continue];
    }

    bb15: {
        return;
    }
}
"""

C44_BORROWER = """fn __verif::borrower(_1: Loan<S, X>) -> () {
    let mut _0: ();
    let mut _2: core::option::Option<Loan<S, X>>;
    let mut _3: isize;
    let mut _4: Loan<S, X>;
    let _5: &mut Loan<S, X>;
    let _6: bool;
    let mut _7: core::option::Option<(&S, &mut X)>;
    let _8: ();
    let mut _9: isize;
    let _10: &mut X;
    let _11: ();
    let _12: ();
    let _13: ();
    let _14: &mut BiArc<Data<S, X>>;
    let _15: ();
    let _16: &S;
    let _17: ();

    bb0: {
        _2 = __verif::recv_loan(const MBOX_u32, move _1) -> [return: bb1, unwind continue];
    }

    bb1: {
        _3 = discriminant(_2);
        switchInt(move _3) -> [0: bb12, 1: bb2, otherwise: bb11];
    }

    bb2: {
        _4 = move ((_2 as Some).0: Loan<S, X>);
        _5 = &mut _4;
        _6 = __verif::observe_lender_gone() -> [return: bb3, unwind continue];
    }

    bb3: {
        _7 = Loan::<S, X>::GETTER(copy _5) -> [return: bb4, unwind continue];
    }

    bb4: {
        _8 = __verif::check_revoked(copy _6, copy _7) -> [return: bb5, unwind continue];
    }

    bb5: {
        _9 = discriminant(_7);
        switchInt(move _9) -> [0: bb9, 1: bb6, otherwise: bb11];
    }

    bb6: {
        _10 = copy (((_7 as Some).0: (&S, &mut X)).1: &mut X);
        _11 = __verif::exclusive_begin(copy _10) -> [return: bb7, unwind continue];
    }

    bb7: {
        _16 = copy (((_7 as Some).0: (&S, &mut X)).0: &S);
        _17 = __verif::use_ref(copy _16) -> [return: bb8, unwind continue];
    }

    bb8: {
        _12 = __verif::exclusive_end(copy _10) -> [return: bb9, unwind continue];
    }

    bb9: {
        _13 = __verif::loan_drop_begins() -> [return: bb10, unwind continue];
    }

    bb10: {
        _14 = &mut (_4.0: BiArc<Data<S, X>>);
        _15 = <BiArc<Data<S, X>> as Drop>::drop(copy _14) -> [return: bb12, unwind continue];
    }

    bb11: {
        unreachable;
    }

    bb12: {
        return;
    }
}
"""


def mutate_swap_to_load(fn):
    """self-test mutation: the (single) atomic swap becomes a plain load (the new value is never written)."""
    hits = [b for b in fn.order if fn.blocks[b].term.kind == "call" and fn.blocks[b].term.callee.endswith("::swap")]
    if len(hits) != 1:
        raise Unsupported(f"self-test mutation: expected exactly one swap in {fn.name}")
    t = fn.blocks[hits[0]].term
    t.callee = t.callee.replace("::swap", "::load")
    t.args = [t.args[0], t.args[2]]
    t.text = "(self-test mutation) swap replaced by a plain load"


def mutate_split_swap_in(fn):
    """self-test mutation: the (single) atomic swap of the function becomes a load followed by a store."""
    mutate_swap_nonatomic(fn)


def build_c44(mirfile, nthreads, getter="get_mut", mutation=None):
    adts = {"BiArc": lambda te, a: BIARC, "Lender": lambda te, a: HANDLE, "Loan": lambda te, a: HANDLE}
    m = ModelDef("C44", nthreads, mirfile, adts)
    L = r"^fn biarc::<impl at [^>]*lender\.rs[^>]*>::"
    m.add_function(L + r"inner\(_1: &BiArc<T>\) -> &BiArcInner<T>", r"^BiArc::<.*>::inner$")
    m.add_function(L + r"try_clone\(_1: &BiArc<T>\)", r"^BiArc::<.*>::try_clone$",
                   mutate=mutate_swap_to_load if mutation == "try_clone_no_mark" else None)
    m.add_function(L + r"get_unconditional\(_1: &BiArc<T>\)", r"^BiArc::<.*>::get_unconditional$")
    m.add_function(L + r"get_if_shared\(_1: &BiArc<T>\)", r"^BiArc::<.*>::get_if_shared$")
    m.add_function(L + r"drop\(_1: &mut BiArc<T>\) -> \(\)", r"^<BiArc<.*> as Drop>::drop$",
                   mutate=mutate_split_swap_in if mutation == "drop_swap_nonatomic" else None)
    LL = r"^fn lender::<impl at [^>]*lender\.rs[^>]*>::"
    m.add_function(LL + r"lend\(_1: &Lender<S, X>\)", r"^Lender::<.*>::lend$")
    m.add_function(LL + r"shared\(_1: &Lender<S, X>\) -> &S", r"^Lender::<.*>::shared$")
    m.add_function(LL + r"get_ref\(_1: &Loan<S, X>\)", r"^Loan::<.*>::get_ref$")
    m.add_function(LL + r"get_mut\(_1: &mut Loan<S, X>\)", r"^Loan::<.*>::get_mut$")
    m.objects = [Obj("data", 1, heap=True)]
    m.cells = [Cell("state", 1, field_off(0, 0), 1, init=0)]
    m.flags = ["two_live_loans", "first_lend_failed", "access_after_revocation", "two_exclusive_users",
               "free_with_live_handle", "client_error"]
    m.mailboxes = {}
    token = ("enum", (("None", ()), ("Some", ())))
    add_mailbox(m, 0, token)
    if nthreads == 3:
        add_mailbox(m, 1, token)
    m.extra_globals.update({"live_loans": (2, 0), "handles_live": (2, 1), "lender_gone": (1, 0), "got_none": (1, 0),
                            "got_some": (1, 0), "uses": (1, 0), "freed_by": (2, 0),
                            "lend_some:0": (1, 0), "lend_none:0": (1, 0), "lend_some:1": (1, 0), "lend_none:1": (1, 0)})
    for t in range(nthreads):
        m.extra_globals[f"using:{t}"] = (1, 0)
    m.free_hooks = [_free_hook_c44]
    m.prims = generic_prims() + [
        Prim("loan_created", r"^__verif::loan_created$", _p_loan_created, True, "client: account for the result of lend()"),
        Prim("loan_drop_begins", r"^__verif::loan_drop_begins$", _p_loan_drop_begins, True, "client: a Loan starts being dropped"),
        Prim("lender_drop_begins", r"^__verif::lender_drop_begins$", _p_lender_drop_begins, True, "client: the Lender starts being dropped"),
        Prim("lender_gone", r"^__verif::lender_gone$", _p_lender_gone, True, "client: the Lender's drop has returned"),
        Prim("observe_lender_gone", r"^__verif::observe_lender_gone$", _p_observe_gone, True, "client: sample `lender's drop has returned`"),
        Prim("check_revoked", r"^__verif::check_revoked$", _p_check_revoked, False, "client: get_ref/get_mut that started after the lender's drop returned must yield None"),
        Prim("exclusive_begin", r"^__verif::exclusive_begin$", _p_excl_begin, True, "client: start using &mut X (ACCESS)", checks_access=True),
        Prim("exclusive_end", r"^__verif::exclusive_end$", _p_excl_end, True, "client: stop using &mut X (ACCESS)", checks_access=True),
    ]
    owner = C44_OWNER_HEAD + (C44_OWNER_SEND2 if nthreads == 3 else C44_OWNER_KEEP2) + C44_OWNER_TAIL
    handle = Val(HANDLE, {"0.0": bv(ptr_const(1, 0), sem.PTR_W)})
    m.client_text = owner + "\n" + C44_BORROWER
    m.clients.append((parse_client(owner), {"_1": handle}))
    getter_ty = "(&S, &mut X)" if getter == "get_mut" else "(&S, &X)"
    for i in range(nthreads - 1):
        txt = C44_BORROWER.replace("MBOX", str(i)).replace("GETTER", getter)
        if getter == "get_ref":
            txt = txt.replace("(&S, &mut X)", "(&S, &X)").replace("_5: &mut Loan<S, X>", "_5: &Loan<S, X>") \
                     .replace("_10: &mut X", "_10: &X").replace("_5 = &mut _4;", "_5 = &_4;") \
                     .replace("1: &mut X)", "1: &X)")
        m.clients.append((parse_client(txt), {"_1": handle}))
    return m


# =========================================================================== C33: ArcStr

ARCSTR = ("struct", (PTR,))


def c33_client_text(clones):
    hdr = ["fn __verif::text_user(_1: ArcStr) -> () {", "    let mut _0: ();", "    let _2: &ArcStr;",
           "    let _3: &str;", "    let _4: ();", "    let _5: &mut ArcStr;", "    let _6: ();"]
    body = []
    n = 0
    loc = 10
    body += [f"    bb{n}: {{", "        _2 = &_1;", f"        goto -> bb{n + 1};", "    }", ""]
    n += 1
    for c in range(clones):
        a, b, d, e, f, g = loc, loc + 1, loc + 2, loc + 3, loc + 4, loc + 5
        loc += 6
        hdr += [f"    let mut _{a}: ArcStr;", f"    let _{b}: &ArcStr;", f"    let _{d}: &str;", f"    let _{e}: ();",
                f"    let _{f}: &mut ArcStr;", f"    let _{g}: ();"]
        body += [f"    bb{n}: {{", f"        _{a} = <ArcStr as Clone>::clone(copy _2) -> [return: bb{n + 1}, unwind continue];", "    }", "",
                 f"    bb{n + 1}: {{", f"        _{b} = &_{a};", f"        _{d} = ArcStr::as_ref(copy _{b}) -> [return: bb{n + 2}, unwind continue];", "    }", "",
                 f"    bb{n + 2}: {{", f"        _{e} = __verif::use_ref(copy _{d}) -> [return: bb{n + 3}, unwind continue];", "    }", "",
                 f"    bb{n + 3}: {{", f"        _{f} = &mut _{a};", f"        _{g} = <ArcStr as Drop>::drop(copy _{f}) -> [return: bb{n + 4}, unwind continue];", "    }", ""]
        n += 4
    body += [f"    bb{n}: {{", f"        _3 = ArcStr::as_ref(copy _2) -> [return: bb{n + 1}, unwind continue];", "    }", "",
             f"    bb{n + 1}: {{", f"        _4 = __verif::use_ref(copy _3) -> [return: bb{n + 2}, unwind continue];", "    }", "",
             f"    bb{n + 2}: {{", "        _5 = &mut _1;", f"        _6 = <ArcStr as Drop>::drop(copy _5) -> [return: bb{n + 3}, unwind continue];", "    }", "",
             f"    bb{n + 3}: {{", "        return;", "    }", "}"]
    return "\n".join(hdr + [""] + body)


def mutate_fetch_sub_nonatomic(fn):
    """self-test mutation: fetch_sub(1) becomes load; store(old - 1) is not expressible without arithmetic in the
    subset, so the mutation used is: the decrement is dropped from the read (fetch_sub -> load): every dropper
    that reads 1 frees, nobody decrements."""
    hits = [b for b in fn.order if fn.blocks[b].term.kind == "call" and fn.blocks[b].term.callee.endswith("::fetch_sub")]
    if len(hits) != 1:
        raise Unsupported("self-test mutation: expected exactly one fetch_sub")
    t = fn.blocks[hits[0]].term
    t.callee = t.callee.replace("::fetch_sub", "::load")
    t.args = [t.args[0], t.args[2]]
    t.text = "(self-test mutation) fetch_sub replaced by a plain load"


def mutate_clone_no_increment(fn):
    hits = [b for b in fn.order if fn.blocks[b].term.kind == "call" and fn.blocks[b].term.callee.endswith("::fetch_add")]
    if len(hits) != 1:
        raise Unsupported("self-test mutation: expected exactly one fetch_add")
    t = fn.blocks[hits[0]].term
    t.callee = t.callee.replace("::fetch_add", "::load")
    t.args = [t.args[0], t.args[2]]
    t.text = "(self-test mutation) fetch_add replaced by a plain load (clone does not count)"


def build_c33(mirfile, nthreads, clones, mutation=None):
    adts = {"ArcStr": lambda te, a: ARCSTR}
    m = ModelDef("C33", nthreads, mirfile, adts)
    A = r"^fn arc::<impl at [^>]*repr\.rs[^>]*>::"
    m.add_function(A + r"inner\(_1: &ArcStr\) -> &ArcStrInner", r"^ArcStr::inner$")
    m.add_function(A + r"as_ref\(_1: &ArcStr\) -> &str", r"^ArcStr::as_ref$")
    m.add_function(A + r"clone\(_1: &ArcStr\) -> ArcStr", r"^<ArcStr as Clone>::clone$",
                   mutate=mutate_clone_no_increment if mutation == "clone_no_increment" else None)
    m.add_function(A + r"drop\(_1: &mut ArcStr\) -> \(\)", r"^<ArcStr as Drop>::drop$",
                   mutate=mutate_fetch_sub_nonatomic if mutation == "drop_no_decrement" else None)
    m.objects = [Obj("text", 1, heap=True)]
    m.cells = [Cell("strong", 1, field_off(0, 0), 64, init=nthreads)]
    m.flags = ["client_error"]
    m.mailboxes = {}
    m.extra_globals["uses"] = (1, 0)
    m.extra_globals["freed_by"] = (2, 0)
    m.free_hooks = [lambda ex, ctx, p: ctx.set("freed_by", bv(ctx.tid + 1, 2))]
    m.prims = generic_prims()
    txt = c33_client_text(clones)
    m.client_text = txt
    handle = Val(ARCSTR, {"0": bv(ptr_const(1, 0), sem.PTR_W)})
    for t in range(nthreads):
        m.clients.append((parse_client(txt), {"_1": handle}))
    return m
