//! Demonstration for property C09: after every successful commit or action
//! the committed head set is exactly the frontier of the committed graph.
//!
//! Only the public client API is used (`ClientState::{transaction,
//! add_commands, commit, action}` and `Storage::{get_heads, is_ancestor,
//! get_segment}`). The test keeps its own model of what has been committed
//! and compares the head set with the model's frontier after every
//! successful commit / action.

#![allow(clippy::unwrap_used, clippy::panic, clippy::indexing_slicing)]

use std::collections::{BTreeMap, BTreeSet};

use aranya_runtime::{
    ActionPlacement, Address, ClientError, ClientState, CmdId, Command, CommandExt as _,
    CommandPlacement, FactPerspective, GraphId, MemSpill, MergeIds, NullSink, Perspective, Policy,
    PolicyError, PolicyId, PolicyStore, Prior, Priority, RuntimeBuffers, Segment as _, Sink,
    Storage as _, StorageProvider, Transaction, TraversalBuffer,
    storage::linear::testing::MemStorageProvider, testing::hash_for_testing_only,
};

// ---------------------------------------------------------------------------
// A trivial policy: every command is accepted and writes nothing.
// ---------------------------------------------------------------------------

struct Store;
struct Pol;

#[derive(Clone)]
struct Cmd {
    id: CmdId,
    parent: Prior<Address>,
}

impl Command for Cmd {
    fn priority(&self) -> Priority {
        match self.parent {
            Prior::None => Priority::Init,
            Prior::Single(_) => Priority::Basic(u32::from(*self.id.as_bytes().last().unwrap())),
            Prior::Merge(..) => Priority::Merge,
        }
    }
    fn id(&self) -> CmdId {
        self.id
    }
    fn parent(&self) -> Prior<Address> {
        self.parent
    }
    fn policy(&self) -> Option<&[u8]> {
        match self.parent {
            Prior::None => Some(b""),
            _ => None,
        }
    }
    fn bytes(&self) -> &[u8] {
        b"x"
    }
}

impl PolicyStore for Store {
    type Policy = Pol;
    type Effect = ();
    fn add_policy(&mut self, _policy: &[u8]) -> Result<PolicyId, PolicyError> {
        Ok(PolicyId::new(0))
    }
    fn get_policy(&self, _id: PolicyId) -> Result<&Pol, PolicyError> {
        Ok(&Pol)
    }
}

impl Policy for Pol {
    /// The action is the name of the single command it publishes.
    type Action<'a> = &'a str;
    type Effect = ();
    type Command<'a> = Cmd;

    fn serial(&self) -> u32 {
        0
    }

    fn call_rule(
        &self,
        command: &impl Command,
        _facts: &mut impl FactPerspective,
        _sink: &mut impl Sink<()>,
        _placement: CommandPlacement,
    ) -> Result<(), PolicyError> {
        if command.id() == id("bad") {
            return Err(PolicyError::Rejected);
        }
        Ok(())
    }

    fn call_action(
        &self,
        action: &str,
        facts: &mut impl Perspective,
        _sink: &mut impl Sink<()>,
        _placement: ActionPlacement,
    ) -> Result<(), PolicyError> {
        let Prior::Single(parent) = facts.head_address()? else {
            return Err(PolicyError::InternalError);
        };
        let cmd = Cmd {
            id: id(action),
            parent: Prior::Single(parent),
        };
        facts
            .add_command(&cmd)
            .map_err(|_| PolicyError::InternalError)?;
        Ok(())
    }

    fn merge<'a>(&self, _target: &'a mut [u8], ids: MergeIds) -> Result<Cmd, PolicyError> {
        let (left, right): (Address, Address) = ids.into();
        let parents = [*left.id.as_array(), *right.id.as_array()];
        Ok(Cmd {
            id: hash_for_testing_only(parents.as_flattened()),
            parent: Prior::Merge(left, right),
        })
    }
}

fn id(name: &str) -> CmdId {
    hash_for_testing_only(name.as_bytes())
}

type SP = MemStorageProvider;
type Trx = Transaction<SP, Store>;
type Buffers = RuntimeBuffers<<SP as StorageProvider>::Segment>;

// ---------------------------------------------------------------------------
// Test harness: a client plus a model of what has been committed.
// ---------------------------------------------------------------------------

struct Harness {
    client: ClientState<Store, SP>,
    graph: GraphId,
    buffers: Buffers,
    /// Every command ever created by the test: id -> (name, address, parents).
    known: BTreeMap<CmdId, (String, Address, Vec<CmdId>)>,
    /// Commands that belong to a successfully committed transaction / action.
    committed: BTreeSet<CmdId>,
}

/// An open transaction plus the commands it has ingested so far.
struct Open {
    trx: Trx,
    ingested: Vec<CmdId>,
}

impl Harness {
    fn new() -> Self {
        let init = Cmd {
            id: id("init"),
            parent: Prior::None,
        };
        let graph = GraphId::transmute(init.id);
        let mut h = Self {
            client: ClientState::new(Store, SP::default()),
            graph,
            buffers: Buffers::new(),
            known: BTreeMap::new(),
            committed: BTreeSet::new(),
        };
        h.known
            .insert(init.id, ("init".into(), init.address().unwrap(), vec![]));
        let mut t = h.open();
        h.ingest(&mut t, &[init]).unwrap();
        h.commit(t).unwrap();
        h
    }

    fn open(&mut self) -> Open {
        Open {
            trx: self.client.transaction(self.graph),
            ingested: Vec::new(),
        }
    }

    /// Makes a command named `name` whose single parent is `parent`.
    fn cmd(&mut self, name: &str, parent: &str) -> Cmd {
        let paddr = self.known[&id(parent)].1;
        let cmd = Cmd {
            id: id(name),
            parent: Prior::Single(paddr),
        };
        self.known.insert(
            cmd.id,
            (name.into(), cmd.address().unwrap(), vec![paddr.id]),
        );
        cmd
    }

    fn ingest(&mut self, t: &mut Open, cmds: &[Cmd]) -> Result<usize, ClientError> {
        let n = self.client.add_commands(
            &mut t.trx,
            &mut NullSink,
            cmds,
            &mut self.buffers,
            MemSpill::new,
        )?;
        t.ingested.extend(cmds.iter().map(|c| c.id));
        Ok(n)
    }

    /// Commits; on success records the ingested commands as committed and
    /// checks the head set.
    fn commit(&mut self, t: Open) -> Result<bool, ClientError> {
        let r = self
            .client
            .commit(t.trx, &mut NullSink, &mut self.buffers, MemSpill::new)?;
        self.committed.extend(t.ingested);
        self.check("commit");
        Ok(r)
    }

    /// Performs an action publishing one command named `name`.
    fn action(&mut self, name: &str) {
        let old: Vec<_> = {
            let storage = self.client.provider().get_storage(self.graph).unwrap();
            storage.get_heads().unwrap().iter().collect()
        };
        assert_eq!(old.len(), 1, "demo only uses actions on single-head graphs");
        self.client
            .action(
                self.graph,
                &mut NullSink,
                name,
                &mut self.buffers,
                MemSpill::new,
            )
            .unwrap();
        let parent = old[0].address();
        let addr = Address {
            id: id(name),
            max_cut: parent.max_cut.checked_add(1).unwrap(),
        };
        self.known
            .insert(addr.id, (name.into(), addr, vec![parent.id]));
        self.committed.insert(addr.id);
        self.check("action");
    }

    /// The head set must be exactly the frontier of the committed commands.
    fn check(&mut self, after: &str) {
        let expected: BTreeSet<CmdId> = self
            .committed
            .iter()
            .copied()
            .filter(|c| {
                !self
                    .committed
                    .iter()
                    .any(|d| self.known[d].2.contains(c))
            })
            .collect();

        let known = &self.known;
        let name = |c: CmdId| known.get(&c).map_or_else(|| c.to_string(), |k| k.0.clone());
        let storage = self.client.provider().get_storage(self.graph).unwrap();
        let heads: Vec<_> = storage.get_heads().unwrap().iter().collect();

        // Sorted by command id and duplicate free.
        assert!(
            heads.windows(2).all(|w| w[0].id < w[1].id),
            "after {after}: head set not strictly sorted by id"
        );
        // Every entry points at the command it names.
        for h in &heads {
            let seg = storage.get_segment(h.location()).unwrap();
            let got = seg.get_command(h.location()).map(|c| c.id());
            assert_eq!(got, Some(h.id), "after {after}: head location mismatch");
        }
        // No head is an ancestor of another head; init is below every head.
        let mut buf = TraversalBuffer::new();
        for a in &heads {
            for b in &heads {
                assert!(
                    !storage
                        .is_ancestor(a.location(), b.location(), &mut buf)
                        .unwrap(),
                    "after {after}: head {} is an ancestor of head {}",
                    name(a.id),
                    name(b.id),
                );
            }
            let init = known[&id("init")].1;
            assert!(
                storage
                    .get_location_from(a.location(), init, &mut buf)
                    .unwrap()
                    .is_some(),
                "after {after}: init is not below head {}",
                name(a.id),
            );
        }
        // Exactly the frontier.
        let got: BTreeSet<CmdId> = heads.iter().map(|h| h.id).collect();
        let show = |s: &BTreeSet<CmdId>| s.iter().map(|c| name(*c)).collect::<Vec<_>>();
        assert_eq!(
            show(&got),
            show(&expected),
            "after {after}: committed head set (left) is not the frontier of the committed graph (right)"
        );
    }
}


/// Finding A (C09/C02): a command re-delivered in the same transaction AFTER one of its
/// children was accepted is ingested a second time and becomes an extra head.
#[test]
fn finding_duplicate_after_child_is_reingested() {
    let mut h = Harness::new();
    let mut t = h.open();
    let b1 = h.cmd("b1", "init");
    let c1 = h.cmd("c1", "init");
    let b2 = h.cmd("b2", "b1");
    let n = h.ingest(&mut t, &[b1.clone(), c1, b2, b1]).unwrap();
    assert_eq!(n, 3, "the duplicate b1 must not be counted / applied again");
    h.commit(t).unwrap();
}

/// Finding B (C06): an accepted command is lost when a LATER command that starts a new
/// perspective (its parent is not the transaction's current tip) is rejected by its policy:
/// the empty in-flight perspective makes the whole commit fail.
#[test]
fn finding_rejected_branch_start_loses_earlier_accepted_command() {
    let mut h = Harness::new();
    let mut t = h.open();
    let c1 = h.cmd("c1", "init");
    h.ingest(&mut t, &[c1]).unwrap();
    let bad = h.cmd("bad", "init");
    let r = h.client.add_commands(&mut t.trx, &mut NullSink, &[bad], &mut h.buffers, MemSpill::new);
    assert!(matches!(r, Err(ClientError::PolicyError(PolicyError::Rejected))));
    // c1 was accepted: the commit must succeed and contain it
    let r = h.commit(t);
    assert!(matches!(r, Ok(true)), "commit after a rejected branch start failed: {r:?}");
}
