//! Native confirmation of the C13 counterexample (public API only).
use aranya_runtime::{
    storage::linear::{testing::Manager, LinearStorageProvider},
    Keys, Perspective as _, PolicyId, Query as _, QueryMut as _, Revertable as _, StorageProvider as _,
};

#[test]
fn checkpoint_with_pending_write_then_revert() {
    let mut provider = LinearStorageProvider::new(Manager::new());
    let mut p = provider.new_perspective(PolicyId::new(0));
    // write k (pending: no add_command yet)
    p.insert("f".into(), Keys::from(&[&b"k"[..]][..]), (*b"1").into()).unwrap();
    assert_eq!(p.query("f", &Keys::from(&[&b"k"[..]][..])).unwrap().as_deref(), Some(&b"1"[..]));
    let cp = p.checkpoint();
    // a later write, then revert to the checkpoint
    p.insert("f".into(), Keys::from(&[&b"j"[..]][..]), (*b"2").into()).unwrap();
    p.revert(cp).unwrap();
    let got_j = p.query("f", &Keys::from(&[&b"j"[..]][..])).unwrap();
    let got_k = p.query("f", &Keys::from(&[&b"k"[..]][..])).unwrap();
    println!("after revert: j = {got_j:?} (expected None), k = {got_k:?} (expected Some([49]))");
    assert_eq!(got_j, None, "later write must be discarded");
    assert_eq!(got_k.as_deref(), Some(&b"1"[..]), "fact visible at checkpoint time must survive the revert");
}
