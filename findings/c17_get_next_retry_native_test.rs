// C17 - native reproduction of the finding of harness c17_get_next_retry_loses_nothing
// (/verif/harness/runtime/sync_resp_kernels.rs, failing check: "assertion failed: m2 == m").
//
// Defect: SyncResponder::get_commands writes the resume position of a partially sent segment into
// `self.to_send[i]` BEFORE get_next (and push) know whether the response fits into the target
// buffer. When `poll` then fails (Serialize(SerializeBufferFull) / BufferTooSmall), message_index
// and next_send are untouched - "so the caller can retry with a larger buffer without losing
// commands" - but the retry starts that segment at the advanced position: the commands of the
// segment that the failed response would have carried are never sent in this session, and the
// requester receives a command without its parent.
//
// Real code, real storage (storage::linear::testing::MemStorageProvider), the crate's own test
// policy; default feature set (COMMAND_RESPONSE_MAX = 100, no low-mem-usage needed): responder
// graph = 120 commands in two 60-command segments, peer has nothing. Reference session (large
// buffer): 2 responses, 120 commands. Same session with a 16-byte target on the first poll and a
// full-size buffer afterwards: 1 response with 80 commands (segment 1 + the LAST 20 of segment
// 2), commands 60..=99 never arrive, add_commands fails with NoSuchParent.
//
// How to run (unchanged tree, scratch copy; the module below is an in-crate test, appended to
// crates/aranya-runtime/src/sync/responder.rs):
//
//   rsync -a --exclude target --exclude .git /repo/ /var/tmp/repro/ && cd /var/tmp/repro
//   cat /verif/findings/c17_get_next_retry_native_test.rs >> crates/aranya-runtime/src/sync/responder.rs
//   CARGO_NET_OFFLINE=true cargo test -p aranya-runtime --features testing,libc --lib \
//       c17_get_next_retry_native -- --nocapture
//
// Output on /repo HEAD 8463947 (sync/responder.rs unchanged by the recorded fixes), 2026-09-22:
//
//   running 1 test
//   reference session: 2 responses, 120 commands, first orphan: None, add_commands error: None, dest == source: true
//   retried session: first poll error: Some("Serialize(SerializeBufferFull)"); then 1 responses, 80 commands, first orphan at position Some(60), add_commands error: Some("NoSuchParent(CmdId(DGmHo2kMUtVefXZeVZ8jXwosd5me7zirTpbu9DgWhpgU))"), dest == source: false
//   commands of the reference session (by arrival position) never delivered after the retry: 40 of 120: [60, 61, ..., 99]
//   thread 'sync::responder::c17_get_next_retry_native::retry_after_small_buffer_delivers_the_same_commands' panicked at crates/aranya-runtime/src/sync/responder.rs:1181:9:
//   assertion `left == right` failed: after a failed poll + retry the session delivered fewer commands than the same session polled with a large buffer
//     left: 80
//    right: 120
//   test sync::responder::c17_get_next_retry_native::retry_after_small_buffer_delivers_the_same_commands ... FAILED
//   test result: FAILED. 0 passed; 1 failed; 0 ignored; 0 measured; 157 filtered out; finished in 2.80s
//
// Fix sketch: let get_commands return the resume location together with the index and apply it
// in get_next / push only where next_send and message_index are committed.
#[cfg(test)]
mod c17_get_next_retry_native {
    #![allow(clippy::arithmetic_side_effects)]

    use alloc::vec::Vec as AVec;

    use aranya_crypto::Rng;

    use super::*;
    use crate::{
        ClientState, MemSpill, RuntimeBuffers,
        storage::linear::testing::MemStorageProvider,
        sync::{MAX_SYNC_MESSAGE_SIZE, SyncIncoming, SyncRequester},
        testing::protocol::{TestActions, TestPolicyStore, TestSink},
    };

    type TestClient = ClientState<TestPolicyStore, MemStorageProvider>;

    fn new_client() -> TestClient {
        ClientState::new(TestPolicyStore::new(), MemStorageProvider::default())
    }

    fn new_sink() -> TestSink {
        let mut sink = TestSink::new();
        sink.ignore_expectations(true);
        sink
    }

    /// One complete, well-behaved session source -> dest (large buffer throughout); used only to
    /// build a client whose graph is stored in two segments.
    fn run_full_session(source: &mut TestClient, dest: &mut TestClient, graph_id: GraphId) -> usize {
        let mut sink = new_sink();
        let mut rt_buffers = RuntimeBuffers::new();
        let req_cache = PeerCache::new();
        let mut resp_cache = PeerCache::new();
        let mut requester = SyncRequester::new(graph_id, Rng);
        let mut responder = SyncResponder::new();
        let mut buffer = vec![0u8; MAX_SYNC_MESSAGE_SIZE];
        let (len, _sent) = requester
            .poll(
                &mut buffer,
                dest.provider(),
                &req_cache.session_heads(),
                &mut rt_buffers.traversal.primary,
            )
            .expect("requester poll");
        match SyncIncoming::decode(&buffer[..len]).expect("decode") {
            SyncIncoming::Poll(poll) => responder.receive(poll).expect("responder receive"),
            _ => panic!("expected a poll message"),
        }
        let mut trx = dest.transaction(graph_id);
        let mut received = 0;
        while responder.ready() {
            let len = responder
                .poll(&mut buffer, source.provider(), &mut resp_cache, &mut rt_buffers.traversal)
                .expect("responder poll");
            if len == 0 {
                break;
            }
            let Some(cmds) = requester.receive(&buffer[..len]).expect("requester receive") else {
                break;
            };
            received += dest
                .add_commands(&mut trx, &mut sink, &cmds, &mut rt_buffers, MemSpill::new)
                .expect("add_commands");
        }
        dest.commit(trx, &mut sink, &mut rt_buffers, MemSpill::new).expect("commit");
        received
    }

    /// A client holding `2 * stage` commands in exactly two `stage`-command segments (same
    /// construction as `tests::client_with_two_segments` in this file).
    fn client_with_two_segments(stage: u64) -> (TestClient, GraphId) {
        let mut sink = new_sink();
        let mut rt_buffers = RuntimeBuffers::new();
        let mut a = new_client();
        let graph_id = a
            .new_graph(&0u64.to_be_bytes(), TestActions::Init(0), &mut sink)
            .expect("new_graph");
        for i in 1..stage {
            a.action(graph_id, &mut sink, TestActions::SetValue(i, i), &mut rt_buffers, MemSpill::new)
                .expect("action");
        }
        let mut b = new_client();
        run_full_session(&mut a, &mut b, graph_id);
        for i in stage..(2 * stage) {
            a.action(graph_id, &mut sink, TestActions::SetValue(i, i), &mut rt_buffers, MemSpill::new)
                .expect("action");
        }
        run_full_session(&mut a, &mut b, graph_id);
        assert_eq!(
            b.head_address(graph_id).expect("b head"),
            a.head_address(graph_id).expect("a head"),
        );
        (b, graph_id)
    }

    /// What the requester saw in one session: (id, parent) of every command, in arrival order.
    struct Seen {
        cmds: AVec<(CmdId, Prior<Address>)>,
        responses: usize,
        first_poll_error: Option<alloc::string::String>,
        add_commands_error: Option<alloc::string::String>,
        dest_matches_source: bool,
    }

    /// A real session from `source` to a peer that has nothing. If `first_target` is Some(n),
    /// the FIRST `SyncResponder::poll` is given an n-byte target (too small), after which the
    /// transport retries with a full-size buffer, as the comment in `get_next` invites it to.
    fn session(source: &mut TestClient, graph_id: GraphId, first_target: Option<usize>) -> Seen {
        let mut dest = new_client();
        let mut sink = new_sink();
        let mut rt_buffers = RuntimeBuffers::new();
        let req_cache = PeerCache::new();
        let mut resp_cache = PeerCache::new();
        let mut requester = SyncRequester::new(graph_id, Rng);
        let mut responder = SyncResponder::new();
        let mut buffer = vec![0u8; MAX_SYNC_MESSAGE_SIZE];

        let (len, _sent) = requester
            .poll(
                &mut buffer,
                dest.provider(),
                &req_cache.session_heads(),
                &mut rt_buffers.traversal.primary,
            )
            .expect("requester poll");
        match SyncIncoming::decode(&buffer[..len]).expect("decode") {
            SyncIncoming::Poll(poll) => responder.receive(poll).expect("responder receive"),
            _ => panic!("expected a poll message"),
        }

        let mut seen = Seen {
            cmds: AVec::new(),
            responses: 0,
            first_poll_error: None,
            add_commands_error: None,
            dest_matches_source: false,
        };

        if let Some(n) = first_target {
            let mut small = vec![0u8; n];
            match responder.poll(&mut small, source.provider(), &mut resp_cache, &mut rt_buffers.traversal) {
                Ok(len) => panic!("the small target unexpectedly sufficed ({len} bytes)"),
                Err(e) => seen.first_poll_error = Some(alloc::format!("{e:?}")),
            }
            assert!(responder.ready(), "responder must still be ready after the failed poll");
        }

        let mut trx = dest.transaction(graph_id);
        let mut rounds = 0;
        while responder.ready() {
            rounds += 1;
            assert!(rounds <= 64, "sync session did not terminate");
            let len = responder
                .poll(&mut buffer, source.provider(), &mut resp_cache, &mut rt_buffers.traversal)
                .expect("responder poll with a full-size buffer");
            if len == 0 {
                break;
            }
            let Some(cmds) = requester.receive(&buffer[..len]).expect("requester receive") else {
                break; // SyncEnd
            };
            seen.responses += 1;
            for c in &cmds {
                seen.cmds.push((c.id(), c.parent()));
            }
            if seen.add_commands_error.is_none() {
                if let Err(e) =
                    dest.add_commands(&mut trx, &mut sink, &cmds, &mut rt_buffers, MemSpill::new)
                {
                    seen.add_commands_error = Some(alloc::format!("{e:?}"));
                }
            }
        }
        if seen.add_commands_error.is_none() {
            dest.commit(trx, &mut sink, &mut rt_buffers, MemSpill::new).expect("commit");
            seen.dest_matches_source = dest.head_address(graph_id).ok()
                == Some(source.head_address(graph_id).expect("source head"));
        }
        seen
    }

    /// Index of the first command whose parent was neither delivered earlier in the session nor
    /// is absent (init).
    fn first_orphan(seen: &Seen) -> Option<usize> {
        for (i, (_, parent)) in seen.cmds.iter().enumerate() {
            let parents: AVec<Address> = match parent {
                Prior::None => AVec::new(),
                Prior::Single(a) => alloc::vec![*a],
                Prior::Merge(a, b) => alloc::vec![*a, *b],
            };
            for p in parents {
                if !seen.cmds[..i].iter().any(|(id, _)| *id == p.id) {
                    return Some(i);
                }
            }
        }
        None
    }

    /// C17: a failed `poll` (target too small) must not lose commands: the retried session has to
    /// deliver what a session polled with a large buffer from the start delivers.
    #[test]
    fn retry_after_small_buffer_delivers_the_same_commands() {
        // more than COMMAND_RESPONSE_MAX commands in two segments, so that the first response is
        // cut in the middle of the second segment
        let stage = (COMMAND_RESPONSE_MAX as u64 * 3) / 5; // 60 (default build), 3 (low-mem-usage)
        let total = 2 * stage as usize;
        assert!(total > COMMAND_RESPONSE_MAX && (stage as usize) < COMMAND_RESPONSE_MAX);
        let (mut b, graph_id) = client_with_two_segments(stage);

        let reference = session(&mut b, graph_id, None);
        std::eprintln!(
            "reference session: {} responses, {} commands, first orphan: {:?}, add_commands error: {:?}, dest == source: {}",
            reference.responses,
            reference.cmds.len(),
            first_orphan(&reference),
            reference.add_commands_error,
            reference.dest_matches_source
        );
        assert_eq!(reference.cmds.len(), total, "reference session must deliver everything");
        assert_eq!(first_orphan(&reference), None);
        assert!(reference.dest_matches_source);

        let retried = session(&mut b, graph_id, Some(16));
        std::eprintln!(
            "retried session: first poll error: {:?}; then {} responses, {} commands, first orphan at position {:?}, add_commands error: {:?}, dest == source: {}",
            retried.first_poll_error,
            retried.responses,
            retried.cmds.len(),
            first_orphan(&retried),
            retried.add_commands_error,
            retried.dest_matches_source
        );
        let missing: AVec<usize> = (0..total)
            .filter(|i| !retried.cmds.iter().any(|(id, _)| *id == reference.cmds[*i].0))
            .collect();
        std::eprintln!(
            "commands of the reference session (by arrival position) never delivered after the retry: {} of {}: {:?}",
            missing.len(),
            total,
            missing
        );
        assert_eq!(
            retried.cmds.len(),
            reference.cmds.len(),
            "after a failed poll + retry the session delivered fewer commands than the same session polled with a large buffer"
        );
        assert_eq!(first_orphan(&retried), None, "a command arrived without its parent");
        assert!(retried.dest_matches_source);
    }
}
